"""Data strategies (DESIGN.md 3.1): finite numeric time series, rows = time.

All strategies return plain nested lists (JSON values). Families:

* exact    - small integers or dyadic rationals k/8: prefix sums are exact in float64, so
             genuine ties, constant stretches and zero variances occur;
* generic  - floats in {0} U +-[1e-3, 1e3] ("moderate dynamic range") with optional
             per-column offset/scale;
* structured signals on top of either: level shifts, spikes, bumps on column subsets.
"""

import math

from hypothesis import strategies as st


def weighted(draw, options):
    """Draw from one of the (weight, strategy) options with the given integer weights
    (st.one_of was measured to over-weight its first/simplest branch)."""
    # Hypothesis favours the simplest choice (r = 0) far beyond its nominal weight when the
    # draw sits inside a large composite (measured: ~50 %), so the heaviest, most generic
    # option is put first and boundary options last.
    options = sorted(options, key=lambda o: -o[0])
    total = sum(w for w, _ in options)
    r = draw(st.integers(0, total - 1))
    for w, strat in options:
        if r < w:
            return draw(strat)
        r -= w
    raise AssertionError


def generic_float(max_abs=1e3, min_abs=1e-3):
    return st.one_of(
        st.just(0.0),
        st.floats(min_abs, max_abs, allow_nan=False, allow_infinity=False),
        st.floats(-max_abs, -min_abs, allow_nan=False, allow_infinity=False),
    )


@st.composite
def exact_matrix(draw, n, p, amp=8, dyadic=None):
    if dyadic is None:
        dyadic = draw(st.booleans())
    flat = draw(st.lists(st.integers(-amp, amp), min_size=n * p, max_size=n * p))
    d = 8.0 if dyadic else 1.0
    return [[flat[i * p + j] / d for j in range(p)] for i in range(n)]


@st.composite
def generic_matrix(draw, n, p, max_abs=1e3):
    flat = draw(st.lists(generic_float(max_abs), min_size=n * p, max_size=n * p))
    return [[float(flat[i * p + j]) for j in range(p)] for i in range(n)]


@st.composite
def noise_matrix(draw, n, p, exact):
    """Unit-scale noise: integers in [-2, 2] (exact) or floats in [-1, 1]."""
    if exact:
        flat = draw(st.lists(st.integers(-2, 2), min_size=n * p, max_size=n * p))
        return [[float(flat[i * p + j]) for j in range(p)] for i in range(n)]
    # micro-units: by construction in {0} U +-[1e-6, 1], shrinks to simple numbers
    flat = draw(st.lists(st.integers(-10**6, 10**6), min_size=n * p, max_size=n * p))
    return [[flat[i * p + j] / 1e6 for j in range(p)] for i in range(n)]


@st.composite
def structured_matrix(draw, n, p, exact=None, boundary_positions=(), max_shifts=4,
                      max_spikes=3, max_bumps=3, noise=True, min_noise_scale=None):
    """signal + noise. Shifts/spikes/bumps are placed at generated positions, with the
    given boundary positions (first/last admissible ones of the detector at hand) made
    likely. Returns (X, meta) where meta lists what was placed."""
    # Layout: the structure first and with a fixed number of draws, the bulk noise last. Hypothesis derives most
    # of its cases by copying spans of an earlier case; a copy that changes the length of a variable-size part
    # misaligns every later choice, which then falls back to its *minimal* value. Measured: choices drawn after
    # the bulk data of a case took their minimal value in 35-60 % of the cases. See DESIGN.md 8.2.
    if exact is None:
        exact = draw(st.booleans())
    sc, dither = None, False
    if not exact and min_noise_scale is not None:
        sc = draw(st.floats(min_noise_scale, 2.0))
        dither = draw(st.integers(0, 3)) > 0
    pos = st.integers(0, n - 1)
    if boundary_positions:
        bp = [b for b in boundary_positions if 0 <= b <= n - 1]
        if bp:
            pos = st.one_of(st.sampled_from(bp), pos)
    mag = st.integers(-12, 12) if exact else st.floats(-12.0, 12.0, allow_nan=False)
    mask = st.integers(1, 2 ** p - 1)  # non-empty subset of the columns

    def columns(m):
        return [j for j in range(p) if (m >> j) & 1]

    # readings rounded to one decimal / to whole numbers (instrument resolution): near-ties and exact ties in float data
    quantise = draw(st.sampled_from([None, None, None, None, None, None, 1, 0])) if not exact else None
    counts = [draw(st.integers(0, k)) for k in (max_shifts, max_spikes, max_bumps)]
    shifts = [(draw(pos), draw(mag), draw(mask)) for _ in range(max_shifts)][:counts[0]]
    spikes = [(draw(pos), draw(mag), draw(mask)) for _ in range(max_spikes)][:counts[1]]
    bumps = [(draw(pos), draw(st.integers(1, max(1, n // 2))), draw(mag), draw(mask)) for _ in range(max_bumps)][:counts[2]]
    if noise:
        X = draw(noise_matrix(n, p, exact))
    else:
        X = [[0.0] * p for _ in range(n)]
    if sc is not None:
        X = [[v * sc for v in row] for row in X]
        if dither:
            # deterministic dither (Weyl sequence) so that slices are rarely exactly constant
            X = [[v + sc * ((((i + 1) * 0.6180339887498949 + (j + 1) * 0.7548776662466927) % 1.0) - 0.5)
                  for j, v in enumerate(row)] for i, row in enumerate(X)]
    meta = {"shifts": [], "spikes": [], "bumps": []}
    for t, m, cm in shifts:
        meta["shifts"].append(t)
        for i in range(t, n):
            for j in columns(cm):
                X[i][j] += float(m)
    for t, m, cm in spikes:
        meta["spikes"].append(t)
        for j in columns(cm):
            X[t][j] += float(m) * 2
    for a, ln, m, cm in bumps:
        b = min(n, a + ln)
        meta["bumps"].append([a, b])
        for i in range(a, b):
            for j in columns(cm):
                X[i][j] += float(m)
    if quantise is not None and (sc is None or sc >= 0.05):
        X = [[round(v, quantise) for v in row] for row in X]
        meta["quantised"] = quantise
    return X, meta


@st.composite
def any_matrix(draw, n, p):
    """Mixture of the families; returns X only."""
    kind = draw(st.sampled_from(["structured", "exact", "generic", "plateau", "offset_scale", "constant", "structured", "identical_spikes",
                                 "periodic", "trend", "rounded"]))
    if kind in ("periodic", "trend", "rounded"):
        # shapes of real measurements: a seasonal cycle, a drift, readings rounded to one decimal (many exact ties) -
        # each with optional level shifts on top and small noise
        period = draw(st.sampled_from([2, 3, 7, 12, 24]))
        amp = draw(st.sampled_from([1.0, 5.0, 0.3]))
        slope = draw(st.sampled_from([0.1, -0.05, 1.0, 0.01]))
        shift_at = [draw(st.integers(0, n - 1)) for _ in range(draw(st.integers(0, 2)))]
        shift_by = draw(st.sampled_from([3.0, -2.0, 0.5]))
        noise_amp = draw(st.sampled_from([0.1, 0.5, 0.0]))
        Z = draw(noise_matrix(n, p, False))
        X = []
        for i in range(n):
            row = []
            for j in range(p):
                if kind == "periodic":
                    v = amp * math.sin(2 * math.pi * (i + j) / period)
                elif kind == "trend":
                    v = slope * i * (1 + j)
                else:
                    v = amp * math.sin(0.37 * i + j)
                v += shift_by * sum(1 for t in shift_at if i >= t) + noise_amp * Z[i][j]
                row.append(round(v, 1) if kind == "rounded" else v)
            X.append(row)
        return X
    if kind == "identical_spikes":
        # a quantised signal that is constant except for a few isolated readings of one identical size (a counter that is 0
        # except for saturated readings): exactly equal, flat-topped score peaks in separate places
        level = draw(st.sampled_from([0.0, 0.0, 1.0, 0.1, -3.0]))
        size = draw(st.sampled_from([255.0, 8.0, -5.0, 1.0]))
        cols = draw(st.integers(1, 2 ** p - 1))
        k = draw(st.integers(2, 4))
        where = [draw(st.integers(0, n - 1)) for _ in range(k)]
        X = [[level] * p for _ in range(n)]
        for t in where:
            for j in range(p):
                if (cols >> j) & 1:
                    X[t][j] = level + size
        return X
    if kind == "offset_scale":
        # per-column level and spread: x = offset_j + scale_j * noise (signal well above / below its level,
        # small and large units); variances stay far above the 1e-16 floor
        levels = [(draw(st.sampled_from([0.0, 10.0, 300.0, -1000.0, 0.5])), draw(st.sampled_from([1.0, 1e-2, 1e-3, 1e2, 0.2])))
                  for _ in range(p)]
        X = draw(noise_matrix(n, p, False))
        for j in range(p):
            off, sc = levels[j]
            for i in range(n):
                X[i][j] = off + sc * (X[i][j] + 0.25 * ((((i + 1) * 0.6180339887498949 + (j + 1) * 0.7548776662466927) % 1.0) - 0.5))
        return X
    if kind == "plateau":
        # piecewise constant at values that are not exactly representable: prefix-sum variances of
        # the constant runs are rounding noise of either sign around 0 (sensor stuck at a reading)
        levels = [0.1, 0.3, 0.7, 1.0 / 3.0, 2.2, -1.1, 0.05]
        X = [[0.0] * p for _ in range(n)]
        for j in range(p):
            i = 0
            while i < n:
                run = draw(st.integers(2, max(2, n)))
                v = draw(st.sampled_from(levels))
                for r in range(i, min(n, i + run)):
                    X[r][j] = v
                i += run
        return X
    if kind == "exact":
        return draw(exact_matrix(n, p))
    if kind == "generic":
        return draw(generic_matrix(n, p))
    if kind == "constant":
        c = draw(st.sampled_from([0.1, 0.0, 1.0, -3.5, 0.3]))
        X = [[c] * p for _ in range(n)]
        if draw(st.booleans()) and p > 1:
            j = draw(st.integers(0, p - 1))
            col = draw(exact_matrix(n, 1))
            for i in range(n):
                X[i][j] = col[i][0]
        return X
    X, _ = draw(structured_matrix(n, p))
    return X


def max_abs(X):
    m = 0.0
    for row in X:
        for v in row:
            a = abs(v)
            if a > m:
                m = a
    return m


# ---- index / container variants (C05, C10, C11) -------------------------------------

INDEX_KINDS = ["range0", "range_offset", "range_step", "datetime_D", "datetime_h", "period_M",
               "period_D", "datetime_B", "datetime_MS"]  # B / MS: calendar frequencies (business days, month starts), unequal spacing in time
# time indexes in which one label occurs twice (hourly wall-clock stamps over the end of daylight saving, several
# readings per period): monotone, accepted by the library's validation, handled purely by position
REPEAT_INDEX_KINDS = ["datetime_repeat", "period_repeat"]
# a time-zone aware hourly index that runs across the end of daylight saving time (the wall-clock hour 02:00-03:00 occurs
# twice, the instants are distinct): usable everywhere, also for update
TZ_INDEX_KINDS = ["datetime_tz_dst"]
INDEX_NAMES = [None, "time", "t", "labels", "ilocs", "index", 0]  # also the library's own output column names


@st.composite
def index_spec(draw, kinds=INDEX_KINDS, names=True):
    kind = draw(st.sampled_from(kinds))
    spec = {"kind": kind}
    if kind == "range_offset":
        spec["start"] = draw(st.integers(-5, 1000))
    elif kind == "range_step":
        spec["start"] = draw(st.integers(-5, 1000))
        spec["step"] = draw(st.sampled_from([2, 7]))
    elif kind.startswith("datetime") or kind.startswith("period"):
        spec["start"] = draw(st.sampled_from(["2020-01-01", "1999-12-31", "2024-02-28"]))
    if kind == "datetime_repeat":
        spec["at"] = draw(st.integers(0, 40))
    if kind == "period_repeat":
        spec["reps"] = draw(st.sampled_from([2, 3, 10]))
    if names:
        name = draw(st.sampled_from(INDEX_NAMES))
        if name is not None:
            spec["name"] = name
    return spec


def build_index(spec, n):
    idx = _build_index(spec, n)
    if spec.get("name") is not None:
        idx = idx.rename(spec["name"])
    return idx


def _build_index(spec, n):
    import pandas as pd

    k = spec["kind"]
    if k == "range0":
        return pd.RangeIndex(n)
    if k == "range_offset":
        return pd.RangeIndex(spec["start"], spec["start"] + n)
    if k == "range_step":
        return pd.RangeIndex(spec["start"], spec["start"] + spec["step"] * n, spec["step"])
    if k in ("datetime_D", "datetime_h", "datetime_B", "datetime_MS"):
        # `unit`: the resolution the stamps are stored in (ns is the pandas default; s / ms / us come from date_range(unit=), parquet, SQL)
        return pd.date_range(spec["start"], periods=n, freq=k.split("_")[1], unit=spec.get("unit", "ns"))
    if k == "period_M":
        return pd.period_range(spec["start"], periods=n, freq="M")
    if k == "period_D":
        return pd.period_range(spec["start"], periods=n, freq="D")
    if k == "datetime_tz_dst":
        return pd.date_range("2021-10-30 16:00", periods=n, freq="h", tz="Europe/Oslo")
    if k == "datetime_repeat":
        base = pd.date_range(spec["start"], periods=max(n - 1, 1), freq="h")
        at = min(spec["at"], len(base) - 1)
        return pd.DatetimeIndex(list(base[:at + 1]) + list(base[at:]))[:n]
    if k == "period_repeat":
        r = spec["reps"]
        return pd.period_range(spec["start"], periods=n // r + 1, freq="D").repeat(r)[:n]
    raise ValueError(k)


def same_index(got, expected):
    """Exactly the same index: values, length and name(s)."""
    return len(got) == len(expected) and got.equals(expected) and list(got.names) == list(expected.names)


# ---- column labels (C05, C11, C12, C16) ------------------------------------------------

COLUMN_KINDS = ["default", "strings", "strings_reversed", "unsorted", "reserved", "int_shuffled", "mixed", "duplicated"]
UNIQUE_COLUMN_KINDS = COLUMN_KINDS[:-2]


def column_labels(kind, p):
    """Column labels of a DataFrame with p columns (a plain list; `default` = 0..p-1)."""
    if kind.startswith("rev:"):  # the same label set in the opposite order
        return column_labels(kind[4:], p)[::-1]
    if kind == "default":
        return list(range(p))
    if kind == "strings":
        return [f"v{chr(97 + j)}" for j in range(p)]
    if kind == "strings_reversed":  # the same label set as `strings`, in the opposite order
        return [f"v{chr(97 + j)}" for j in range(p)][::-1]
    if kind == "unsorted":  # not in lexicographic order
        return [f"{chr(122 - (j % 26))}{j}" for j in range(p)]
    if kind == "reserved":  # words the library itself uses for its output columns
        words = ["labels", "ilocs", "icolumns", "index", "level_0", "scores"]
        return [words[j % 6] + ("" if j < 6 else str(j)) for j in range(p)]
    if kind == "int_shuffled":  # integer labels that are not the positions
        return [10 + p - 1 - j for j in range(p)]
    if kind == "mixed":  # 1 and "1" are different labels that print alike
        return [(j // 2 + 1) if j % 2 == 0 else str(j // 2 + 1) for j in range(p)]
    if kind == "duplicated":  # the first label occurs twice
        return ["temp"] + ["temp" if j == 1 else f"v{chr(97 + j)}" for j in range(1, p)]
    raise ValueError(kind)


# ---- realistic series for enumerated cells (deterministic functions of a stored seed) ----------------------------------


def realistic_series(seed, n, p, kind=None):
    """A series of the kind users feed the detectors with default settings: noise with level shifts, optionally a seasonal
    cycle, a drift, readings rounded to one decimal, bursts of outliers, a plateau, events in the first / last samples.
    numpy PCG64 seeded with `seed` (the cell stores the seed; hundreds of values are not drawn through Hypothesis)."""
    import numpy as np

    rng = np.random.Generator(np.random.PCG64(seed))
    kinds = ["shifts", "seasonal", "trend", "rounded", "bursts", "plateau", "ends", "variance"]
    kind = kind or kinds[seed % len(kinds)]
    X = rng.standard_normal((n, p))
    t = np.arange(n)[:, None]
    n_shifts = int(rng.integers(1, 5)) if kind not in ("ends_strong", "burst_short") or seed % 2 else 0
    for pos in sorted(int(v) for v in rng.integers(5, n - 5, size=n_shifts)):
        cols = rng.random(p) < 0.7
        cols[int(rng.integers(0, p))] = True
        X[pos:, cols] += float(rng.choice([2.0, -3.0, 1.0, 5.0]))
    if kind == "seasonal":
        X += 1.5 * np.sin(2 * np.pi * t / int(rng.choice([7, 12, 24, 50])))
    elif kind == "trend":
        X += float(rng.choice([0.02, -0.01, 0.05])) * t
    elif kind == "rounded":
        X = np.round(X, 1)
    elif kind == "bursts":
        for pos in rng.integers(0, n, size=4):
            X[int(pos):int(pos) + int(rng.integers(1, 4))] += float(rng.choice([8.0, -10.0]))
    elif kind == "plateau":
        a = int(rng.integers(10, n - 30))
        X[a:a + 20] = np.round(X[a], 1)
    elif kind == "ends":
        X[:3] += 6.0
        X[-2:] -= 7.0
    elif kind == "variance":
        a = int(rng.integers(20, n - 20))
        X[a:] *= 3.0
    elif kind == "ends_strong":  # start-up transient / end effect shorter than any minimum segment length
        X[:2] += 20.0
        X[-2:] -= 20.0
    elif kind == "burst_short":  # strong bursts of 2 samples
        for pos in (n // 3 - 1, (2 * n) // 3 + 1):
            X[pos:pos + 2] += 15.0
    return X, kind

"""User-defined scorers and detectors used as *inputs* of the checks (DESIGN.md 3.2).

They are ordinary subclasses of skchange's public base classes, constructed from generated
tables (nested lists, so that sktime's clone / get_params protocol works).
"""

import numpy as np

from skchange.anomaly_scores import BaseLocalAnomalyScore, BaseSaving
from skchange.change_detectors.base import ChangeDetector
from skchange.change_scores import CUSUM, BaseChangeScore
from skchange.costs import BaseCost, L2Cost

# Evaluation counters are kept outside the estimator objects, keyed by a user-chosen tag,
# so that clone()/reset() of the estimator does not lose them.
EVAL_COUNTS = {}


def reset_counts():
    EVAL_COUNTS.clear()


def _count(tag, k):
    if tag is not None:
        EVAL_COUNTS[tag] = EVAL_COUNTS.get(tag, 0) + int(k)


class TableCost(BaseCost):
    """C(s, e) = table[s][e] (optimal-parameter mode only); one output column."""

    evaluation_type = "multivariate"

    def __init__(self, table=None, msize=1, tag=None, param=None, int_output=False, memo=None):
        self.table = table
        self.msize = msize
        self.tag = tag
        self.int_output = int_output  # a user cost may well return an integer-typed array (counts)
        # "cache": results are memoised per cuts batch and the SAME array object is handed out again (an expensive user cost
        # with a cache); "readonly": the result is a read-only array. Either way the array belongs to the user's cost.
        self.memo = memo
        super().__init__(param)

    @property
    def min_size(self):
        return self.msize

    def get_param_size(self, p):
        return p

    def _fit(self, X, y=None):
        self._t = np.asarray(self.table, dtype=np.int64 if self.int_output else float)
        self._cache = {}
        return self

    def _evaluate_optim_param(self, starts, ends):
        _count(self.tag, len(starts))
        if self.memo == "cache":
            key = (np.asarray(starts).tobytes(), np.asarray(ends).tobytes())
            if key not in self._cache:
                self._cache[key] = self._t[starts, ends].reshape(-1, 1)
            return self._cache[key]
        out = self._t[starts, ends].reshape(-1, 1)
        if self.memo == "readonly":
            out.setflags(write=False)
        return out

    def _evaluate_fixed_param(self, starts, ends):
        return self._evaluate_optim_param(starts, ends)


class TableSaving(BaseSaving):
    """saving(s, e)[j] = table[s][e][j]; p output columns."""

    def __init__(self, table=None, msize=1, tag=None):
        self.table = table
        self.msize = msize
        self.tag = tag
        super().__init__()

    @property
    def min_size(self):
        return self.msize

    def get_param_size(self, p):
        return p

    def _fit(self, X, y=None):
        self._t = np.asarray(self.table, dtype=float)
        return self

    def _evaluate(self, cuts):
        _count(self.tag, len(cuts))
        return self._t[cuts[:, 0], cuts[:, 1]]


class TableChangeScore(BaseChangeScore):
    """score(s, k, e) = table[s][k][e]; one output column."""

    def __init__(self, table=None, msize=1):
        self.table = table
        self.msize = msize
        super().__init__()

    @property
    def min_size(self):
        return self.msize

    def _fit(self, X, y=None):
        self._t = np.asarray(self.table, dtype=float)
        return self

    def _evaluate(self, cuts):
        return self._t[cuts[:, 0], cuts[:, 1], cuts[:, 2]].reshape(-1, 1)


class FunctionChangeScore(BaseChangeScore):
    """score(s, k, e) = hash-like integer function of (s, k, e) and a key: ties, no table."""

    def __init__(self, key=0, modulus=5, msize=1, offset=0, ncols=1):
        self.key = key
        self.modulus = modulus
        self.msize = msize
        self.offset = offset  # scores are value - offset, hence possibly negative
        self.ncols = ncols    # number of output columns (a univariate-style score has one per variable)
        super().__init__()

    @property
    def min_size(self):
        return self.msize

    def _fit(self, X, y=None):
        return self

    @staticmethod
    def value(key, modulus, s, k, e):
        return ((s * 7 + k * 13 + e * 29 + key * 31 + (s * k + e) * (key % 7 + 1)) % modulus)

    def _evaluate(self, cuts):
        s, k, e = cuts[:, 0], cuts[:, 1], cuts[:, 2]
        cols = [(self.value(self.key + 17 * j, self.modulus, s, k, e) - self.offset).astype(float) for j in range(self.ncols)]
        return np.column_stack(cols)


class TableLocalAnomalyScore(BaseLocalAnomalyScore):
    """score(s, a, b, e) = table[s][a][b][e]; one output column."""

    def __init__(self, table=None, msize=1):
        self.table = table
        self.msize = msize
        super().__init__()

    @property
    def min_size(self):
        return self.msize

    def _fit(self, X, y=None):
        self._t = np.asarray(self.table, dtype=float)
        return self

    def _evaluate(self, cuts):
        return self._t[cuts[:, 0], cuts[:, 1], cuts[:, 2], cuts[:, 3]].reshape(-1, 1)


class FunctionLocalAnomalyScore(BaseLocalAnomalyScore):
    """score(s, a, b, e) = small integer function of the cut and a key (ties, no table)."""

    def __init__(self, key=0, modulus=5, msize=1, offset=0, ncols=1, int_output=False):
        self.key = key
        self.modulus = modulus
        self.msize = msize
        self.offset = offset  # scores are value - offset, hence possibly negative
        self.ncols = ncols
        self.int_output = int_output  # counts / ranks: the score array is integer-typed (a rank statistic built from boolean sums)
        super().__init__()

    @property
    def min_size(self):
        return self.msize

    def _fit(self, X, y=None):
        return self

    @staticmethod
    def value(key, modulus, s, a, b, e):
        return ((s * 7 + a * 13 + b * 17 + e * 29 + key * 31 + (s * a + b * e) * (key % 5 + 1)) % modulus)

    def _evaluate(self, cuts):
        s, a, b, e = cuts[:, 0], cuts[:, 1], cuts[:, 2], cuts[:, 3]
        cols = [(self.value(self.key + 17 * j, self.modulus, s, a, b, e) - self.offset).astype(np.int64 if self.int_output else float)
                for j in range(self.ncols)]
        return np.column_stack(cols)


class L1Cost(BaseCost):
    """Data-dependent user cost: `scale` times the sum of absolute deviations from the median
    (optimal parameter) or from a fixed location (fixed parameter). Univariate, min size 1.
    `scale` is an extra hyper-parameter besides `param`, as user-defined costs may have."""

    def __init__(self, param=None, scale=1.0):
        self.scale = scale
        super().__init__(param)

    def _fit(self, X, y=None):
        X = np.asarray(X, dtype=float)
        if X.ndim == 1:
            X = X.reshape(-1, 1)
        self._data = X
        if self.param is not None:
            loc = np.asarray(self.param, dtype=float).reshape(-1)
            if loc.size not in (1, X.shape[1]):
                raise ValueError("location must have length 1 or p")
            self._loc = loc
        return self

    def _evaluate_optim_param(self, starts, ends):
        out = np.zeros((len(starts), self._data.shape[1]))
        for i, (s, e) in enumerate(zip(starts, ends)):
            seg = self._data[s:e]
            out[i] = self.scale * np.abs(seg - np.median(seg, axis=0)).sum(axis=0)
        return out

    def _evaluate_fixed_param(self, starts, ends):
        out = np.zeros((len(starts), self._data.shape[1]))
        for i, (s, e) in enumerate(zip(starts, ends)):
            seg = self._data[s:e]
            out[i] = self.scale * np.abs(seg - self._loc).sum(axis=0)
        return out


class DirectLocalMeanScore(BaseLocalAnomalyScore):
    """A directly implemented user local anomaly score that overrides `_check_cuts` following the library's own
    pattern (as LocalAnomalyScore does): |mean(inner) - mean(surroundings)| * sqrt(len(inner)) per column."""

    def __init__(self, msize=1):
        self.msize = msize
        super().__init__()

    @property
    def min_size(self):
        return self.msize

    def _fit(self, X, y=None):
        Xa = np.asarray(X, dtype=float)
        self._rows = Xa.reshape(-1, 1) if Xa.ndim == 1 else Xa
        return self

    def _check_cuts(self, cuts):
        from skchange.utils.validation.cuts import check_cuts_array

        cuts = check_cuts_array(cuts, last_dim_size=self.expected_cut_entries)
        inner = np.diff(cuts[:, [1, 2]], axis=1)
        surrounding = np.diff(cuts[:, [0, 1]], axis=1) + np.diff(cuts[:, [2, 3]], axis=1)
        if not np.all(inner >= self.min_size) or not np.all(surrounding >= self.min_size):
            raise ValueError("inner and surrounding parts must be at least min_size long")
        return cuts

    @staticmethod
    def value(rows, s, a, b, e):
        inner = rows[a:b]
        sur = np.concatenate((rows[s:a], rows[b:e]))
        return np.abs(inner.mean(axis=0) - sur.mean(axis=0)) * np.sqrt(len(inner))

    def _evaluate(self, cuts):
        return np.array([self.value(self._rows, *c) for c in cuts]).reshape(len(cuts), self._rows.shape[1])


class WeightedCUSUM(CUSUM):
    """A user change score that *subclasses the built-in CUSUM* and overrides its evaluation: column j is
    multiplied by weights[j % len(weights)] (possibly 0 or negative)."""

    def __init__(self, weights=(1.0,)):
        self.weights = weights
        super().__init__()

    def _evaluate(self, cuts):
        out = super()._evaluate(cuts)
        w = np.asarray([self.weights[j % len(self.weights)] for j in range(out.shape[1])], dtype=float)
        return out * w


class MemoisingAbsCost(BaseCost):
    """A user cost that memoises its results per batch of intervals and hands out the cached array itself
    (sum of absolute values around the fixed / optimal location 0 resp. the mean). A caller that modifies
    the returned array in place corrupts the memo."""

    def __init__(self, param=None):
        super().__init__(param)

    def _fit(self, X, y=None):
        Xa = np.asarray(X, dtype=float)
        self._rows = Xa.reshape(-1, 1) if Xa.ndim == 1 else Xa
        self._memo = {}
        return self

    def _compute(self, starts, ends, fixed):
        key = (fixed, np.asarray(starts).tobytes(), np.asarray(ends).tobytes())
        if key not in self._memo:
            out = np.zeros((len(starts), self._rows.shape[1]))
            for i, (s, e) in enumerate(zip(starts, ends)):
                seg = self._rows[s:e]
                loc = float(self.param) if fixed else seg.mean(axis=0)
                out[i] = np.abs(seg - loc).sum(axis=0)
            self._memo[key] = out
        return self._memo[key]

    def _evaluate_optim_param(self, starts, ends):
        return self._compute(starts, ends, False)

    def _evaluate_fixed_param(self, starts, ends):
        return self._compute(starts, ends, True)


class TrendPenalisedL2Cost(L2Cost):
    """A user cost that *subclasses the built-in L2Cost* and overrides its evaluation: the L2 cost plus
    `weight` times the squared difference between the last and the first row of the interval."""

    def __init__(self, param=None, weight=0.5):
        self.weight = weight
        super().__init__(param)

    def _fit(self, X, y=None):
        super()._fit(X, y)
        Xa = np.asarray(X, dtype=float)
        self._rows = Xa.reshape(-1, 1) if Xa.ndim == 1 else Xa
        return self

    def _extra(self, starts, ends):
        return self.weight * (self._rows[np.asarray(ends) - 1] - self._rows[np.asarray(starts)]) ** 2

    def _evaluate_optim_param(self, starts, ends):
        return super()._evaluate_optim_param(starts, ends) + self._extra(starts, ends)

    def _evaluate_fixed_param(self, starts, ends):
        return super()._evaluate_fixed_param(starts, ends) + self._extra(starts, ends)


class FixedChangeDetector(ChangeDetector):
    """A user-defined change detector that returns the given changepoints (those that
    fit inside the data)."""

    _tags = {
        "capability:missing_values": False,
        "capability:multivariate": True,
        "fit_is_empty": False,
    }

    def __init__(self, changepoints=None):
        self.changepoints = changepoints
        super().__init__()

    def _fit(self, X, y=None):
        self.n_fit_ = len(X)
        return self

    def _predict(self, X):
        n = len(X)
        cpts = sorted({int(c) for c in (self.changepoints or []) if 0 < int(c) < n})
        return ChangeDetector._format_sparse_output(cpts)


class SupervisedChangeDetector(ChangeDetector):
    """A user-defined *supervised* change detector: fitted with an annotation `y` (sparse format, column "ilocs") it reports the
    annotated changepoints (as a detector tuned on labelled data would be steered by them); fitted without `y` it falls back
    to the changepoints given at construction."""

    _tags = {
        "capability:missing_values": False,
        "capability:multivariate": True,
        "fit_is_empty": False,
    }

    def __init__(self, changepoints=None):
        self.changepoints = changepoints
        super().__init__()

    def _fit(self, X, y=None):
        self.n_fit_ = len(X)
        self.cpts_ = [int(c) for c in (y["ilocs"].tolist() if y is not None else (self.changepoints or []))]
        return self

    def _predict(self, X):
        n = len(X)
        return ChangeDetector._format_sparse_output(sorted({c for c in self.cpts_ if 0 < c < n}))


class IndexLabelChangeDetector(ChangeDetector):
    """A user-defined change detector that knows its changepoints as *index labels*: at fit time it reads the labels
    of the given positions from the training data's index (time stamps, cycle counters, ...), at predict time it looks
    those labels up in the index of the data it is given. On the data it was fitted on this returns the given
    positions - provided the detector is handed the data with the index the caller supplied."""

    _tags = {
        "capability:missing_values": False,
        "capability:multivariate": True,
        "fit_is_empty": False,
    }

    def __init__(self, changepoints=None):
        self.changepoints = changepoints
        super().__init__()

    def _fit(self, X, y=None):
        n = len(X)
        self.n_fit_ = n
        pos = sorted({int(c) for c in (self.changepoints or []) if 0 < int(c) < n})
        self.labels_ = self._index_of(X)[pos]
        return self

    @staticmethod
    def _index_of(X):
        import pandas as pd

        return X.index if hasattr(X, "index") else pd.RangeIndex(len(X))  # arrays carry positions only

    def _predict(self, X):
        pos = [int(i) for i in self._index_of(X).searchsorted(self.labels_)] if len(self.labels_) else []
        n = len(X)
        return ChangeDetector._format_sparse_output(sorted({c for c in pos if 0 < c < n}))


class SecondMomentChangeScore(BaseChangeScore):
    """A user-defined change score that depends on the *level* of the data, not only on differences: per column,
    sqrt(n_left n_right / (n_left + n_right)) |mean(x^2 after) - mean(x^2 before)| (a scale / rate change score for
    positive data such as counts). Shifting the data by a constant changes it."""

    def __init__(self, power=2.0):
        self.power = power
        super().__init__()

    @property
    def min_size(self):
        return 1

    def _fit(self, X, y=None):
        Xa = np.asarray(X, dtype=float)
        Xa = Xa.reshape(-1, 1) if Xa.ndim == 1 else Xa
        self._sums = np.concatenate((np.zeros((1, Xa.shape[1])), np.cumsum(np.abs(Xa) ** self.power, axis=0)))
        return self

    def _evaluate(self, cuts):
        s, k, e = cuts[:, 0], cuts[:, 1], cuts[:, 2]
        nl, nr = (k - s).astype(float)[:, None], (e - k).astype(float)[:, None]
        left = (self._sums[k] - self._sums[s]) / nl
        right = (self._sums[e] - self._sums[k]) / nr
        return np.sqrt(nl * nr / (nl + nr)) * np.abs(right - left)


class SecondMomentLocalScore(BaseLocalAnomalyScore):
    """Level-dependent user-defined local anomaly score: sqrt(inner length) |mean(x^2 inner) - mean(x^2 surroundings)|."""

    def __init__(self, power=2.0):
        self.power = power
        super().__init__()

    @property
    def min_size(self):
        return 1

    def _fit(self, X, y=None):
        Xa = np.asarray(X, dtype=float)
        Xa = Xa.reshape(-1, 1) if Xa.ndim == 1 else Xa
        self._sums = np.concatenate((np.zeros((1, Xa.shape[1])), np.cumsum(np.abs(Xa) ** self.power, axis=0)))
        return self

    def _evaluate(self, cuts):
        s, a, b, e = cuts[:, 0], cuts[:, 1], cuts[:, 2], cuts[:, 3]
        ni = (b - a).astype(float)[:, None]
        ns = ((a - s) + (e - b)).astype(float)[:, None]
        inner = (self._sums[b] - self._sums[a]) / ni
        sur = ((self._sums[a] - self._sums[s]) + (self._sums[e] - self._sums[b])) / ns
        return np.sqrt(ni) * np.abs(inner - sur)


class ProfileChangeScore(BaseChangeScore):
    """score(s, k, e) = profile[k]: a user-defined change score whose value is a given function of the split position
    (one column). Lets a test prescribe the whole score curve a detector sees."""

    def __init__(self, profile=None):
        self.profile = profile
        super().__init__()

    @property
    def min_size(self):
        return 1

    def _fit(self, X, y=None):
        self._p = np.asarray(self.profile, dtype=float)
        return self

    def _evaluate(self, cuts):
        return self._p[cuts[:, 1]].reshape(-1, 1)


class WelchChangeScore(BaseChangeScore):
    """A user-defined standardised mean-change score, per column |mean_after - mean_before| / sqrt(var_before / n_before +
    var_after / n_after). It is undefined (NaN) for a column that does not vary within the two windows - a stuck sensor."""

    def __init__(self, floor=0.0):
        self.floor = floor
        super().__init__()

    @property
    def min_size(self):
        return 2

    def _fit(self, X, y=None):
        Xa = np.asarray(X, dtype=float)
        self._rows = Xa.reshape(-1, 1) if Xa.ndim == 1 else Xa
        return self

    def _evaluate(self, cuts):
        out = np.empty((len(cuts), self._rows.shape[1]))
        with np.errstate(all="ignore"):
            for i, (s, k, e) in enumerate(cuts):
                a, b = self._rows[s:k], self._rows[k:e]
                out[i] = np.abs(b.mean(axis=0) - a.mean(axis=0)) / np.sqrt(a.var(axis=0) / len(a) + b.var(axis=0) / len(b) + self.floor)
        return out


class ModalL1Cost(L1Cost):
    """The same cost as L1Cost, written the way the built-in GaussianCovCost is: `_fit` prepares *different* things for the
    two parameter modes - prefix sums of |x - location| for a fixed location, the raw rows for the optimal (median) mode."""

    def _fit(self, X, y=None):
        X = np.asarray(X, dtype=float)
        if X.ndim == 1:
            X = X.reshape(-1, 1)
        for attr in ("_rows_for_median", "_abs_sums"):
            if hasattr(self, attr):
                delattr(self, attr)
        if self.param is None:
            self._rows_for_median = X
        else:
            loc = np.asarray(self.param, dtype=float).reshape(-1)
            if loc.size not in (1, X.shape[1]):
                raise ValueError("location must have length 1 or p")
            self._abs_sums = np.concatenate((np.zeros((1, X.shape[1])), np.cumsum(np.abs(X - loc), axis=0)))
        return self

    def _evaluate_optim_param(self, starts, ends):
        rows = self._rows_for_median
        return np.array([self.scale * np.abs(rows[s:e] - np.median(rows[s:e], axis=0)).sum(axis=0) for s, e in zip(starts, ends)])

    def _evaluate_fixed_param(self, starts, ends):
        return self.scale * (self._abs_sums[ends] - self._abs_sums[starts])


class SeriesScaledLocalScore(BaseLocalAnomalyScore):
    """A user-defined local anomaly score standardised by a *series-wide* robust noise scale (the MAD of the first
    differences of the data it was fitted on): n_inner (mean_inner - mean_surroundings)^2 / sigma^2 per column."""

    def __init__(self, c=1.4826):
        self.c = c
        super().__init__()

    @property
    def min_size(self):
        return 1

    def _fit(self, X, y=None):
        Xa = np.asarray(X, dtype=float)
        Xa = Xa.reshape(-1, 1) if Xa.ndim == 1 else Xa
        d = np.diff(Xa, axis=0) if len(Xa) > 1 else np.ones((1, Xa.shape[1]))
        mad = self.c * np.median(np.abs(d - np.median(d, axis=0)), axis=0) / np.sqrt(2.0)
        self._sigma2 = np.where(mad > 0, mad, 1.0) ** 2
        self._sums = np.concatenate((np.zeros((1, Xa.shape[1])), np.cumsum(Xa, axis=0)))
        return self

    def _evaluate(self, cuts):
        s, a, b, e = cuts[:, 0], cuts[:, 1], cuts[:, 2], cuts[:, 3]
        ni = (b - a).astype(float)[:, None]
        ns = ((a - s) + (e - b)).astype(float)[:, None]
        inner = (self._sums[b] - self._sums[a]) / ni
        sur = ((self._sums[a] - self._sums[s]) + (self._sums[e] - self._sums[b])) / ns
        return ni * (inner - sur) ** 2 / self._sigma2

"""Oracle of the cuts fuzz target (no atheris import): materialises a decoded case and applies the C13 predicate."""
import numpy as np

from checks import c13
from framework.core import Violation

_FITTED = {}


def materialise(case):
    """Builds the actual argument; returns (arg, python_rows or None when not an integer array)."""
    import pandas as pd

    dt = np.dtype(case["dtype"]) if case["dtype"] != "object" else np.dtype(object)
    rows = []
    for row in case["rows"]:
        out = []
        for v in row:
            if isinstance(v, str):
                if dt.kind in "iu":
                    info = np.iinfo(dt)
                    v = {"max": info.max, "min": info.min, "max-1": info.max - 1, "half": info.max // 2}[v]
                else:
                    v = {"max": 2 ** 40, "min": -2 ** 40, "max-1": 2 ** 40 - 1, "half": 2 ** 20}[v]
            out.append(v)
        rows.append(out)
    if dt.kind in "iu":
        info = np.iinfo(dt)
        rows = [[min(max(int(v), info.min), info.max) for v in r] for r in rows]  # representable values only
    widths = {len(r) for r in rows}
    ragged = len(widths) > 1
    if dt.kind == "f" and case["frac"]:
        rows = [[v + 0.5 for v in r] for r in rows]
    if ragged:
        return rows, None  # nested list of unequal rows: never an integer array
    w = widths.pop() if widths else c13.width(case["scorer"])
    if dt.kind == "b":
        arr = np.ones((len(rows), w), dtype=bool)
    elif dt.kind == "O":
        arr = np.empty((len(rows), w), dtype=object)
        for i, r in enumerate(rows):
            for j, v in enumerate(r):
                arr[i, j] = v
    else:
        arr = np.asarray(rows, dtype=dt).reshape(len(rows), w)
    if case["three_d"]:
        return arr.reshape((1,) + arr.shape), None
    cont = case["container"]
    if cont == "ndarray":
        arg = arr
    elif cont == "list":
        arg = arr.tolist()
    elif cont == "tuple_rows":
        arg = tuple(tuple(r) for r in arr.tolist())
    elif cont == "DataFrame":
        arg = pd.DataFrame(arr)
    elif cont == "Series":
        arg = pd.Series(arr[0]) if len(arr) else pd.Series(np.zeros(0, dtype=arr.dtype))
        arr = arr[:1] if len(arr) else arr.reshape(-1)[None, :][:0]
    else:  # flat sequence of all entries
        arg = arr.reshape(-1).tolist() if dt.kind != "O" else list(arr.reshape(-1))
        arr = np.asarray(arg, dtype=arr.dtype).reshape(1, -1) if len(arg) else np.zeros((1, 0))
    as_np = np.asarray(arg) if not isinstance(arg, (pd.DataFrame, pd.Series)) else np.asarray(arg)
    if as_np.dtype.kind not in "iu":
        return arg, None
    if as_np.ndim == 1:
        as_np = as_np.reshape(1, -1)
    if as_np.ndim != 2:
        return arg, None
    return arg, [[int(v) for v in r] for r in as_np.tolist()]


def check_case(case):
    name, n, p = case["scorer"], case["n"], case["p"]
    key = (name, n, p)
    if key not in _FITTED:
        _FITTED[key] = (c13.build_scorer(name).fit(c13.fixed_data(n, p)), c13.fixed_data(n, p))
    scorer, X = _FITTED[key]
    k = c13.width(name)
    arg, int_rows = materialise(case)
    valid = int_rows is not None and all(len(r) == k for r in int_rows) and all(c13.is_valid(name, p, n, r) for r in int_rows)
    if int_rows is not None and len(int_rows) and len(int_rows[0]) != k:
        valid = False
    outcome, out, err = c13.evaluate_outcome(scorer, arg)
    classes = [f"dtype={case['dtype']}", f"container={case['container']}", f"outcome={outcome}"]
    if not valid:
        if outcome != "ValueError":
            raise Violation(f"invalid cuts argument gave {outcome} instead of ValueError", scorer=name, n=n, p=p,
                            dtype=case["dtype"], container=case["container"], rows=case["rows"],
                            value=np.asarray(out).tolist() if outcome == "value" else None)
        return {"nontrivial": int_rows is not None and bool(int_rows), "classes": classes}
    if outcome != "value":
        want_any_none = any(c13.expected_value(name, X, r) is None for r in int_rows)
        if outcome == "RuntimeError" and want_any_none:
            return {"nontrivial": False, "classes": classes}
        raise Violation(f"valid cuts argument gave {outcome}: {err[:120]}", scorer=name, n=n, p=p, dtype=case["dtype"],
                        container=case["container"], rows=int_rows)
    out = np.asarray(out)
    if out.ndim != 2 or out.shape[0] != len(int_rows):
        raise Violation("output does not have one row per cut", got=list(out.shape), rows=int_rows)
    for i, r in enumerate(int_rows):
        want = c13.expected_value(name, X, r)
        if want is not None and not np.all(np.abs(out[i] - want) <= 1e-6 * (1 + np.abs(want))):
            raise Violation("cut is not scored according to the definition", scorer=name, cut=r, dtype=case["dtype"],
                            container=case["container"], got=out[i].tolist(), expected=np.asarray(want).tolist())
    return {"nontrivial": bool(int_rows), "classes": classes + ["valid_scored"]}



#!/venv/bin/python
"""Coverage-guided fuzz target (atheris / libFuzzer) for C13: the `cuts` argument of evaluate.

    fuzz_cuts.py <stats.json> <found_dir> [libFuzzer flags, e.g. -runs=20000 -seed=1]

The bytes are decoded by a structured layer into (scorer, n, p, container, dtype, shape, values incl.
dtype extremes); the semantic oracle of C13 (validity predicate + definitional values, checks/c13.py)
is applied inside the target, so a finding is a property violation, not merely a crash. Coverage is
collected for the skchange package only. Statistics are written to <stats.json> every 500 executions
(atexit handlers do not run under libFuzzer); a violating case is written as a replay file into
<found_dir> and the process exits with status 77.
"""
import json
import os
import sys
import warnings

ROOT = os.path.dirname(os.path.dirname(os.path.abspath(__file__)))
sys.path.insert(0, ROOT)
sys.path.insert(0, os.path.join(ROOT, ".deps"))
repo = os.environ.get("VERIF_REPO", "/repo")
if os.path.realpath(repo) != "/repo":
    sys.path.insert(0, repo)
warnings.filterwarnings("ignore")

import atheris  # noqa: E402

with atheris.instrument_imports(include=["skchange"]):
    import skchange  # noqa: F401,E402
    import skchange.anomaly_scores  # noqa: F401,E402
    import skchange.change_scores  # noqa: F401,E402
    import skchange.costs  # noqa: F401,E402

import numpy as np  # noqa: E402

from checks import c13  # noqa: E402
from framework.core import Violation, canonical, case_hash  # noqa: E402

STATS_PATH, FOUND_DIR = sys.argv[1], sys.argv[2]
sys.argv = [sys.argv[0]] + sys.argv[3:]
STATS = {"evaluations": 0, "nontrivial": {}, "classes": {}, "samples": []}
SCORERS = sorted(c13.SCORERS)
DTYPES = ["int64", "int32", "int16", "int8", "uint64", "uint32", "uint16", "uint8", "float64", "float32", "bool", "object"]
CONTAINERS = ["ndarray", "list", "tuple_rows", "DataFrame", "Series", "flat"]


def decode(data):
    fdp = atheris.FuzzedDataProvider(data)
    name = SCORERS[fdp.ConsumeIntInRange(0, len(SCORERS) - 1)]
    # mostly tiny series; one time in four a series whose length is next to the int8 range (positions 125..131: dtype extremes of
    # the narrow types are then ordinary positions)
    n = fdp.ConsumeIntInRange(5, 9) if fdp.ConsumeIntInRange(0, 3) else fdp.ConsumeIntInRange(125, 131)
    p = fdp.ConsumeIntInRange(1, 2)
    k = c13.width(name)
    dtype = DTYPES[fdp.ConsumeIntInRange(0, len(DTYPES) - 1)]
    container = CONTAINERS[fdp.ConsumeIntInRange(0, len(CONTAINERS) - 1)]
    m = fdp.ConsumeIntInRange(0, 3)
    w = k if fdp.ConsumeIntInRange(0, 7) else fdp.ConsumeIntInRange(1, 5)
    rows = []
    for _ in range(m):
        row = []
        for _ in range(w):
            mode = fdp.ConsumeIntInRange(0, 9)
            if mode <= 6:
                row.append(fdp.ConsumeIntInRange(-2, n + 2))
            elif mode == 7:
                row.append(["max", "min", "max-1", "half"][fdp.ConsumeIntInRange(0, 3)])  # dtype extremes
            else:
                row.append(fdp.ConsumeIntInRange(-130, 130))
        if fdp.ConsumeBool():
            row = sorted(row, key=lambda v: (isinstance(v, str), v if not isinstance(v, str) else 0))
        rows.append(row)
    return {"scorer": name, "n": n, "p": p, "dtype": dtype, "container": container, "rows": rows,
            "three_d": fdp.ConsumeIntInRange(0, 15) == 0, "frac": fdp.ConsumeIntInRange(0, 5) == 0}


from fuzz.cuts_oracle import check_case  # noqa: E402


def flush():
    tmp = STATS_PATH + ".tmp"
    with open(tmp, "w") as f:
        json.dump({"evaluations": STATS["evaluations"], "nontrivial": list(STATS["nontrivial"]),
                   "classes": STATS["classes"], "samples": STATS["samples"]}, f)
    os.replace(tmp, STATS_PATH)


def TestOneInput(data):
    case = decode(data)
    try:
        info = check_case(case)
    except Violation as v:
        os.makedirs(FOUND_DIR, exist_ok=True)
        path = os.path.join(FOUND_DIR, f"C13-fuzz_cuts-{case_hash(case)}.json")
        with open(path, "w") as f:
            json.dump({"property": "C13", "facet": "fuzz_cuts", "message": v.message,
                       "details": json.loads(canonical(v.details)), "case": case}, f, indent=1)
        STATS["violation"] = path
        flush()
        with open(STATS_PATH, "r+") as f:
            d = json.load(f)
            d["violation"] = path
            f.seek(0)
            json.dump(d, f)
            f.truncate()
        os._exit(77)
    STATS["evaluations"] += 1
    for c in info.get("classes", ()):
        STATS["classes"][c] = STATS["classes"].get(c, 0) + 1
    if info.get("nontrivial"):
        h = case_hash(case)
        if h not in STATS["nontrivial"]:
            STATS["nontrivial"][h] = 1
            if len(STATS["samples"]) < 3:
                STATS["samples"].append(case)
    if STATS["evaluations"] % 500 == 0:
        flush()


if __name__ == "__main__":
    atheris.Setup(sys.argv, TestOneInput)
    try:
        atheris.Fuzz()
    finally:
        flush()

import numpy as np, pandas as pd, warnings
warnings.filterwarnings("ignore")
from skchange.costs import L2Cost, GaussianVarCost, GaussianCovCost
from skchange.change_scores import CUSUM, ChangeScore
from skchange.anomaly_scores import L2Saving, Saving, LocalAnomalyScore
from skchange.change_detectors import PELT, MovingWindow, SeededBinarySegmentation
from skchange.anomaly_detectors import CAPA, MVCAPA, CircularBinarySegmentation, StatThresholdAnomaliser
def tryit(name, f):
    try:
        r = f()
        print("OK  ", name, "->", repr(r)[:200].replace("\n"," | "))
    except Exception as e:
        print("EXC ", name, "->", type(e).__name__, str(e)[:160])
rng=np.random.default_rng(3)
x = np.r_[rng.normal(size=20), rng.normal(size=10)+8, rng.normal(size=20)].round(0)
n=len(x)
reps = {
 "nd1": x, "nd2": x.reshape(-1,1), "ser": pd.Series(x), "df": pd.DataFrame({"a":x}),
 "int": pd.Series(x.astype(np.int64)), "ndint": x.astype(np.int64),
 "off": pd.Series(x, index=pd.RangeIndex(100,100+n)), "step": pd.Series(x, index=pd.RangeIndex(0,2*n,2)),
 "dt": pd.Series(x, index=pd.date_range("2020-01-01", periods=n, freq="D")),
 "per": pd.Series(x, index=pd.period_range("2020-01", periods=n, freq="M")),
 "dfdt": pd.DataFrame({"b":x}, index=pd.date_range("2020-01-01", periods=n, freq="h")),
}
dets = {
 "PELT": lambda: PELT(min_segment_length=2),
 "MW": lambda: MovingWindow(bandwidth=4),
 "MWtune": lambda: MovingWindow(bandwidth=4, threshold_scale=None, level=0.1),
 "SBS": lambda: SeededBinarySegmentation(min_segment_length=2, max_interval_length=20),
 "CAPA": lambda: CAPA(),
 "MVCAPA": lambda: MVCAPA(ignore_point_anomalies=True),
 "CBS": lambda: CircularBinarySegmentation(min_segment_length=2, max_interval_length=20),
 "STA": lambda: StatThresholdAnomaliser(PELT(min_segment_length=2), stat_lower=-2, stat_upper=2),
}
for dn, mk in dets.items():
    for rn, X in reps.items():
        for meth in ["predict","transform","transform_scores"]:
            if meth=="transform_scores" and dn in ("SBS","CBS","STA"): continue
            try:
                d = mk().fit(X); r = getattr(d,meth)(X)
                if meth=="predict": s = str(r.iloc[:,0].tolist())
                else: 
                    vals = np.asarray(r).ravel(); s = f"sum={vals.sum():.3f} idx0={r.index[0]!r}"[:70]
                print(f"{dn:7s} {rn:5s} {meth:16s} {s[:90]}")
            except Exception as e:
                print(f"{dn:7s} {rn:5s} {meth:16s} EXC {type(e).__name__}: {str(e)[:80]}")

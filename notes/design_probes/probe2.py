import numpy as np, pandas as pd, warnings, signal
warnings.filterwarnings("ignore")
from skchange.costs import L2Cost, GaussianVarCost, GaussianCovCost
from skchange.change_scores import CUSUM, ChangeScore
from skchange.anomaly_scores import L2Saving, Saving, LocalAnomalyScore
from skchange.change_detectors import PELT, MovingWindow, SeededBinarySegmentation
from skchange.anomaly_detectors import CAPA, MVCAPA, CircularBinarySegmentation, StatThresholdAnomaliser
from skchange.anomaly_detectors.mvcapa import *
class TO(Exception): pass
def h(*a): raise TO()
signal.signal(signal.SIGALRM, h)
def tryit(name, f, t=10):
    signal.alarm(t)
    try:
        r = f(); signal.alarm(0)
        print("OK  ", name, "->", repr(r)[:400].replace("\n"," | "))
    except TO:
        print("HANG", name)
    except Exception as e:
        signal.alarm(0)
        print("EXC ", name, "->", type(e).__name__, str(e)[:200])
# (a) negative tuned threshold -> infinite loop?
xc = np.full(30, 0.1)
tryit("SBS tuned const L2", lambda: SeededBinarySegmentation(L2Cost(), threshold_scale=None, level=0.5).fit(xc).predict(xc))
tryit("CBS tuned const L2", lambda: CircularBinarySegmentation(L2Cost(), threshold_scale=None, level=0.5, min_segment_length=2).fit(xc).predict(xc))
tryit("MW tuned const L2", lambda: MovingWindow(L2Cost(), bandwidth=3, threshold_scale=None, level=0.5).fit(xc).predict(xc))
def f():
    d=SeededBinarySegmentation(L2Cost(), threshold_scale=None, level=0.5).fit(xc); return d.threshold_
tryit("SBS tuned thr const", f)
rng=np.random.default_rng(1)
for c in [0.1, 0.3, 1/3, 0.7, 1e-3, 123.456]:
    xc = np.full(40, c)
    d = SeededBinarySegmentation(L2Cost(), threshold_scale=None, level=0.3, min_segment_length=2)
    tryit(f"SBS tuned const {c}", lambda: (d.fit(xc).threshold_, d.predict(xc).values.ravel()))
    d = MovingWindow(L2Cost(), bandwidth=3, threshold_scale=None, level=0.3)
    tryit(f"MW tuned const {c}", lambda: (d.fit(xc).threshold_, d.predict(xc).values.ravel()))
# (b) intermediate penalty monotone
worst=0
for n in [2,5,10,100,1000,10**5]:
    for p in range(2,12):
        for k in [1,2,3,5]:
            a,b = intermediate_mvcapa_penalty(n,p,k,1.0)
            worst=min(worst,b.min())
            if b.min()<0: print("neg beta intermediate", n,p,k,b)
print("worst intermediate beta", worst)
for n in [2,5,100]:
    for p in [1,2,3,6]:
        for k in [1,2]:
            for nm,fn in [("dense",dense_mvcapa_penalty),("sparse",sparse_mvcapa_penalty),("combined",combined_mvcapa_penalty)]:
                a,b=fn(n,p,k,1.0); a2,b2=fn(n,p,k,2.5)
                if not (np.isclose(a2,2.5*a) and np.allclose(b2,2.5*b)): print("not proportional", nm,n,p,k, a,a2, b, b2)
                if a<0 or b.min()<0: print("negative", nm, n,p,k,a,b)

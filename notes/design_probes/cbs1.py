import numpy as np, warnings
warnings.filterwarnings("ignore")
from skchange.anomaly_detectors import CircularBinarySegmentation as C
from skchange.costs import L2Cost
rng=np.random.default_rng(0)
for n in [2,3,4,7]:
    for ts in [0, 1, None]:
        x=rng.normal(size=n); x[n//2]+=20
        d=C(L2Cost(), ts, 0.3, 1, 2 if n<3 else 6, 1.5)
        try:
            d.fit(x); y=d.predict(x); print(n,ts,d.threshold_, y["ilocs"].tolist(), d.scores.values.tolist()[:3])
        except Exception as e: print(n,ts,"EXC",type(e).__name__,e)

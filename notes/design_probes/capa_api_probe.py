import numpy as np, pandas as pd, warnings, sys
warnings.filterwarnings("ignore")
from skchange.anomaly_scores import L2Saving, Saving
from skchange.costs import L2Cost, GaussianVarCost
from skchange.anomaly_detectors import CAPA, MVCAPA
from skchange.anomaly_detectors.mvcapa import capa_penalty_factory

def pen_saving(sv, alpha, betas):
    sv = np.sort(sv)[::-1]
    if len(betas)==1 and len(sv)>1: betas=np.repeat(betas,len(sv))
    cs = np.cumsum(sv - betas) - alpha
    return cs.max()
def oracle(cs, ps, n, ca, cb, pa, pb, msl, maxl):
    F = np.zeros(n+1)
    for t in range(1, n+1):
        best = F[t-1]
        best = max(best, F[t-1] + pen_saving(ps(t-1,t), pa, pb))
        for s in range(max(0,t-maxl), t-msl+1):
            best = max(best, F[s] + pen_saving(cs(s,t), ca, cb))
        F[t] = best
    return F
rng = np.random.default_rng(int(sys.argv[1]))
bad=0; tot=0; nontriv=0
for it in range(150):
    n = int(rng.integers(4, 40)); p=int(rng.integers(1,4))
    X = rng.normal(size=(n,p))
    for _ in range(rng.integers(0,3)):
        a = int(rng.integers(0,n-1)); L=int(rng.integers(1,8)); cols = rng.random(p)<0.6
        X[a:a+L, cols] += rng.normal()*4
    for _ in range(rng.integers(0,3)):
        X[rng.integers(0,n), rng.integers(0,p)] += rng.choice([-1,1])*rng.uniform(4,12)
    msl=int(rng.integers(2,5)); maxl=int(rng.integers(msl, 30))
    if n<msl: continue
    cscale=float(rng.choice([0,0.3,1,2])); pscale=float(rng.choice([0,0.3,1,2]))
    which = rng.integers(0,2)
    sav_kind = rng.integers(0,3)
    def mk():
        if sav_kind==0: return L2Saving(), L2Saving()
        if sav_kind==1: return L2Cost(param=0.0), L2Cost(param=0.0)
        return GaussianVarCost(param=(0.0,1.0)), L2Saving()
    if sav_kind==2 and msl<2: continue
    csav, psav = mk()
    if which==0:
        d = CAPA(csav, psav, cscale, pscale, msl, maxl)
        d.fit(X); y = d.predict(X); sc = d.scores.values
        ca, pa = d.collective_penalty_, d.point_penalty_; cb=np.zeros(1); pb=np.zeros(1)
    else:
        cpen = str(rng.choice(["dense","sparse","combined"] + (["intermediate"] if p>=2 else [])))
        ppen = str(rng.choice(["dense","sparse"]))
        d = MVCAPA(csav, psav, cpen, cscale, ppen, pscale, msl, maxl)
        d.fit(X); y = d.predict(X); sc = d.scores.values
        ca, cb = capa_penalty_factory(cpen)(n,p,d._collective_saving.get_param_size(1), scale=cscale)
        pa, pb = capa_penalty_factory(ppen)(n,p,d._point_saving.get_param_size(1), scale=pscale)
    c1, p1 = mk()
    from skchange.anomaly_scores import to_saving
    c1 = to_saving(c1).fit(X); p1 = to_saving(p1).fit(X)
    cs = lambda s,e: c1.evaluate(np.array([[s,e]]))[0]
    ps = lambda s,e: p1.evaluate(np.array([[s,e]]))[0]
    F = oracle(cs, ps, n, ca, cb, pa, pb, msl, maxl)
    tot+=1
    iv = y["ilocs"].array
    total = 0.0
    for l,r in zip(iv.left, iv.right):
        total += pen_saving(ps(l,r), pa, pb) if r-l==1 else pen_saving(cs(l,r), ca, cb)
    tol = 1e-8*(1+abs(F[-1]))
    ok = np.allclose(sc, F[1:], rtol=1e-9, atol=1e-8) and abs(total-sc[-1])<tol and np.all(np.diff(sc)>=-1e-9) and sc.min()>=0
    if len(iv)>0: nontriv+=1
    if not ok:
        bad+=1
        if bad<5: print("MISMATCH", which, sav_kind, n,p,msl,maxl,cscale,pscale, sc[-1], F[-1], total, list(zip(iv.left,iv.right)))
print("tot",tot,"bad",bad,"nontrivial",nontriv)

import numpy as np, itertools, warnings, collections
warnings.filterwarnings("ignore")
from skchange.costs import L2Cost, GaussianVarCost, GaussianCovCost
from skchange.change_scores import CUSUM, ChangeScore
from skchange.anomaly_scores import L2Saving, Saving, LocalAnomalyScore
rng=np.random.default_rng(0)
def scorers(p):
    return {
     "L2": (L2Cost(),2,1), "L2f": (L2Cost(0.5),2,1), "GV":(GaussianVarCost(),2,2), "GVf":(GaussianVarCost((0.,1.)),2,2),
     "GC":(GaussianCovCost(),2,p+1), "GCf":(GaussianCovCost((0.,1.)),2,p+1),
     "CUSUM":(CUSUM(),3,1), "CS_L2":(ChangeScore(L2Cost()),3,1), "CS_GV":(ChangeScore(GaussianVarCost()),3,2), "CS_GC":(ChangeScore(GaussianCovCost()),3,p+1),
     "L2Sav":(L2Saving(),2,1), "Sav_L2":(Saving(L2Cost(0.)),2,1), "Sav_GV":(Saving(GaussianVarCost((0.,1.))),2,2), "Sav_GC":(Saving(GaussianCovCost((0.,1.))),2,p+1),
     "LA_L2":(LocalAnomalyScore(L2Cost()),4,1), "LA_GV":(LocalAnomalyScore(GaussianVarCost()),4,2), "LA_GC":(LocalAnomalyScore(GaussianCovCost()),4,p+1),
    }
def valid(c, k, ms, n):
    if min(c)<0 or max(c)>n: return False
    d=np.diff(c)
    if k in (2,3): return bool(np.all(d>=ms))
    return bool(np.all(d>=1) and d[1]>=ms and d[0]+d[2]>=ms)
res=collections.Counter()
for n,p in [(4,1),(5,2),(6,1)]:
    X=rng.normal(size=(n,p))
    for name,(sc,k,ms) in scorers(p).items():
        sc.fit(X)
        for c in itertools.product(range(-2,n+3), repeat=k):
            v=valid(c,k,ms,n)
            try:
                out=sc.evaluate(np.array([c])); acc=True; err=None
            except ValueError: acc=False; err="VE"
            except Exception as e: acc=False; err=type(e).__name__
            if v and not acc: res[(name,"valid-rejected",err)]+=1
            elif not v and acc: res[(name,"invalid-accepted")]+=1
            elif not v and err!="VE": res[(name,"invalid-wrong-exc",err)]+=1
            else: res["agree"]+=1
for k,v in sorted(res.items(), key=str): print(k,v)

import numpy as np, warnings, sys
warnings.filterwarnings("ignore")
from skchange.costs import L2Cost, GaussianVarCost, GaussianCovCost
from skchange.change_detectors import PELT
rng=np.random.default_rng(int(sys.argv[1]))
bad=0;tot=0;pre=0;rt=0
for it in range(400):
    p=int(rng.integers(1,3)); kind=rng.integers(0,3)
    mk,ms=[(L2Cost,1),(GaussianVarCost,2),(GaussianCovCost,p+1)][kind]
    msl=int(rng.integers(ms,ms+3)); n=int(rng.integers(2*msl,36))
    fam=rng.integers(0,3)
    if fam==0: X=np.round(rng.normal(size=(n,p))*1.5)
    elif fam==1: X=np.full((n,p),rng.choice([0.0,0.1,123.456])); X[int(rng.integers(0,n)):]+=rng.choice([0,1,0.5])
    else: X=rng.normal(size=(n,p)); X[int(rng.integers(0,n)):]+=3
    sc=float(rng.choice([0,0.05,0.3,1]))
    d=PELT(mk(),sc,msl)
    try: d.fit(X); y=d.predict(X)["ilocs"].tolist()
    except RuntimeError: rt+=1; continue
    pen=d.penalty_; c=mk().fit(X)
    C=np.full((n+1,n+1),np.nan)
    try:
        for s in range(n):
            for e in range(s+ms,n+1): C[s,e]=c.evaluate(np.array([[s,e]])).sum()
    except RuntimeError: rt+=1; continue
    tolc=1e-9*(1+np.nanmax(np.abs(C)))
    ok_pre=True
    for s in range(n):
        for e in range(s+2*msl,n+1):
            for k in range(s+msl,e-msl+1):
                if C[s,e] < C[s,k]+C[k,e]-tolc: ok_pre=False
    F=[None]*(n+1); F[0]=-pen
    for t in range(1,n+1):
        best=None
        for s in range(0,t-msl+1):
            if s!=0 and s<msl: continue
            if F[s] is None: continue
            v=F[s]+C[s,t]+pen
            if best is None or v<best: best=v
        F[t]=best
    tot+=1
    if not ok_pre: pre+=1; continue
    s_=d.scores.values
    ok=all(abs(s_[t-1]-F[t])<=1e-8*(1+abs(F[t])) for t in range(msl,n+1))
    if not ok: bad+=1; print("BAD",kind,fam,n,p,msl,sc,s_[-1],F[n])
print("tot",tot,"precondition-fails",pre,"runtimeerr",rt,"bad",bad)

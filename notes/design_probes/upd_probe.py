import numpy as np, pandas as pd, warnings
warnings.filterwarnings("ignore")
from skchange.change_detectors import PELT, MovingWindow, SeededBinarySegmentation
from skchange.anomaly_detectors import CAPA, MVCAPA, CircularBinarySegmentation, StatThresholdAnomaliser
def t(name, f):
    try: r=f(); print("OK  ", name, repr(r)[:150].replace("\n"," | "))
    except Exception as e: print("EXC ", name, type(e).__name__, str(e)[:150])
rng=np.random.default_rng(0)
a = pd.DataFrame({"v":rng.normal(size=30)}); b = pd.DataFrame({"v":rng.normal(size=20)+3}, index=pd.RangeIndex(30,50))
ab = pd.concat([a,b])
for mk in [lambda: PELT(), lambda: MovingWindow(bandwidth=4, threshold_scale=None, level=0.1), lambda: SeededBinarySegmentation(threshold_scale=None, level=0.1, min_segment_length=2), lambda: CAPA(), lambda: MVCAPA(), lambda: CircularBinarySegmentation(min_segment_length=2, threshold_scale=None, level=0.1), lambda: StatThresholdAnomaliser(PELT())]:
    d1 = mk().fit(a); d1.update(b); d2 = mk().fit(ab)
    fp1 = {k:v for k,v in d1.__dict__.items() if k.endswith("_") and not k.startswith("_") and isinstance(v,(float,np.floating))}
    fp2 = {k:v for k,v in d2.__dict__.items() if k.endswith("_") and not k.startswith("_") and isinstance(v,(float,np.floating))}
    print(type(d1).__name__, fp1, fp2, d1.predict(ab).equals(d2.predict(ab)), d1._X.equals(d2._X))
# overlapping index
b2 = pd.DataFrame({"v":rng.normal(size=20)+3}, index=pd.RangeIndex(20,40))
d1 = MovingWindow(bandwidth=4, threshold_scale=None, level=0.1).fit(a); d1.update(b2)
comb = b2.combine_first(a)
d2 = MovingWindow(bandwidth=4, threshold_scale=None, level=0.1).fit(comb)
print("overlap", d1.threshold_, d2.threshold_, len(comb))
t("update ndarray", lambda: PELT().fit(a.values).update(b.values))
t("update ndarray after df", lambda: PELT().fit(a).update(b.values))
t("update series", lambda: PELT().fit(a["v"]).update(b["v"])._X.shape)
t("update_predict", lambda: PELT().fit(a).update_predict(b))
t("fit series update df", lambda: PELT().fit(a["v"]).update(b)._X.shape)
t("sta get_fitted", lambda: StatThresholdAnomaliser(PELT()).fit(a).change_detector_.penalty_)

import os, time, json, numpy as np, warnings
warnings.filterwarnings("ignore")
import hypothesis
from hypothesis import given, settings, seed, strategies as st, HealthCheck, event
from skchange.costs import BaseCost
from skchange.change_detectors import PELT
class TableCost(BaseCost):
    def __init__(self, table=None, param=None):
        self.table=table; super().__init__(param)
    def _fit(self,X,y=None): self._t=np.asarray(self.table,dtype=float); self.n_evals=0; return self
    def _evaluate_optim_param(self, starts, ends):
        self.n_evals+=len(starts); return self._t[starts,ends].reshape(-1,1)
def closure(raw,n):
    C=[[0.0]*(n+1) for _ in range(n+1)]
    for L in range(1,n+1):
        for s in range(0,n-L+1):
            e=s+L; v=raw[s][e]
            for k in range(s+1,e): v=max(v,C[s][k]+C[k][e])
            C[s][e]=float(v)
    return C
@st.composite
def cases(draw):
    msl=draw(st.integers(1,4)); n=draw(st.integers(2*msl,14))
    raw=[[draw(st.integers(0,5)) if e>s else 0 for e in range(n+1)] for s in range(n+1)]
    k=draw(st.sampled_from([0,1,2,3,5,8]))
    return dict(n=n,msl=msl,raw=raw,k=k)
stats=dict(n=0,nt=0,pruned=0)
def check(case):
    n,msl=case["n"],case["msl"]; C=closure(case["raw"],n)
    d=PELT(TableCost(C), case["k"]/(2*np.log(n)), msl); X=np.zeros((n,1)); d.fit(X); y=d.predict(X)["ilocs"].tolist(); pen=d.penalty_
    F=[None]*(n+1); F[0]=-pen; full=0
    for t in range(1,n+1):
        best=None
        for s in range(0,t-msl+1):
            if s!=0 and s<msl: continue
            if F[s] is None: continue
            if t>=2*msl: full+=1
            v=F[s]+C[s][t]+pen
            if best is None or v<best: best=v
        F[t]=best
    sc=d.scores.values
    for t in range(msl,n+1): assert abs(sc[t-1]-F[t])<=1e-9*(1+abs(F[t])),(t,sc[t-1],F[t])
    b=[0]+y+[n]; assert all(b[i+1]-b[i]>=msl for i in range(len(b)-1))
    assert abs(sum(C[b[i]][b[i+1]] for i in range(len(b)-1))+pen*len(y)-sc[-1])<=1e-9*(1+abs(sc[-1]))
    stats["n"]+=1; stats["nt"]+= len(y)>0; stats["pruned"]+= d._cost.n_evals < full+msl
@seed(int(os.environ.get("VERIF_SEED","1")))
@settings(max_examples=2000, deadline=None, database=None, suppress_health_check=list(HealthCheck))
@given(cases())
def test(case): check(case)
t=time.time()
try: test(); print("passed")
except AssertionError as e: print("FAILED", e)
print(stats, round(time.time()-t,1),"s")

import numpy as np, pandas as pd, warnings, sys
warnings.filterwarnings("ignore")
from skchange.costs import L2Cost, GaussianVarCost, GaussianCovCost, BaseCost
from skchange.change_scores import CUSUM, ChangeScore
from skchange.anomaly_scores import L2Saving, Saving, LocalAnomalyScore
from skchange.utils.validation.data import as_2d_array
class L1Cost(BaseCost):
    """user-defined cost: sum |x - median| (optimal) or sum |x - param|."""
    def __init__(self, param=None): super().__init__(param)
    def _fit(self, X, y=None): self.X_=as_2d_array(X).astype(float); return self
    def _evaluate_optim_param(self, starts, ends):
        return np.array([np.abs(self.X_[s:e]-np.median(self.X_[s:e],axis=0)).sum(0) for s,e in zip(starts,ends)])
    def _evaluate_fixed_param(self, starts, ends):
        return np.array([np.abs(self.X_[s:e]-self.param).sum(0) for s,e in zip(starts,ends)])
rng=np.random.default_rng(int(sys.argv[1])); eps=2.2e-16
bad=0; worst={}
def chk(name, a, b, tol):
    global bad
    r=float(np.max(np.abs(np.asarray(a)-np.asarray(b))/tol)); worst[name]=max(worst.get(name,0),r)
    if r>1: bad+=1; print("BAD",name,r)
for it in range(150):
    n=int(rng.integers(6,40)); p=int(rng.integers(1,4)); X=rng.uniform(-50,50,size=p)*rng.choice([0,1])+10**rng.uniform(-1,1)*rng.normal(size=(n,p))
    if rng.random()<0.3: X=np.round(X)+rng.normal(size=(n,p))*1e-3
    M=np.abs(X).max(); B=32*(n+1)**2*eps*max(M,3)**2
    Xin = X if rng.random()<0.5 else pd.DataFrame(X)
    m=rng.uniform(-3,3,size=p); v=10**rng.uniform(-1,1,size=p); A=rng.normal(size=(p,p)); cov=A@A.T+0.5*np.eye(p)
    costs={"L2":(lambda par=None: L2Cost(par), m,1), "GV":(lambda par=None: GaussianVarCost(par),(m,v),2), "GC":(lambda par=None: GaussianCovCost(par),(m,cov),p+1), "L1":(lambda par=None: L1Cost(par), m,1)}
    for cn,(mk,par,ms) in costs.items():
        if n<4*ms: continue
        c=mk().fit(X); cf=mk(par).fit(X)
        C=lambda s,e: c.evaluate(np.array([[s,e]]))[0]; CF=lambda s,e: cf.evaluate(np.array([[s,e]]))[0]
        s=int(rng.integers(0,n-4*ms+1)); e=int(rng.integers(s+4*ms,n+1)); k=int(rng.integers(s+ms,e-ms+1))
        a=int(rng.integers(s+1,e-ms)); b=int(rng.integers(a+ms,e)); 
        if (a-s)+(e-b)<ms: continue
        tolc=1e-9*(1+abs(C(s,e)).max())+ (B if cn=="L2" else B/ max(1e-12,np.var(X[s:e],axis=0).min())*(e-s) if cn=="GV" else 1e-7*(1+abs(C(s,e)).max()))
        cs=ChangeScore(mk()).fit(Xin).evaluate(np.array([[s,k,e]]))[0]
        chk(cn+"_cs", cs, C(s,e)-C(s,k)-C(k,e), tolc)
        sv=Saving(mk(par)).fit(Xin).evaluate(np.array([[s,e]]))[0]
        chk(cn+"_sav", sv, CF(s,e)-C(s,e), tolc*10)
        la=LocalAnomalyScore(mk()).fit(Xin).evaluate(np.array([[s,a,b,e]]))[0]
        pooled=np.concatenate((X[s:a],X[b:e])); cp=mk().fit(pooled).evaluate(np.array([[0,len(pooled)]]))[0]
        chk(cn+"_la", la, C(s,e)-C(a,b)-cp, tolc*10)
        # inequalities
        if cn!="L1" or True:
            assert np.all(cs>=-tolc*10),(cn,"cs neg",cs)
            assert np.all(sv>=-tolc*10),(cn,"sav neg",sv)
    # direct twins
    s=int(rng.integers(0,n-2)); e=int(rng.integers(s+2,n+1)); k=int(rng.integers(s+1,e))
    cu=CUSUM().fit(Xin).evaluate(np.array([[s,k,e]]))[0]; l2=ChangeScore(L2Cost()).fit(X).evaluate(np.array([[s,k,e]]))[0]
    chk("cusum2", cu**2, l2, B*4+1e-9*(1+abs(l2).max()))
    chk("l2sav", L2Saving().fit(Xin).evaluate(np.array([[s,e]]))[0], Saving(L2Cost(0.0)).fit(X).evaluate(np.array([[s,e]]))[0], B*4)
print("bad",bad,{k:float(f"{v:.2g}") for k,v in worst.items()})

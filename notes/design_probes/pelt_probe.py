import numpy as np, warnings, sys, itertools
warnings.filterwarnings("ignore")
from skchange.costs import L2Cost, GaussianVarCost, BaseCost
from skchange.change_detectors.pelt import run_pelt, PELT

class TableCost(BaseCost):
    def __init__(self, table=None, param=None, msize=1):
        self.table = table; self.msize = msize
        super().__init__(param)
    @property
    def min_size(self): return self.msize
    def _fit(self, X, y=None): return self
    def _evaluate_optim_param(self, starts, ends):
        return np.array([[self.table[s, e]] for s, e in zip(starts, ends)], dtype=float)

def superadd_table(rng, n, hi=6):
    raw = rng.integers(0, hi, size=(n+1, n+1)).astype(float)
    C = np.zeros((n+1, n+1))
    for L in range(1, n+1):
        for s in range(0, n-L+1):
            e = s+L
            v = raw[s, e]
            for k in range(s+1, e):
                v = max(v, C[s,k]+C[k,e])
            C[s,e] = v
    return C

def opt_part(costfn, n, pen, msl):
    F = [None]*(n+1); F[0] = -pen
    for t in range(1, n+1):
        best = None
        for s in range(0, t-msl+1):
            if s != 0 and s < msl: continue
            if F[s] is None: continue
            v = F[s] + costfn(s,t) + pen
            if best is None or v < best: best = v
        F[t] = best
    return F

rng = np.random.default_rng(int(sys.argv[1]) if len(sys.argv)>1 else 0)
bad = 0; tot = 0
for it in range(600):
    n = int(rng.integers(2, 16)); msl = int(rng.integers(1, max(2, n//2+1)))
    if n < 2*msl: continue
    pen = float(rng.integers(0, 6))
    mode = rng.integers(0,2)
    if mode == 0:
        C = superadd_table(rng, n)
        cost = TableCost(C); fn = lambda s,e: C[s,e]
    else:
        x = np.round(rng.normal(size=(n,1))*2)  # integer data -> ties
        cost = L2Cost(); c2 = L2Cost().fit(x); fn = lambda s,e: float(c2.evaluate(np.array([[s,e]])).sum())
    X = np.zeros((n,1)) if mode==0 else x
    opt, cpts = run_pelt(X, cost, pen, msl)
    F = opt_part(fn, n, pen, msl)
    tot += 1
    # compare for prefixes t>=msl
    ok = all(abs(opt[t-1]-F[t]) < 1e-8 for t in range(msl, n+1) if F[t] is not None)
    # segmentation cost
    b = [0]+list(cpts)+[n]
    segcost = sum(fn(b[i],b[i+1]) for i in range(len(b)-1)) + pen*len(cpts)
    ok2 = abs(segcost-opt[-1])<1e-8 and all(b[i+1]-b[i]>=msl for i in range(len(b)-1))
    if not (ok and ok2):
        bad += 1
        if bad <= 5: print("MISMATCH mode",mode,"n",n,"msl",msl,"pen",pen,"pelt",opt[-1],"opt",F[n],"cpts",cpts, "segcost", segcost)
print("total",tot,"bad",bad)

import numpy as np, warnings, sys, math
warnings.filterwarnings("ignore")
from skchange.costs import L2Cost, GaussianVarCost, GaussianCovCost
rng=np.random.default_rng(int(sys.argv[1]))
eps=np.finfo(float).eps
LD=np.longdouble
def gen(n,p):
    kind=rng.integers(0,5)
    off=rng.uniform(-100,100,size=p)*rng.choice([0,1,1]); sc=10.0**rng.uniform(-3,2,size=p)
    X=off+sc*rng.normal(size=(n,p))
    if kind==0: X=np.round(X)
    if kind==1 and n>2: X[rng.integers(0,n)]+=sc*50
    if kind==2: X[:, rng.integers(0,p)] = float(rng.integers(-5,6))  # constant column
    return X
worst={}
def upd(k,v): worst[k]=max(worst.get(k,0),v)
bad=0
for it in range(400):
    n=int(rng.integers(1,60)); p=int(rng.integers(1,5)); X=gen(n,p)
    M=max(1e-300,np.abs(X).max())
    # fixed params
    m=rng.uniform(-2,2,size=p)*max(1,M*0.1) if rng.random()<0.5 else float(rng.uniform(-3,3))
    v=10.0**rng.uniform(-2,2,size=p) if rng.random()<0.5 else float(10**rng.uniform(-2,2))
    A=rng.normal(size=(p,p)); cov=A@A.T+np.eye(p)*0.1
    Mm=max(M,np.abs(m).max())
    B=32*(n+1)**2*eps*Mm**2   # abs error bound for any prefix-sum second-moment quantity
    cuts=[]
    for _ in range(8):
        s=int(rng.integers(0,n)); e=int(rng.integers(s+1,n+1)); cuts.append((s,e))
    rng.shuffle(cuts)
    for name,cost,ms in [("L2",L2Cost(),1),("L2f",L2Cost(m),1),("GV",GaussianVarCost(),2),("GVf",GaussianVarCost((m,v)),2),("GC",GaussianCovCost(),p+1),("GCf",GaussianCovCost((m,cov)),p+1)]:
        cc=np.array([c for c in cuts if c[1]-c[0]>=ms])
        if len(cc)==0: continue
        cost.fit(X)
        try: out=cost.evaluate(cc)
        except RuntimeError as ex:
            upd(name+"_rt",1); continue
        assert out.shape==(len(cc), 1 if name.startswith("GC") else p)
        for (s,e),row in zip(cc,out):
            seg=X[s:e].astype(LD); k=e-s
            if name=="L2":
                ref=((seg-seg.mean(0))**2).sum(0); err=np.abs(row-ref).max(); upd(name, err/B); ok=err<=B
            elif name=="L2f":
                ref=((seg-np.asarray(m,dtype=LD))**2).sum(0); err=np.abs(row-ref).max(); upd(name, err/B); ok=err<=B
            elif name=="GV":
                var=((seg-seg.mean(0))**2).mean(0); dv=B/k
                lo=k*np.log(2*np.pi*np.maximum(var-dv,1e-16))+k; hi=k*np.log(2*np.pi*np.maximum(var+dv,1e-16))+k
                sl=1e-9*(1+np.abs(hi))
                ok=bool(np.all(row>=lo-sl) and np.all(row<=hi+sl)); upd(name, float(np.max(np.maximum(lo-row,row-hi)/sl)))
            elif name=="GVf":
                q=((seg-np.asarray(m,dtype=LD))**2).sum(0); ref=k*np.log(2*np.pi*np.asarray(v,dtype=LD))+q/np.asarray(v,dtype=LD)
                tol=B/np.min(v)+1e-9*(1+np.abs(ref)); err=np.abs(row-ref); ok=bool(np.all(err<=tol)); upd(name,float(np.max(err/tol)))
            elif name=="GC":
                xc=(seg-seg.mean(0)).astype(float); S=xc.T@xc/k
                cond=np.linalg.cond(S)
                if not np.isfinite(cond) or cond>1e10: upd("GC_illcond",1); continue
                sign,ld=np.linalg.slogdet(S); ref=k*p*np.log(2*np.pi)+k*ld+p*k
                tol=1e-9*(1+abs(ref))+k*p*cond*eps*1e3*(1+ (M**2/ max(np.diag(S).min(),1e-300)) )
                err=abs(row[0]-ref); ok=err<=tol; upd(name,err/tol)
            else:
                xc=(seg-np.asarray(m,dtype=LD)).astype(float); ic=np.linalg.inv(cov); q=np.einsum("ij,jk,ik->",xc,ic,xc)
                ref=k*p*np.log(2*np.pi)+k*np.linalg.slogdet(cov)[1]+q; tol=1e-9*(1+abs(ref)+abs(q)*np.linalg.cond(cov)); err=abs(row[0]-ref); ok=err<=tol; upd(name,err/tol)
            if not ok:
                bad+=1
                if bad<8: print("BAD",name,n,p,(s,e),row,M)
print("bad",bad); print({k:float(f"{v:.3g}") for k,v in worst.items()})

import os, sys, time, json, numpy as np, warnings
warnings.filterwarnings("ignore")
import hypothesis
from hypothesis import given, settings, seed, strategies as st, HealthCheck, event, Phase
from skchange.costs import BaseCost, L2Cost
from skchange.change_detectors import PELT
class TableCost(BaseCost):
    def __init__(self, table=None, param=None):
        self.table=table; super().__init__(param)
    def _fit(self,X,y=None): self._t=np.asarray(self.table,dtype=float); self.n_evals=0; return self
    def _evaluate_optim_param(self, starts, ends):
        self.n_evals+=len(starts); return self._t[starts,ends].reshape(-1,1)
MODE=sys.argv[1]
@st.composite
def cases(draw):
    msl=draw(st.integers(1,4)); n=draw(st.integers(2*msl,14))
    k=draw(st.sampled_from([0,1,2,3,5,8,13]))
    if MODE=="pair":
        # pair-interaction: C(s,e)=sum_{s<=i<j<e} w[i][j], w sparse small ints
        w=[[draw(st.integers(0,3)) if (j>i and draw(st.booleans())) else 0 for j in range(n)] for i in range(n)]
        return dict(n=n,msl=msl,k=k,w=w)
    if MODE=="l2":
        x=draw(st.lists(st.integers(-4,4),min_size=n,max_size=n))
        return dict(n=n,msl=msl,k=k,x=x)
    if MODE=="level":
        # piecewise-constant integer levels + small integer noise; table = 2*L2cost*len? use exact rational: n*sum x^2 - (sum x)^2 scaled -> not superadditive. use L2 directly.
        ncp=draw(st.integers(0,3)); cps=sorted(draw(st.lists(st.integers(1,n-1),min_size=ncp,max_size=ncp)))
        lev=[draw(st.integers(-6,6)) for _ in range(ncp+1)]; x=[]
        for i in range(n):
            seg=sum(1 for c in cps if c<=i); x.append(lev[seg]+draw(st.integers(-1,1)))
        return dict(n=n,msl=msl,k=k,x=x)
stats=dict(n=0,nt=0,pruned=0)
def check(case):
    n,msl=case["n"],case["msl"]
    if "w" in case:
        w=np.array(case["w"],dtype=float); P=np.zeros((n+1,n+1))
        C=[[0.0]*(n+1) for _ in range(n+1)]
        for s in range(n):
            for e in range(s+1,n+1): C[s][e]=float(w[s:e,s:e].sum())
        cost=TableCost(C); X=np.zeros((n,1))
    else:
        X=np.array(case["x"],dtype=float).reshape(-1,1); cost=L2Cost(); r=L2Cost().fit(X)
        C=[[0.0]*(n+1) for _ in range(n+1)]
        for s in range(n):
            for e in range(s+1,n+1): C[s][e]=float(r.evaluate(np.array([[s,e]]))[0,0])
    d=PELT(cost, case["k"]/(2*np.log(n)), msl); d.fit(X); y=d.predict(X)["ilocs"].tolist(); pen=d.penalty_
    F=[None]*(n+1); F[0]=-pen
    for t in range(1,n+1):
        best=None
        for s in range(0,t-msl+1):
            if s!=0 and s<msl: continue
            if F[s] is None: continue
            v=F[s]+C[s][t]+pen
            if best is None or v<best: best=v
        F[t]=best
    sc=d.scores.values
    stats["n"]+=1; stats["nt"]+= len(y)>0
    for t in range(msl,n+1): assert abs(sc[t-1]-F[t])<=1e-9*(1+abs(F[t])),(t,sc[t-1],F[t])
@seed(int(os.environ.get("VERIF_SEED","1")))
@settings(max_examples=3000, deadline=None, database=None, suppress_health_check=list(HealthCheck), phases=[Phase.generate])
@given(cases())
def test(case): check(case)
t=time.time()
try: test(); print(MODE,"passed")
except AssertionError as e: print(MODE,"FAILED", str(e)[:100])
print(stats, round(time.time()-t,1),"s")

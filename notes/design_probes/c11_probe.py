import numpy as np, pandas as pd, warnings, sys
warnings.filterwarnings("ignore")
from skchange.costs import L2Cost, GaussianVarCost
from skchange.change_detectors import PELT, MovingWindow, SeededBinarySegmentation
from skchange.anomaly_detectors import CAPA, MVCAPA, CircularBinarySegmentation, StatThresholdAnomaliser
from skchange.anomaly_scores import LocalAnomalyScore, Saving, L2Saving
from skchange.change_scores import CUSUM, ChangeScore
rng=np.random.default_rng(0)
def reps(X):
    n,p=X.shape; out={}
    out["df"]=pd.DataFrame(X)
    out["nd"]=X.copy()
    out["dfs"]=pd.DataFrame(X,columns=[f"s{j}" for j in range(p)])
    out["dfdt"]=pd.DataFrame(X,index=pd.date_range("2021-03-01",periods=n,freq="h"))
    out["dfoff"]=pd.DataFrame(X,index=pd.RangeIndex(7,7+3*n,3))
    out["dfper"]=pd.DataFrame(X,index=pd.period_range("2020-01",periods=n,freq="M"))
    if np.all(X==np.round(X)): out["int"]=pd.DataFrame(X.astype(np.int64)); out["ndint"]=X.astype(np.int64)
    if p==1:
        out["ser"]=pd.Series(X[:,0]); out["nd1"]=X[:,0].copy(); out["serdt"]=pd.Series(X[:,0],index=pd.date_range("2021-03-01",periods=n,freq="D"),name="x")
    return out
def norm(y):
    if isinstance(y,Exception): return ("EXC",type(y).__name__,str(y)[:80])
    if isinstance(y,pd.Series): y=y.to_frame()
    cols=[]
    for c in y.columns:
        v=y[c]
        if c=="ilocs" and len(v) and hasattr(v.iloc[0],"left"): cols.append([(i.left,i.right) for i in v])
        elif c=="icolumns": cols.append([tuple(x) for x in v])
        else: cols.append(np.round(v.to_numpy(dtype=float),9).tolist())
    return cols
bad=0;tot=0
for it in range(25):
    p=int(rng.integers(1,3)); n=int(rng.integers(16,40)); X=np.round(rng.normal(size=(n,p))*2)
    a=int(rng.integers(3,n-3)); X[a:]+=6; X[rng.integers(0,n)]+=15
    R=reps(X)
    dets=[lambda: PELT(min_segment_length=2), lambda: MovingWindow(bandwidth=3,threshold_scale=None,level=0.1), lambda: SeededBinarySegmentation(min_segment_length=2,max_interval_length=20), lambda: CAPA(), lambda: MVCAPA(), lambda: CircularBinarySegmentation(min_segment_length=2,max_interval_length=12)]
    if p==1: dets.append(lambda: StatThresholdAnomaliser(PELT(min_segment_length=2)))
    for mk in dets:
        base={}
        d=mk().fit(R["df"])
        for m in ["predict","transform","transform_scores"]:
            try: base[m]=norm(getattr(d,m)(R["df"]))
            except NotImplementedError: base[m]=None
        for rf in R:
            for rp in R:
                if rng.random()>0.25: continue
                try: d=mk().fit(R[rf])
                except Exception as e: bad+=1; print("fit EXC",type(d).__name__,rf,e); continue
                for m in ["predict","transform","transform_scores"]:
                    if base[m] is None: continue
                    try: y=getattr(d,m)(R[rp])
                    except Exception as e: y=e
                    tot+=1
                    ok = norm(y)==base[m]
                    if ok and m!="predict" and not isinstance(y,Exception):
                        exp_index = R[rp].index if hasattr(R[rp],"index") else pd.RangeIndex(n)
                        ok = y.index.equals(exp_index)
                    if not ok:
                        bad+=1
                        if bad<10: print("MISMATCH",type(d).__name__,rf,rp,m,str(norm(y))[:120])
print("tot",tot,"bad",bad)

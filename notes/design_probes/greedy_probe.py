import numpy as np, pandas as pd, warnings, sys
warnings.filterwarnings("ignore")
from skchange.costs import L2Cost, GaussianVarCost, GaussianCovCost
from skchange.change_scores import CUSUM, ChangeScore
from skchange.anomaly_scores import LocalAnomalyScore
from skchange.change_detectors import MovingWindow, SeededBinarySegmentation
from skchange.anomaly_detectors import CircularBinarySegmentation
rng = np.random.default_rng(int(sys.argv[1]))
def data(n,p):
    X = rng.normal(size=(n,p))
    for _ in range(rng.integers(0,4)):
        a=int(rng.integers(0,n)); X[a:, rng.integers(0,p)] += rng.normal()*5
    if rng.random()<0.3: X=np.round(X)
    return X
bad=0; tot=0; nt=0
for it in range(int(sys.argv[2])):
    p=int(rng.integers(1,3)); msl=int(rng.integers(1,5)); n=int(rng.integers(2*msl, 60))
    mil=int(rng.integers(2*msl, 50)); gf=float(rng.choice([1.1,1.5,2.0])); ts=float(rng.choice([0,0.2,0.5,1,2]))
    X=data(n,p)
    which=rng.integers(0,3)
    if which==0:
        sc = [None, L2Cost(), GaussianVarCost()][rng.integers(0,3)]
        if isinstance(sc,GaussianVarCost) and msl<2: continue
        d=SeededBinarySegmentation(sc, ts, 0.01, msl, mil, gf).fit(X); y=d.predict(X)["ilocs"].tolist(); T=d.scores
        from skchange.change_scores import to_change_score
        ref = to_change_score(CUSUM() if sc is None else sc.clone()).fit(X)
        okk=True
        assert len(T)>0
        for r in T.itertuples():
            s,e=r.start,r.end
            okk &= (0<=s and e<=n and 2*msl<=e-s<=min(mil,n))
            splits=np.arange(s+msl,e-msl+1)
            v=ref.evaluate(np.column_stack((np.full(len(splits),s),splits,np.full(len(splits),e)))).sum(axis=1)
            okk &= abs(v.max()-r.score)<=1e-9*(1+abs(v.max())) and s+msl<=r.argmax_cpt<=e-msl and abs(v[r.argmax_cpt-s-msl]-v.max())<=1e-9*(1+abs(v.max()))
        # greedy
        scores=T.score.to_numpy().copy(); alive=np.ones(len(T),bool); cp=[]
        while True:
            cand=np.where(alive & (scores>d.threshold_))[0]
            if len(cand)==0: break
            i=cand[np.argmax(scores[cand])]; c=int(T.argmax_cpt[i]); cp.append(c)
            alive &= ~((T.start.to_numpy()<=c)&(c<T.end.to_numpy()))
        okk &= sorted(cp)==y
        if len(y)>0: nt+=1
    elif which==1:
        sc=[None, L2Cost(), GaussianVarCost()][rng.integers(0,3)]
        if isinstance(sc,GaussianVarCost) and msl<2: continue
        d=CircularBinarySegmentation(sc, ts*0.3, 0.01, msl, min(mil,24), gf).fit(X); y=d.predict(X); T=d.scores
        from skchange.anomaly_scores import to_local_anomaly_score
        ref=to_local_anomaly_score(L2Cost() if sc is None else sc.clone()).fit(X)
        okk=True
        for r in T.itertuples():
            s,e=r.interval_start,r.interval_end
            cuts=[(s,a,b,e) for a in range(s+1,e) for b in range(a+msl,e) if (a-s)+(e-b)>=msl]
            if not cuts: continue
            v=ref.evaluate(np.array(cuts)).sum(axis=1)
            a,b=int(r.argmax_anomaly_start),int(r.argmax_anomaly_end)
            okk &= abs(v.max()-r.score)<=1e-8*(1+abs(v.max())) and (s,a,b,e) in cuts and abs(v[cuts.index((s,a,b,e))]-v.max())<=1e-8*(1+abs(v.max()))
        scores=T.score.to_numpy().copy(); alive=np.isfinite(scores); an=[]
        while True:
            cand=np.where(alive & (scores>d.threshold_))[0]
            if len(cand)==0: break
            i=cand[np.argmax(scores[cand])]; a,b=int(T.argmax_anomaly_start[i]),int(T.argmax_anomaly_end[i]); an.append((a,b))
            alive &= ~((b>T.interval_start.to_numpy())&(a<T.interval_end.to_numpy()))
        got=list(zip(y["ilocs"].array.left, y["ilocs"].array.right))
        okk &= sorted(an)==got
        if got: nt+=1
    else:
        b=msl; 
        if n<2*b: continue
        sc=[None, L2Cost(), GaussianVarCost()][rng.integers(0,3)]
        if isinstance(sc,GaussianVarCost) and b<2: continue
        mdi=int(rng.integers(1,max(1,b//2-1)+1))
        d=MovingWindow(sc,b,ts*0.5,0.01,mdi).fit(X); s=d.transform_scores(X).values; y=d.predict(X)["ilocs"].tolist()
        from skchange.change_scores import to_change_score
        ref = to_change_score(CUSUM() if sc is None else sc.clone()).fit(X)
        exp=np.zeros(n)
        for t in range(b,n-b+1): exp[t]=ref.evaluate(np.array([[t-b,t,t+b]])).sum()
        okk=np.allclose(s,exp,rtol=1e-9,atol=1e-9)
        # runs
        above=exp>d.threshold_; cps=[];i=0
        while i<n:
            if above[i]:
                j=i
                while j<n and above[j]: j+=1
                if j-i>=mdi: cps.append(i+int(np.argmax(s[i:j])))
                i=j
            else: i+=1
        okk &= cps==y
        # reversal
        dr=MovingWindow(sc,b,ts*0.5,0.01,mdi).fit(X[::-1]); sr=dr.transform_scores(X[::-1]).values
        okk &= np.allclose(sr[1:][::-1], s[1:], rtol=1e-7, atol=1e-7)
        if y: nt+=1
    tot+=1
    if not okk:
        bad+=1
        if bad<6: print("BAD", which, n,p,msl,mil,gf,ts)
print("tot",tot,"bad",bad,"nontrivial",nt)

import numpy as np, time, warnings
warnings.filterwarnings("ignore")
from skchange.change_detectors import PELT, MovingWindow, SeededBinarySegmentation
from skchange.anomaly_detectors import CAPA, MVCAPA, CircularBinarySegmentation
from skchange.costs import L2Cost, GaussianCovCost
rng=np.random.default_rng(0)
for n in [20,40,80]:
    X=rng.normal(size=(n,2)); X[n//2:]+=3
    for name,mk in [("PELT",lambda: PELT(min_segment_length=2)),("MW",lambda: MovingWindow(bandwidth=3)),("SBS",lambda: SeededBinarySegmentation(min_segment_length=2,max_interval_length=30)),("CAPA",lambda: CAPA()),("MVCAPA",lambda: MVCAPA()),("CBS",lambda: CircularBinarySegmentation(min_segment_length=2,max_interval_length=16)),("PELTcov",lambda: PELT(GaussianCovCost(),min_segment_length=3))]:
        t=time.time(); d=mk().fit(X); d.predict(X); print(n,name,round((time.time()-t)*1000,1),"ms")

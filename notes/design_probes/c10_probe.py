import numpy as np, pandas as pd, warnings, sys, copy
warnings.filterwarnings("ignore")
from skchange.costs import L2Cost, GaussianVarCost, GaussianCovCost
from skchange.change_scores import CUSUM, ChangeScore
from skchange.anomaly_scores import L2Saving, Saving, LocalAnomalyScore
from skchange.change_detectors import PELT, MovingWindow, SeededBinarySegmentation
from skchange.anomaly_detectors import CAPA, MVCAPA, CircularBinarySegmentation, StatThresholdAnomaliser
rng=np.random.default_rng(int(sys.argv[1]))
def mkdata(k):
    n=int(rng.integers(8,40)); p=int(rng.integers(1,3)); X=rng.normal(size=(n,p))
    a=int(rng.integers(2,n-2)); X[a:]+=rng.normal()*5
    if rng.random()<0.5: X[rng.integers(0,n)]+=12
    return pd.DataFrame(X, columns=[f"c{j}" for j in range(p)], index=pd.RangeIndex(100*k,100*k+n))
SPECS={
 "PELT": lambda sc: (PELT, dict(cost=sc("cost"), penalty_scale=float(rng.choice([0.3,1])), min_segment_length=int(rng.integers(2,4)))),
 "MW": lambda sc: (MovingWindow, dict(change_score=sc("cs"), bandwidth=int(rng.integers(2,5)), threshold_scale=rng.choice([0.5,None]), level=0.1)),
 "SBS": lambda sc: (SeededBinarySegmentation, dict(change_score=sc("cs"), threshold_scale=rng.choice([0.5,None]), level=0.1, min_segment_length=2, max_interval_length=20)),
 "CAPA": lambda sc: (CAPA, dict(collective_saving=sc("sav"), min_segment_length=2, max_segment_length=15)),
 "MVCAPA": lambda sc: (MVCAPA, dict(collective_saving=sc("sav"), min_segment_length=2, max_segment_length=15)),
 "CBS": lambda sc: (CircularBinarySegmentation, dict(anomaly_score=sc("la"), threshold_scale=rng.choice([0.3,None]), level=0.1, min_segment_length=2, max_interval_length=12)),
}
def build(cls,params,shared):
    kw={}
    for k,v in params.items():
        if isinstance(v,tuple) and v[0]=="scorer":
            kw[k]= shared[v[2]] if (shared is not None and v[2] is not None) else v[1]()
        else: kw[k]=v
    return cls(**kw)
def same(a,b):
    if isinstance(a,Exception) or isinstance(b,Exception): return type(a)==type(b)
    if isinstance(a,(pd.DataFrame,pd.Series)):
        if a.shape!=b.shape: return False
        if not a.index.equals(b.index): return False
        A=a.to_numpy() if isinstance(a,pd.Series) else a.to_numpy(); B=b.to_numpy()
        try: return bool(np.allclose(A.astype(float),B.astype(float),rtol=1e-12,atol=1e-12))
        except Exception: return str(a.values.tolist())==str(b.values.tolist())
    return a==b
bad=0;steps=0
for hist in range(60):
    data=[mkdata(k) for k in range(4)]; pristine=[d.copy() for d in data]
    pool={"L2":L2Cost(),"GV":GaussianVarCost(),"L2f":L2Cost(param=0.0)}
    def sc(kind):
        if kind in("cost","cs","la"):
            k=rng.choice(["L2","GV"]) ; shared = k if rng.random()<0.5 else None
            return ("scorer", {"L2":L2Cost,"GV":GaussianVarCost}[k], shared)
        shared="L2f" if rng.random()<0.5 else None
        return ("scorer", lambda: L2Cost(param=0.0), shared)
    slots=[]
    for _ in range(3):
        name=rng.choice(list(SPECS)); cls,params=SPECS[name](sc)
        slots.append(dict(cls=cls,params=params,obj=build(cls,params,pool),train=None))
    for step in range(25):
        s=slots[rng.integers(0,len(slots))]; op=rng.choice(["fit","predict","transform","tscores","update","clone","setp"]); D=data[rng.integers(0,4)]
        steps+=1
        def ref():
            r=build(s["cls"],s["params"],None)
            if s["train"] is not None:
                tr=s["train"][0]
                for nxt in s["train"][1:]: tr=nxt.combine_first(tr)
                r.fit(tr)
            return r
        def call(o,m,*a):
            try: return getattr(o,m)(*a)
            except Exception as e: return e
        if op=="fit":
            r=call(s["obj"],"fit",D)
            if not isinstance(r,Exception): s["train"]=[D]
            else:
                rr=call(build(s["cls"],s["params"],None),"fit",D)
                if type(rr)!=type(r): bad+=1; print("fit exc mismatch",r,rr)
        elif op=="update":
            if s["train"] is None or D.shape[1]!=s["train"][0].shape[1] or any(D is t for t in s["train"]): continue
            r=call(s["obj"],"update",D)
            if not isinstance(r,Exception): s["train"].append(D)
            else: print("update exc",type(r).__name__,r)
        elif op in("predict","transform","tscores"):
            m={"predict":"predict","transform":"transform","tscores":"transform_scores"}[op]
            if m=="transform_scores" and s["cls"] in (SeededBinarySegmentation,CircularBinarySegmentation): continue
            a=call(s["obj"],m,D); b=call(ref(),m,D)
            if not same(a,b):
                bad+=1; print("MISMATCH",s["cls"].__name__,m, repr(a)[:100], repr(b)[:100])
        elif op=="clone":
            s2=dict(cls=s["cls"],params={k:(("scorer",v[1],None) if isinstance(v,tuple) else v) for k,v in s["params"].items()},obj=s["obj"].clone(),train=None)
            slots.append(s2)
        elif op=="setp":
            if "min_segment_length" in s["params"]:
                v=int(rng.integers(2,4)); s["obj"].set_params(min_segment_length=v); s["params"]["min_segment_length"]=v; s["train"]=None
        for d,pz in zip(data,pristine):
            if not d.equals(pz): bad+=1; print("DATA MODIFIED")
print("histories 60 steps",steps,"bad",bad)

import numpy as np, warnings
warnings.filterwarnings("ignore")
from skchange.costs import BaseCost
from skchange.anomaly_scores import BaseSaving, BaseLocalAnomalyScore
from skchange.change_scores import BaseChangeScore
from skchange.change_detectors import PELT, SeededBinarySegmentation, MovingWindow
from skchange.anomaly_detectors import CAPA, MVCAPA, CircularBinarySegmentation
class TableCost(BaseCost):
    def __init__(self, table=None, param=None):
        self.table=table; super().__init__(param); self.n_evals=0
    def _fit(self,X,y=None): return self
    def _evaluate_optim_param(self, starts, ends):
        self.n_evals+=len(starts)
        t=np.asarray(self.table); return t[starts,ends].reshape(-1,1).astype(float)
class TableSaving(BaseSaving):
    def __init__(self, table=None, msize=1):
        self.table=table; self.msize=msize; super().__init__()
    @property
    def min_size(self): return self.msize
    def get_param_size(self,p): return p
    def _fit(self,X,y=None): return self
    def _evaluate(self,cuts):
        t=np.asarray(self.table,dtype=float); return t[cuts[:,0],cuts[:,1]]
class TableCS(BaseChangeScore):
    def __init__(self, table=None): self.table=table; super().__init__()
    def _fit(self,X,y=None): return self
    def _evaluate(self,cuts):
        t=np.asarray(self.table,dtype=float); return t[cuts[:,0],cuts[:,1],cuts[:,2]].reshape(-1,1)
class TableLA(BaseLocalAnomalyScore):
    def __init__(self, table=None): self.table=table; super().__init__()
    def _fit(self,X,y=None): return self
    def _evaluate(self,cuts):
        t=np.asarray(self.table,dtype=float); return t[cuts[:,0],cuts[:,1],cuts[:,2],cuts[:,3]].reshape(-1,1)
rng=np.random.default_rng(0); n=10
T=rng.integers(0,6,size=(n+1,n+1))
c=TableCost(T.tolist()); c2=c.clone(); print("clone ok", c2.get_params()["table"]==T.tolist())
X=np.zeros((n,1))
scale=3/(2*1*np.log(n)); d=PELT(c,scale,2).fit(X); print("penalty_",d.penalty_, d.penalty_==3, d.predict(X)["ilocs"].tolist(), c.n_evals, d.scores.values[-1])
S=rng.integers(0,9,size=(n+1,n+1,2)); X2=np.zeros((n,2))
d=CAPA(TableSaving(S.tolist()),TableSaving(S.tolist()),0.1,0.1,2,5).fit(X2); print("CAPA",d.collective_penalty_,d.point_penalty_,d.predict(X2).values.tolist(), d.scores.values[-1])
pen=lambda n,p,k,scale=1.0: (2.0*scale, np.array([1.0,0.0])*scale)
d=MVCAPA(TableSaving(S.tolist()),TableSaving(S.tolist()),pen,1.0,pen,2.0,2,5).fit(X2); print("MVCAPA",d.predict(X2).values.tolist(), d.scores.values[-1]); print(d.clone().get_params()["collective_penalty"] is pen)
T3=rng.integers(0,5,size=(n+1,n+1,n+1))
d=SeededBinarySegmentation(TableCS(T3.tolist()),0.3,1e-8,1,6).fit(X); print("SBS",d.threshold_,d.predict(X)["ilocs"].tolist()); print(d.scores.head(3).values.tolist())
d=MovingWindow(TableCS(T3.tolist()),2,0.5).fit(X); print("MW",d.threshold_,d.predict(X)["ilocs"].tolist(), d.scores.values.tolist())
T4=rng.integers(0,5,size=(n+1,n+1,n+1,n+1))
d=CircularBinarySegmentation(TableLA(T4.tolist()),0.05,1e-8,1,6).fit(X); print("CBS",d.threshold_,d.predict(X).values.tolist()); print(d.scores.head(3).values.tolist())

import numpy as np, pandas as pd, warnings, sys
warnings.filterwarnings("ignore")
from skchange.costs import L2Cost, GaussianVarCost, GaussianCovCost
from skchange.change_scores import CUSUM
from skchange.change_detectors import PELT, MovingWindow, SeededBinarySegmentation
from skchange.anomaly_detectors import CAPA, MVCAPA, CircularBinarySegmentation
rng=np.random.default_rng(int(sys.argv[1]))
def out(d,X):
    y=d.fit(X).predict(X)
    if "icolumns" in y: return [(iv.left,iv.right,tuple(c)) for iv,c in zip(y["ilocs"],y["icolumns"])]
    v=y["ilocs"]
    return [ (iv.left,iv.right) if hasattr(iv,"left") else int(iv) for iv in v]
diff={}
tot={}
for it in range(120):
    n=int(rng.integers(12,50)); p=int(rng.integers(2,5)); X=rng.normal(size=(n,p))
    for _ in range(rng.integers(1,4)):
        a=int(rng.integers(2,n-2)); X[a:, rng.random(p)<0.6]+=rng.normal()*4
    for _ in range(rng.integers(0,2)):
        a=int(rng.integers(0,n-4)); X[a:a+int(rng.integers(2,6)), rng.random(p)<0.6]+=6
    perm=rng.permutation(p); c=rng.uniform(-10,10,size=p); a=float(10**rng.uniform(-1,1))
    dets={
     "PELT_L2":(lambda: PELT(L2Cost(),0.5,2),"psr"), "PELT_GV":(lambda: PELT(GaussianVarCost(),0.5,3),"psar"), "PELT_GC":(lambda: PELT(GaussianCovCost(),0.5,p+2),"psar"),
     "MW":(lambda: MovingWindow(None,4,0.7),"ps"), "MW_GV":(lambda: MovingWindow(GaussianVarCost(),5,0.7),"psa"),
     "SBS":(lambda: SeededBinarySegmentation(None,0.7,1e-8,3,30),"ps"), "SBS_GC":(lambda: SeededBinarySegmentation(GaussianCovCost(),0.7,1e-8,p+2,30),"psa"),
     "CBS":(lambda: CircularBinarySegmentation(L2Cost(),0.3,1e-8,2,14),"ps"),
     "CAPA":(lambda: CAPA(),"p"), "MVCAPA":(lambda: MVCAPA(),"p"),
    }
    for name,(mk,rel) in dets.items():
        base=out(mk(),X)
        for r in rel:
            if r=="p":
                got=out(mk(),X[:,perm])
                if name=="MVCAPA": got=[(l,rr,tuple(int(perm[j]) for j in cols)) for l,rr,cols in got]
            elif r=="s": got=out(mk(),X+c)
            elif r=="a": got=out(mk(),X*a)
            else: continue
            key=(name,r); tot[key]=tot.get(key,0)+1
            if got!=base:
                diff[key]=diff.get(key,0)+1
                if diff[key]<=2: print("DIFF",key,base,got)
print({k:(diff.get(k,0),v) for k,v in tot.items()})

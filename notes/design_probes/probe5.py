import numpy as np, pandas as pd, warnings
warnings.filterwarnings("ignore")
from skchange.datasets import *
from skchange.anomaly_detectors.base import CollectiveAnomalyDetector as CAD, SubsetCollectiveAnomalyDetector as SCAD
from skchange.change_detectors.base import ChangeDetector as CD
from skchange.change_detectors import PELT, MovingWindow, SeededBinarySegmentation
from skchange.anomaly_detectors import CAPA, MVCAPA, CircularBinarySegmentation, StatThresholdAnomaliser
def tryit(name, f):
    try:
        r = f()
        print("OK  ", name, "->", repr(r)[:300].replace("\n"," | "))
    except Exception as e:
        print("EXC ", name, "->", type(e).__name__, str(e)[:200])
tryit("gen n=1", lambda: generate_changing_data(1, [], 0.0, 1.0, 1).shape)
tryit("gen n=2 p=1", lambda: generate_changing_data(2, [1], [0.0, 5.0], 1.0, 1).values.ravel())
tryit("gen n=1 p=2", lambda: generate_changing_data(1, [], [np.zeros(2)], 1.0, 1).shape)
tryit("gen neg cpt", lambda: generate_changing_data(10, [-3], [0.0, 5.0], 1.0, 1).values.ravel().round(1))
tryit("gen cpt 0", lambda: generate_changing_data(10, [0], [0.0, 5.0], 1.0, 1).values.ravel().round(1))
tryit("gen cpt n", lambda: generate_changing_data(10, [10], [0.0, 5.0], 1.0, 1).values.ravel().round(1))
tryit("gen unsorted cpt", lambda: generate_changing_data(10, [7,3], [0.0, 5.0, 9.0], 1.0, 1).values.ravel().round(1))
tryit("anom neg", lambda: generate_anomalous_data(10, [(-3, 2)], 5.0, 1.0, 1).values.ravel().round(1))
tryit("anom neg2", lambda: generate_anomalous_data(10, [(-3, -1)], 5.0, 1.0, 1).values.ravel().round(1))
tryit("anom empty", lambda: generate_anomalous_data(10, [(3, 3)], 5.0, 1.0, 1).values.ravel().round(1))
tryit("anom >n", lambda: generate_anomalous_data(10, [(3, 11)], 5.0, 1.0, 1).values.ravel().round(1))
tryit("anom list not tuple", lambda: generate_anomalous_data(10, [[3, 5]], 5.0, 1.0, 1).values.ravel().round(1))
tryit("outliers p=1", lambda: add_linspace_outliers(pd.DataFrame(np.zeros((10,1))), 3, 1.0).values.ravel())
tryit("outliers p=2", lambda: add_linspace_outliers(pd.DataFrame(np.zeros((10,2))), 3, 1.0).values.ravel())
tryit("outliers p=2 n_out=1", lambda: add_linspace_outliers(pd.DataFrame(np.zeros((10,2))), 1, 1.0).values.ravel())
tryit("outliers k=n", lambda: add_linspace_outliers(pd.DataFrame(np.zeros((7,1))), 7, 1.0).values.ravel())
tryit("outliers k=5 n=7", lambda: add_linspace_outliers(pd.DataFrame(np.zeros((7,1))), 5, 1.0).values.ravel())
tryit("alt", lambda: generate_alternating_data(3, 2, p=2, mean=5, variance=4, affected_proportion=0.5, random_state=3).values.round(1).tolist())
tryit("alt nseg=1", lambda: generate_alternating_data(1, 3, p=1, mean=5, random_state=3).values.round(1).tolist())
tryit("alt mean vector", lambda: generate_changing_data(6, [3], [np.array([0.,1.]), np.array([5.,6.])], [1.0], 2).values.round(1).tolist())
# C05 adjacency
ys = CAD._format_sparse_output([(2,5),(5,8),(9,10)])
d = CAD.sparse_to_dense(ys, pd.RangeIndex(12))
tryit("CAD dense", lambda: d.values.ravel())
tryit("CAD back", lambda: CAD.dense_to_sparse(d))
ys0 = CAD._format_sparse_output([])
tryit("CAD empty dense", lambda: CAD.sparse_to_dense(ys0, pd.RangeIndex(5)).values.ravel())
tryit("CAD empty back", lambda: CAD.dense_to_sparse(CAD.sparse_to_dense(ys0, pd.RangeIndex(5))))
tryit("CAD ends", lambda: CAD.dense_to_sparse(CAD.sparse_to_dense(CAD._format_sparse_output([(0,2),(10,12)]), pd.RangeIndex(12))))
ys2 = SCAD._format_sparse_output([(2,5,[0,1]),(5,8,[1]),(9,10,[0])])
d2 = SCAD.sparse_to_dense(ys2, pd.RangeIndex(12), pd.Index(["a","b"]))
tryit("SCAD dense", lambda: d2.values.T.tolist())
tryit("SCAD back", lambda: SCAD.dense_to_sparse(d2))
tryit("CD roundtrip dt", lambda: CD.dense_to_sparse(CD.sparse_to_dense(CD._format_sparse_output([3,7]), pd.date_range("2020",periods=10))))
tryit("CD empty", lambda: CD.dense_to_sparse(CD.sparse_to_dense(CD._format_sparse_output([]), pd.RangeIndex(10))))

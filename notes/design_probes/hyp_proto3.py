import os, sys, time, numpy as np, warnings
warnings.filterwarnings("ignore")
from hypothesis import given, settings, seed, strategies as st, HealthCheck, Phase
from skchange.anomaly_scores import BaseSaving
from skchange.anomaly_detectors import CAPA, MVCAPA
class TableSaving(BaseSaving):
    def __init__(self, table=None, msize=1):
        self.table=table; self.msize=msize; super().__init__()
    @property
    def min_size(self): return self.msize
    def get_param_size(self,p): return p
    def _fit(self,X,y=None): self._t=np.asarray(self.table,dtype=float); return self
    def _evaluate(self,cuts): return self._t[cuts[:,0],cuts[:,1]]
MODE=sys.argv[1]
@st.composite
def cases(draw):
    msl=draw(st.integers(2,4)); n=draw(st.integers(msl,14)); p=draw(st.integers(1,3)); maxl=draw(st.integers(msl,n+2))
    if MODE=="abs":
        u=[[draw(st.integers(-3,3)) for _ in range(p)] for _ in range(n)]
        v=[[draw(st.integers(-4,4)) for _ in range(p)] for _ in range(n)]
        tab=("abs",u,v)
    else:
        raw=[[[draw(st.integers(0,7)) for _ in range(p)] for e in range(n+1)] for s in range(n+1)]
        tab=("closure",raw,raw)
    alpha=draw(st.integers(0,8)); kind=draw(st.sampled_from(["zero","equal","any"]))
    betas=[0]*p if kind=="zero" else [draw(st.integers(0,3))]*p if kind=="equal" else [draw(st.integers(0,3)) for _ in range(p)]
    palpha=draw(st.integers(0,10))
    return dict(n=n,p=p,msl=msl,maxl=maxl,tab=tab,alpha=alpha,betas=betas,palpha=palpha)
def build(tab,n,p):
    kind,a,b=tab
    if kind=="abs":
        def mk(u):
            u=np.array(u,dtype=float); cs=np.vstack([np.zeros((1,p)),np.cumsum(u,axis=0)]); T=np.zeros((n+1,n+1,p))
            for s in range(n):
                for e in range(s+1,n+1): T[s,e]=np.abs(cs[e]-cs[s])
            return T
        return mk(a),mk(b)
    raw=np.array(a,dtype=float); S=np.zeros((n+1,n+1,p))
    for L in range(1,n+1):
        for s in range(0,n-L+1):
            e=s+L; v=raw[s,e].copy()
            for k in range(s+1,e): v=np.minimum(v,S[s,k]+S[k,e])
            S[s,e]=v
    return S,S
def pen_saving(sv,alpha,betas):
    sv=np.sort(sv)[::-1]; return (np.cumsum(sv-betas)-alpha).max()
stats=dict(n=0,coll=0,pt=0)
def check(case):
    n,p,msl,maxl=case["n"],case["p"],case["msl"],case["maxl"]; S,P=build(case["tab"],n,p)
    ca=float(case["alpha"]); cb=np.array(case["betas"],dtype=float); pa=float(case["palpha"]); pb=np.zeros(p)
    cpen=lambda n_,p_,k_,scale=1.0: (ca,cb); ppen=lambda n_,p_,k_,scale=1.0: (pa,pb)
    d=MVCAPA(TableSaving(S.tolist()),TableSaving(P.tolist()),cpen,1.0,ppen,1.0,msl,maxl).fit(np.zeros((n,p)))
    y=d.predict(np.zeros((n,p))); sc=d.scores.values
    F=np.zeros(n+1)
    for t in range(1,n+1):
        best=max(F[t-1],F[t-1]+pen_saving(P[t-1,t],pa,pb))
        for s in range(max(0,t-maxl),t-msl+1): best=max(best,F[s]+pen_saving(S[s,t],ca,cb))
        F[t]=best
    stats["n"]+=1; iv=y["ilocs"].array; stats["coll"]+=any(r-l>1 for l,r in zip(iv.left,iv.right)); stats["pt"]+=any(r-l==1 for l,r in zip(iv.left,iv.right))
    assert np.allclose(sc,F[1:],atol=1e-9),(sc[-1],F[-1])
@seed(int(os.environ.get("VERIF_SEED","1")))
@settings(max_examples=3000, deadline=None, database=None, suppress_health_check=list(HealthCheck), phases=[Phase.generate])
@given(cases())
def test(case): check(case)
t=time.time()
try: test(); print(MODE,"passed")
except AssertionError as e: print(MODE,"FAILED", str(e)[:100])
print(stats, round(time.time()-t,1),"s")

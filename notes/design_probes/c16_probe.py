import numpy as np, pandas as pd, warnings, sys
warnings.filterwarnings("ignore")
from skchange.anomaly_scores import L2Saving
from skchange.anomaly_detectors import MVCAPA, StatThresholdAnomaliser
from skchange.change_detectors import PELT, MovingWindow, SeededBinarySegmentation
from skchange.anomaly_detectors.mvcapa import capa_penalty_factory, sparse_mvcapa_penalty
rng=np.random.default_rng(int(sys.argv[1]))
bad=0; tot=0; nanom=0; multi=0
for it in range(200):
    n=int(rng.integers(10,50)); p=int(rng.integers(2,7))
    X=rng.normal(size=(n,p))
    for _ in range(rng.integers(1,3)):
        a=int(rng.integers(0,n-3)); L=int(rng.integers(2,10)); cols=rng.random(p)<rng.choice([0.2,0.5,1.0]); X[a:a+L,cols]+=rng.normal(size=cols.sum())*3+rng.choice([-4,4])
    for _ in range(rng.integers(0,3)): X[rng.integers(0,n), rng.random(p)<0.4]+=rng.choice([-9,9])
    cs=float(rng.choice([0.5,1,2])); ps=float(rng.choice([0.5,1,2])); cpen=str(rng.choice(["dense","sparse","combined","intermediate"])); ppen=str(rng.choice(["sparse","dense"]))
    d=MVCAPA(None,None,cpen,cs,ppen,ps,2,20).fit(X); y=d.predict(X); dense=d.transform(X).values
    sav=L2Saving().fit(X)
    sa,sb=sparse_mvcapa_penalty(n,p,1,cs); pa,pb=capa_penalty_factory(ppen)(n,p,1,scale=ps)
    exp_dense=np.zeros((n,p),int)
    ok=True
    for i,(iv,cols) in enumerate(zip(y["ilocs"],y["icolumns"])):
        l,r=iv.left,iv.right; v=sav.evaluate(np.array([[l,r]]))[0]
        a,b=(pa,pb) if r-l==1 else (sa,sb)
        order=np.argsort(-v); cum=np.cumsum(v[order]-b)-a; k=int(np.argmax(cum))+1
        # margin
        srt=np.sort(cum)[::-1]; 
        ok&= list(cols)==list(order[:k]) and len(set(cols))==len(cols)
        exp_dense[l:r,list(cols)]=i+1
        nanom+=1; multi+= (1<len(cols)<p)
    ok&=np.array_equal(dense,exp_dense)
    tot+=1
    if not ok:
        bad+=1; print("BAD",n,p,cpen,ppen,cs,ps, y.to_dict("list"))
print("tot",tot,"bad",bad,"anoms",nanom,"proper-subset",multi)
# C17
bad=0;tot=0;flag=0;adj=0
for it in range(200):
    n=int(rng.integers(12,60)); x=rng.normal(size=n)*0.5
    for _ in range(rng.integers(0,4)):
        a=int(rng.integers(0,n)); x[a:]+=rng.normal()*3
    det=[lambda: PELT(min_segment_length=int(rng.integers(1,4)), penalty_scale=float(rng.choice([0.2,1]))), lambda: MovingWindow(bandwidth=int(rng.integers(2,5)), threshold_scale=float(rng.choice([0.3,1]))), lambda: SeededBinarySegmentation(min_segment_length=2, threshold_scale=float(rng.choice([0.3,1])))][rng.integers(0,3)]()
    stat=[np.mean,np.median,np.max][rng.integers(0,3)]; lo=float(rng.normal()-1); hi=lo+float(abs(rng.normal())*2)
    s=StatThresholdAnomaliser(det,stat,lo,hi).fit(x); y=s.predict(x)
    cp=det.clone().fit(x).predict(x)["ilocs"].tolist(); bnd=[0]+cp+[n]
    exp=[(bnd[i],bnd[i+1]) for i in range(len(bnd)-1) if stat(x[bnd[i]:bnd[i+1]])<lo or stat(x[bnd[i]:bnd[i+1]])>hi]
    got=list(zip(y["ilocs"].array.left,y["ilocs"].array.right))
    tot+=1; flag+=len(exp)>0; adj+=any(exp[i][1]==exp[i+1][0] for i in range(len(exp)-1))
    fitted = hasattr(det,"_is_fitted") and det._is_fitted
    if got!=exp or fitted: bad+=1; print("BAD17", got, exp, fitted)
print("C17 tot",tot,"bad",bad,"flagged",flag,"adjacent",adj)

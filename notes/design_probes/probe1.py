import numpy as np, pandas as pd, warnings, traceback
warnings.filterwarnings("ignore")
from skchange.costs import L2Cost, GaussianVarCost, GaussianCovCost
from skchange.change_scores import CUSUM, ChangeScore
from skchange.anomaly_scores import L2Saving, Saving, LocalAnomalyScore
from skchange.change_detectors import PELT, MovingWindow, SeededBinarySegmentation
from skchange.anomaly_detectors import CAPA, MVCAPA, CircularBinarySegmentation, StatThresholdAnomaliser

def tryit(name, f):
    try:
        r = f()
        print("OK  ", name, "->", repr(r)[:300].replace("\n"," | "))
    except Exception as e:
        print("EXC ", name, "->", type(e).__name__, str(e)[:200])

rng = np.random.default_rng(0)
X = rng.normal(size=(10,2))
# C13: out of bounds cuts
c = L2Cost().fit(X)
tryit("L2 neg cut", lambda: c.evaluate(np.array([[-3, 5]])))
tryit("L2 past end", lambda: c.evaluate(np.array([[3, 12]])))
g = GaussianCovCost().fit(X)
tryit("Cov past end", lambda: g.evaluate(np.array([[3, 14]])))
tryit("Cov neg", lambda: g.evaluate(np.array([[-8, -2]])))
la = LocalAnomalyScore(L2Cost()).fit(X)
tryit("LA past end", lambda: la.evaluate(np.array([[0, 3, 6, 13]])))
# C08 bandwidth = 1
x = np.r_[np.zeros(10), 10*np.ones(10)] + rng.normal(size=20)*0.1
tryit("MW bw=1", lambda: MovingWindow(bandwidth=1).fit(x).predict(x))
tryit("MW bw=2 scores", lambda: MovingWindow(bandwidth=2).fit(x).transform_scores(x).values)
# C07 max_interval_length == 2*msl
tryit("SBS max=2msl", lambda: SeededBinarySegmentation(min_segment_length=5, max_interval_length=10).fit(x).predict(x))
tryit("SBS n=2msl", lambda: SeededBinarySegmentation(min_segment_length=10).fit(x).predict(x))
tryit("SBS tune max=2msl", lambda: SeededBinarySegmentation(min_segment_length=5, max_interval_length=10, threshold_scale=None).fit(x).predict(x))
# C09 msl=1
tryit("CBS msl=1", lambda: CircularBinarySegmentation(min_segment_length=1).fit(x).predict(x))
def f():
    d = CircularBinarySegmentation(min_segment_length=2, max_interval_length=20); d.fit(x).predict(x); return d.scores.head(3)
tryit("CBS scores", f)
# CAPA point anomalies
y = rng.normal(size=30); y[10] = 30
tryit("CAPA point", lambda: CAPA().fit(y).predict(y))
tryit("MVCAPA point", lambda: MVCAPA().fit(y).predict(y))
y0 = rng.normal(size=30); y0[0] = 30
tryit("CAPA point at 0", lambda: CAPA().fit(y0).predict(y0))
# StatThreshold
tryit("STA lower>upper", lambda: StatThresholdAnomaliser(MovingWindow(bandwidth=3), stat_lower=2, stat_upper=1))
tryit("STA ndarray", lambda: StatThresholdAnomaliser(MovingWindow(bandwidth=3)).fit(x).predict(x))
xs = pd.Series(x, index=pd.RangeIndex(100,120))
tryit("STA offset idx", lambda: StatThresholdAnomaliser(MovingWindow(bandwidth=3)).fit(xs).predict(xs))
tryit("STA offset idx transform", lambda: StatThresholdAnomaliser(MovingWindow(bandwidth=3)).fit(xs).transform(xs).values.ravel())
tryit("STA default idx transform", lambda: StatThresholdAnomaliser(MovingWindow(bandwidth=3)).fit(x).transform(pd.Series(x)).values.ravel())
xd = pd.Series(x, index=pd.date_range("2020-01-01", periods=20))
tryit("CAPA datetime transform", lambda: CAPA().fit(xd).transform(xd).values.ravel())
tryit("PELT dense_to_sparse offset", lambda: PELT.dense_to_sparse(PELT(min_segment_length=1).fit(xs).transform(xs)))
tryit("PELT predict offset", lambda: PELT(min_segment_length=1).fit(xs).predict(xs))

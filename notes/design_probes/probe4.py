import numpy as np, warnings
warnings.filterwarnings("ignore")
from skchange.anomaly_detectors.mvcapa import intermediate_mvcapa_penalty, dense_mvcapa_penalty, sparse_mvcapa_penalty, combined_mvcapa_penalty, capa_penalty
bad=0
for n in [2,3,5,17,100,10**4]:
    for p in [1,2,3,6,10]:
        for k in [1,2,3]:
            for s in [0.0, 0.5, 1.0, 2.5]:
                da,db=dense_mvcapa_penalty(n,p,k,s); sa,sb=sparse_mvcapa_penalty(n,p,k,s)
                assert np.isclose(da, s*capa_penalty(n,p*k,1.0)) and np.all(db==0)
                assert np.isclose(sa, s*2*np.log(n)) and np.allclose(sb, s*2*np.log(k*p))
                ca,cb=combined_mvcapa_penalty(n,p,k,s)
                if p>=2:
                    ia,ib=intermediate_mvcapa_penalty(n,p,k,s)
                    ref=np.minimum(da+np.cumsum(db), np.minimum(sa+np.cumsum(sb), ia+np.cumsum(ib)))
                    got=ca+np.cumsum(cb)
                    if not np.allclose(ref,got): bad+=1; print("combined != min", n,p,k,s, ref, got)
                    if ib.min()< -1e-12 or cb.min()<-1e-12: print("decreasing", n,p,k,s,ib,cb)
                else:
                    if not (np.isclose(ca, da) and np.allclose(cb, db)): print("p=1 combined", n,p,k,s,ca,cb,da,db)
print("bad",bad)

import numpy as np, warnings, sys
warnings.filterwarnings("ignore")
from skchange.anomaly_scores import BaseSaving, L2Saving
from skchange.anomaly_detectors.mvcapa import run_base_capa
from skchange.anomaly_detectors import CAPA, MVCAPA

class TableSaving(BaseSaving):
    def __init__(self, table=None, msize=1):
        self.table = table; self.msize=msize
        super().__init__()
    @property
    def min_size(self): return self.msize
    def _fit(self, X, y=None): return self
    def _evaluate(self, cuts):
        return np.array([self.table[s, e] for s, e in cuts], dtype=float)

def subadd_table(rng, n, p, hi=8):
    raw = rng.integers(0, hi, size=(n+1, n+1, p)).astype(float)
    S = np.zeros((n+1, n+1, p))
    for L in range(1, n+1):
        for s in range(0, n-L+1):
            e = s+L
            v = raw[s, e].copy()
            for k in range(s+1, e):
                v = np.minimum(v, S[s,k]+S[k,e])
            S[s,e] = v
    return S

def pen_saving(sv, alpha, betas):
    sv = np.sort(sv)[::-1]
    if len(betas)==1 and len(sv)>1: betas=np.repeat(betas,len(sv))  # CAPA: zeros(1)
    cs = np.cumsum(sv - betas) - alpha
    return cs.max()

def oracle(S, Pt, n, ca, cb, pa, pb, msl, maxl):
    F = np.zeros(n+1)
    for t in range(1, n+1):
        best = F[t-1]
        best = max(best, F[t-1] + pen_saving(Pt[t-1,t], pa, pb))
        for s in range(max(0,t-maxl), t-msl+1):
            best = max(best, F[s] + pen_saving(S[s,t], ca, cb))
        F[t] = best
    return F

rng = np.random.default_rng(int(sys.argv[1]) if len(sys.argv)>1 else 0)
bad=0; tot=0
for it in range(500):
    n = int(rng.integers(2, 14)); p = int(rng.integers(1,4))
    msl = int(rng.integers(2, 5)); maxl = int(rng.integers(msl, n+3))
    if n < msl: continue
    S = subadd_table(rng, n, p); 
    Pt = subadd_table(rng, n, p, hi=12)
    kind = rng.integers(0,3)
    if kind==0:
        ca = float(rng.integers(0,8)); cb = np.zeros(p); pa = float(rng.integers(0,10)); pb=np.zeros(p)
    elif kind==1:
        ca = float(rng.integers(0,5)); cb = np.full(p, float(rng.integers(0,4))); pa=float(rng.integers(0,6)); pb=np.full(p, float(rng.integers(0,4)))
    else:
        ca = float(rng.integers(0,5)); cb = rng.integers(0,4,size=p).astype(float); pa=float(rng.integers(0,6)); pb=rng.integers(0,4,size=p).astype(float)
    cs = TableSaving(S).fit(np.zeros((n,p))); ps = TableSaving(Pt).fit(np.zeros((n,p)))
    try:
        opt, coll, pts = run_base_capa(cs, ps, ca, cb, pa, pb, msl, maxl)
    except Exception as e:
        print("EXC", type(e).__name__, e); bad+=1; continue
    F = oracle(S, Pt, n, ca, cb, pa, pb, msl, maxl)
    tot+=1
    ok = np.allclose(opt, F[1:], atol=1e-9)
    # re-evaluate
    total = sum(pen_saving(S[s,e], ca, cb) for s,e in coll) + sum(pen_saving(Pt[s,e], pa, pb) for s,e in pts)
    ok2 = abs(total - opt[-1]) < 1e-9
    if not (ok and ok2):
        bad+=1
        if bad<=6: print("MISMATCH n",n,"p",p,"msl",msl,"maxl",maxl,"kind",kind,"opt",opt[-1],"oracle",F[-1],"reeval",total,"coll",coll,"pts",pts, "first diff", np.flatnonzero(~np.isclose(opt,F[1:]))[:3])
print("total",tot,"bad",bad)

import numpy as np, pandas as pd, warnings, sys
warnings.filterwarnings("ignore")
from skchange.anomaly_detectors.base import CollectiveAnomalyDetector as CAD, SubsetCollectiveAnomalyDetector as SCAD
from skchange.change_detectors.base import ChangeDetector as CD
from skchange.datasets import generate_changing_data, generate_anomalous_data, generate_alternating_data, add_linspace_outliers
rng=np.random.default_rng(int(sys.argv[1]))
def idx(n):
    k=rng.integers(0,5)
    return [pd.RangeIndex(n), pd.RangeIndex(50,50+n), pd.RangeIndex(-3,-3+2*n,2), pd.date_range("2020-01-01",periods=n,freq="D"), pd.period_range("2020-01",periods=n,freq="M")][k]
bad=0
for it in range(400):
    n=int(rng.integers(1,30)); p=int(rng.integers(1,4))
    # intervals
    cuts=sorted(set(rng.integers(0,n+1,size=rng.integers(0,8)).tolist()))
    ivs=[(cuts[i],cuts[i+1]) for i in range(len(cuts)-1) if rng.random()<0.7]
    index=idx(n); cols=pd.Index([f"x{j}" for j in range(p)]) if rng.random()<0.5 else pd.RangeIndex(p)
    y=CAD._format_sparse_output(ivs); d=CAD.sparse_to_dense(y,index,cols)
    exp=np.zeros(n,int)
    for i,(l,r) in enumerate(ivs): exp[l:r]=i+1
    back=CAD.dense_to_sparse(d)
    ok = d.index.equals(index) and np.array_equal(d["labels"].to_numpy(),exp) and list(zip(back["ilocs"].array.left,back["ilocs"].array.right))==ivs and back["labels"].tolist()==list(range(1,len(ivs)+1))
    sub=[(l,r,sorted(rng.choice(p,size=rng.integers(1,p+1),replace=False).tolist())) for l,r in ivs]
    y2=SCAD._format_sparse_output(sub); d2=SCAD.sparse_to_dense(y2,index,cols); exp2=np.zeros((n,p),int)
    for i,(l,r,c) in enumerate(sub): exp2[l:r,c]=i+1
    b2=SCAD.dense_to_sparse(d2)
    ok2 = d2.index.equals(index) and np.array_equal(d2.to_numpy(),exp2) and [(iv.left,iv.right,sorted(c)) for iv,c in zip(b2["ilocs"],b2["icolumns"])]==sub and list(d2.columns)==[f"labels_{c}" for c in cols]
    cps=sorted(set(rng.integers(1,max(2,n),size=rng.integers(0,5)).tolist())) if n>1 else []
    cps=[c for c in cps if c<n]
    y3=CD._format_sparse_output(cps); d3=CD.sparse_to_dense(y3,index); exp3=np.zeros(n,int)
    for c in cps: exp3[c:]+=1
    b3=CD.dense_to_sparse(d3)
    ok3 = d3.index.equals(index) and np.array_equal(d3["labels"].to_numpy(),exp3) and b3["ilocs"].tolist()==cps
    if not (ok and ok2 and ok3): bad+=1; print("BAD",n,ivs,sub,cps,ok,ok2,ok3, type(index).__name__)
print("C05 static bad",bad)
# C18
bad=0
for it in range(300):
    n=int(rng.integers(1,40)); p=int(rng.integers(1,4)); seed=int(rng.integers(0,1000))
    K=int(rng.integers(0,min(4,n))) ; cps=sorted(rng.choice(np.arange(1,n),size=K,replace=False).tolist()) if n>1 and K>0 else []
    means=[rng.normal(size=p)*3 for _ in range(len(cps)+1)]; vars_=[10**rng.uniform(-1,1,size=p) for _ in range(len(cps)+1)]
    Z=generate_changing_data(n,[],[np.zeros(p)],[np.ones(p)],seed).to_numpy()
    A=generate_changing_data(n,list(cps),means,vars_,seed); A2=generate_changing_data(n,list(cps),means,vars_,seed)
    b=[0]+cps+[n]; exp=Z.copy()
    for i in range(len(b)-1): exp[b[i]:b[i+1]]=means[i]+np.sqrt(vars_[i])*Z[b[i]:b[i+1]]
    ok=A.equals(A2) and A.shape==(n,p) and list(A.index)==list(range(n)) and np.allclose(A.to_numpy(),exp,rtol=1e-12,atol=1e-12)
    # anomalies
    cc=sorted(set(rng.integers(0,n+1,size=6).tolist())); an=[(cc[i],cc[i+1]) for i in range(0,len(cc)-1,2)]
    if an:
        m2=[rng.normal(size=p)*3 for _ in an]; v2=[10**rng.uniform(-1,1,size=p) for _ in an]
        Za=generate_anomalous_data(n,[(0,1)],[np.zeros(p)],[np.ones(p)],seed).to_numpy()
        B=generate_anomalous_data(n,an,m2,v2,seed).to_numpy(); e2=Za.copy()
        for (l,r),m,v in zip(an,m2,v2): e2[l:r]=m+np.sqrt(v)*Za[l:r]
        ok&=np.allclose(B,e2,rtol=1e-12,atol=1e-12) and np.allclose(Za,Z)
    k=int(rng.integers(1,n+1)); size=float(rng.normal()*5)
    df=pd.DataFrame(np.zeros((n,p))); o=add_linspace_outliers(df,k,size).to_numpy()
    rows=np.flatnonzero(np.any(o!=0,axis=1)) if size!=0 else []
    if size!=0:
        ok&= len(rows)==k and np.all(o[rows]==size) and (k<2 or (rows[0]==0 and rows[-1]==n-1)) and (k<3 or np.ptp(np.diff(rows))<=1)
    if not ok: bad+=1; print("BAD18",n,p,cps,an,k)
print("C18 bad",bad)

import numpy as np, pandas as pd, warnings, sys, signal, collections
warnings.filterwarnings("ignore")
from skchange.costs import L2Cost, GaussianVarCost, GaussianCovCost
from skchange.change_scores import CUSUM, ChangeScore
from skchange.anomaly_scores import L2Saving, Saving, LocalAnomalyScore
from skchange.change_detectors import PELT, MovingWindow, SeededBinarySegmentation
from skchange.anomaly_detectors import CAPA, MVCAPA, CircularBinarySegmentation, StatThresholdAnomaliser
class TO(Exception): pass
def h(*a): raise TO()
signal.signal(signal.SIGALRM, h)
rng = np.random.default_rng(int(sys.argv[1]))
def data(n,p):
    kind = rng.integers(0,5)
    if kind==0: X = np.full((n,p), float(rng.choice([0,0.1,1,-3.7])))
    elif kind==1: X = np.round(rng.normal(size=(n,p)))
    else:
        X = rng.normal(size=(n,p))
        if n>2:
          for _ in range(rng.integers(0,3)):
            a=int(rng.integers(0,n)); X[a:, rng.integers(0,p)] += rng.normal()*6
          for _ in range(rng.integers(0,2)):
            X[rng.integers(0,n), rng.integers(0,p)] += 15
    return X
stats = collections.Counter()
def cost_choice(p):
    k = rng.integers(0,4)
    return [None, L2Cost(), GaussianVarCost(), GaussianCovCost()][k], [1,1,2,p+1][k]
for it in range(int(sys.argv[2])):
    det = rng.choice(["PELT","MW","SBS","CAPA","MVCAPA","CBS","STA"])
    p = int(rng.integers(1,4)); 
    try:
        if det=="PELT":
            c, ms = cost_choice(p); msl=int(rng.integers(1,5)); n=int(rng.integers(2*msl, 2*msl+12))
            d = PELT(c, float(rng.choice([0,0.5,2])), msl); cfg=(det,type(c).__name__,msl,n,p); need=ms<=msl
        elif det=="MW":
            c, ms = cost_choice(p); b=int(rng.integers(1,6)); n=int(rng.integers(2*b, 2*b+12))
            mdi = int(rng.integers(1, max(1, b//2-1)+1)); ts = rng.choice([0,1,2,None])
            d = MovingWindow(c, b, ts, float(rng.choice([0.01,0.1,0.4])), mdi); cfg=(det,type(c).__name__,b,n,p,ts,mdi); need=ms<=b
        elif det=="SBS":
            c, ms = cost_choice(p); msl=int(rng.integers(1,5)); n=int(rng.integers(2*msl, 2*msl+14))
            mil=int(rng.integers(2*msl, 2*msl+10)); gf=float(rng.choice([1.01,1.5,2.0])); ts=rng.choice([0,1,2,None])
            d = SeededBinarySegmentation(c, ts, float(rng.choice([0.01,0.1,0.4])), msl, mil, gf); cfg=(det,type(c).__name__,msl,n,p,mil,gf,ts); need=ms<=msl
        elif det=="CBS":
            c, ms = cost_choice(p); msl=int(rng.integers(1,4)); n=int(rng.integers(2*msl, 2*msl+12))
            mil=int(rng.integers(2*msl, 2*msl+8)); gf=float(rng.choice([1.01,1.5,2.0])); ts=rng.choice([0,1,2,None])
            d = CircularBinarySegmentation(c, ts, float(rng.choice([0.01,0.1,0.4])), msl, mil, gf); cfg=(det,type(c).__name__,msl,n,p,mil,gf,ts); need=ms<=msl
        elif det in("CAPA","MVCAPA"):
            msl=int(rng.integers(2,5)); n=int(rng.integers(msl, msl+12)); maxl=int(rng.integers(msl, msl+8))
            k=rng.integers(0,3)
            cs=[None, L2Cost(param=0.0), GaussianVarCost(param=(0.0,1.0))][k]
            if det=="CAPA":
                if rng.random()<0.2: cs=GaussianCovCost(param=(0.0,1.0)); msneed=p+1
                else: msneed=[1,1,2][k]
                d = CAPA(cs, None, float(rng.choice([0,1,2])), float(rng.choice([0,1,2])), msl, maxl, bool(rng.integers(0,2)))
            else:
                msneed=[1,1,2][k]
                pens=["dense","sparse","combined"]+(["intermediate"] if p>=2 else [])
                d = MVCAPA(cs, None, str(rng.choice(pens)), float(rng.choice([0,1,2])), str(rng.choice(["dense","sparse"])), float(rng.choice([0,1,2])), msl, maxl, bool(rng.integers(0,2)))
            cfg=(det,type(cs).__name__,msl,n,p,maxl); need=msneed<=msl
        else:
            p=1; b=int(rng.integers(1,4)); n=int(rng.integers(2*b,2*b+10))
            d = StatThresholdAnomaliser(MovingWindow(bandwidth=b, threshold_scale=float(rng.choice([0,1]))), rng.choice([np.mean,np.median]), -1.0, 1.0); cfg=(det,b,n); need=True
        X = data(n,p)
        signal.alarm(20)
        d.fit(X); y=d.predict(X); d.transform(X)
        signal.alarm(0)
        stats[(det,"ok")]+=1
        if not need: stats[(det,"ok-but-cost-too-short")]+=1
    except TO:
        print("HANG", cfg); stats[(det,"hang")]+=1
    except Exception as e:
        signal.alarm(0)
        kind = type(e).__name__
        allowed = (kind=="ValueError" and not need) or (kind=="RuntimeError" and "positive definite" in str(e))
        stats[(det,kind, "allowed" if allowed else "UNEXPECTED")]+=1
        if not allowed and stats[(det,kind,"UNEXPECTED")]<=3: print("UNEXPECTED", cfg, kind, str(e)[:150])
for k,v in sorted(stats.items(), key=str): print(k,v)

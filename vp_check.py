#!/venv/bin/python
"""Entry point:  vp_check.py <ID> [--tier quick|thorough] [--replay FILE] [--facet NAME ...]

Exit 0: property held on everything explored.  Exit 1: a line
"VIOLATION property=<ID> replay=<path>" was printed.  Exit 2: harness problem.
"""
import argparse
import os
import sys
import warnings

os.environ.setdefault("PYTHONHASHSEED", "0")
for _v in ("OMP_NUM_THREADS", "OPENBLAS_NUM_THREADS", "MKL_NUM_THREADS"):
    os.environ.setdefault(_v, "1")
warnings.filterwarnings("ignore")

sys.path.insert(0, os.path.dirname(os.path.abspath(__file__)))
from framework import core  # noqa: E402


def main():
    ap = argparse.ArgumentParser()
    ap.add_argument("property")
    ap.add_argument("--tier", default=os.environ.get("VERIF_TIER", "quick"),
                    choices=["quick", "thorough"])
    ap.add_argument("--replay")
    ap.add_argument("--facet", action="append")
    ap.add_argument("--scale", type=float, default=1.0,
                    help="multiply the number of generated cases (exploration only)")
    a = ap.parse_args()
    prop = a.property.upper()
    try:
        seed = int(os.environ.get("VERIF_SEED", "1"))
    except ValueError:
        seed = 1
    if a.replay:
        core.prepare_import_path()
        return core.replay_file(prop, a.replay)
    return core.run_property(prop, a.tier, seed, only_facets=a.facet, scale=a.scale)


if __name__ == "__main__":
    try:
        rc = main()
    except SystemExit:
        raise
    except BaseException as e:  # noqa: BLE001
        import traceback
        traceback.print_exc()
        print(f"HARNESS: {type(e).__name__}: {e}")
        rc = 2
    sys.exit(rc)

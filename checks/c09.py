"""C09 - circular binary segmentation reports greedy disjoint above-threshold anomalies."""

import numpy as np
from hypothesis import strategies as st

from checks import common as K
from framework.core import Facet, Violation, sut
from oracles import reference as ref
from strategies import data as D

PROPERTY_ID = "C09"
TECHNIQUE = "Hypothesis-generated settings/scorers/data; brute-force inner-interval argmax via an independent scorer instance + set-valued greedy overlap model on the reported table; metamorphic threshold monotonicity"
ASSUMPTIONS = [
    "greedy oracle = set of all outcomes reachable by any tie-break (DFS capped at 2000 nodes; beyond the cap only support and disjointness are asserted)",
    "thresholds >= 0 only (negative tuned thresholds counted and excluded)",
    "candidate intervals that admit no inner interval must keep score 0 and never yield an anomaly",
]

SCORERS = [None, {"cls": "L2Cost"}, {"cls": "LocalAnomalyScore", "cost": {"cls": "L2Cost"}}, {"cls": "GaussianVarCost"},
           {"cls": "L1Cost"}, "function", "table", {"cls": "GaussianCovCost"}, {"cls": "SecondMomentLocalScore"},
           {"cls": "SeriesScaledLocalScore"}]


def oracle_spec(spec):
    if spec is None:
        return {"cls": "LocalAnomalyScore", "cost": {"cls": "L2Cost"}}
    if spec["cls"] in ("L2Cost", "GaussianVarCost", "GaussianCovCost", "L1Cost"):
        return {"cls": "LocalAnomalyScore", "cost": spec}
    return spec


@st.composite
def cases(draw, tier):
    sc = draw(st.sampled_from(SCORERS))
    p = draw(st.integers(1, 2))
    bulk = None  # the bulk draws (table, data) come last: see strategies/data.py
    unit = 1.0
    if sc == "table":
        msl = draw(st.integers(1, 2))
        n = draw(st.integers(2 * msl, 8))
        bulk = "table"
        sc = {"cls": "TableLocalAnomalyScore", "table": None}
        X = [[0.0] * p for _ in range(n)]
    else:
        ms = 1 if sc == "function" else K.scorer_min_size(sc, p)
        msl = draw(st.integers(ms, ms + 3))
        nmax = 22 if tier == "quick" else 30
        n = D.weighted(draw, [(7, st.integers(2 * msl, max(2 * msl, nmax))), (2, st.integers(2 * msl, 2 * msl + 3)), (1, st.just(2 * msl))])
        if sc == "function" and draw(st.integers(0, 11)) == 0:
            # long series: candidates with tens of thousands of inner intervals (cheap for a function score)
            msl = draw(st.integers(1, 4))
            n = draw(st.integers(150, 240))
        if sc == "function":
            # long series: a large modulus, so that the maximum over ~20 000 inner intervals is (nearly) unique
            moduli = [100003, 10007, 1009] if n >= 150 else [2, 3, 5, 7, 101, 1009]
            sc = {"cls": "FunctionLocalAnomalyScore", "key": draw(st.integers(0, 1000)), "modulus": draw(st.sampled_from(moduli)),
                  "offset": draw(st.sampled_from([0, 0, 1, 2])), "ncols": draw(st.sampled_from([1, 1, 2, 3])),
                  "int_output": draw(st.integers(0, 2)) == 0}
            X = [[0.0] * p for _ in range(n)]
        else:
            bulk = "matrix"
            unit = draw(st.sampled_from([1.0, 1.0, 1.0, 1e-3, 1e-6, 1e3]))
            if draw(st.integers(0, 9)) == 0:
                unit = "float32"  # single-precision readings on a level of 1000
            if isinstance(sc, dict) and sc["cls"].startswith("SecondMoment") and draw(st.integers(0, 2)) == 0:
                unit = "level_9e9"  # readings of a 9.19 GHz standard: a huge level, which this user score depends on
    mil = D.weighted(draw, [(6, st.integers(2 * msl, 2 * msl + 14)), (2, st.just(2 * msl)), (1, st.just(1000))])
    long_series = n >= 150
    scale = draw(st.sampled_from([0.5, 0.0, 0.2, 1.0, 2.0, None]))
    if isinstance(sc, dict) and sc["cls"].startswith(("Table", "Function")) and scale is not None:
        scale = draw(st.sampled_from([0.1, 0.0, 0.05, 0.2, 0.3]))
    growth = draw(K.growth_strategy)
    if long_series:
        # few, long candidates (the pure-Python candidate enumeration is quadratic in the candidate length)
        mil, growth = 1000, draw(st.sampled_from([2.0, 1.5]))
    case = {"params": {"anomaly_score": sc, "threshold_scale": scale, "level": draw(K.level_strategy),
                       "min_segment_length": msl, "max_interval_length": mil,
                       "growth_factor": growth},
            "X": None, "scale2": draw(st.floats(1.0, 3.0)),
            "n_train": None if long_series else draw(st.sampled_from([None, None, "shorter", "longer", "same_buffer", "fewer_columns", "more_columns"])),
            "dup_col": draw(st.integers(0, 5)) == 0,  # a channel stored twice (two identical columns)
            "history": None if long_series else draw(st.sampled_from(K.HISTORIES))}
    if bulk == "table":
        m = (n + 1) ** 4
        flat = draw(st.lists(st.integers(-2, 4), min_size=m, max_size=m))
        sc["table"] = np.asarray(flat).reshape((n + 1,) * 4).tolist()
    elif bulk == "matrix":
        cov = isinstance(sc, dict) and "GaussianCovCost" in str(sc)
        X, _ = draw(D.structured_matrix(n, p, boundary_positions=(1, msl, n - msl, n - 2), max_shifts=1,
                                        **({"exact": False, "min_noise_scale": 0.5} if cov else {})))
        if unit == "float32":
            X = [[float(np.float32(v + 1000.0)) for v in row] for row in X]
            case["as_float32"] = True
            case["n_train"], case["history"] = None, None
        elif unit == "level_9e9":
            X = [[v + 9.19e9 for v in row] for row in X]
        elif unit != 1.0:
            X = [[v * unit for v in row] for row in X]
    if case.pop("dup_col") and bulk == "matrix" and p >= 2 and not cov and unit not in ("float32", "level_9e9"):
        X = [[row[0]] + list(row[:-1]) for row in X]
    case["X"] = X
    return case


def inner_intervals(s, e, msl):
    """All (a, b) with s < a, b < e, b - a >= msl and (a - s) + (e - b) >= msl, in lexicographic order."""
    out = []
    for a in range(s + 1, e):
        hi = min(e - 1, e - msl + (a - s))
        out.extend((a, b) for b in range(a + msl, hi + 1))
    return out


def inner_interval_arrays(s, e, msl):
    """Vectorised form of inner_intervals: arrays (A, B) in the same lexicographic order."""
    a = np.arange(s + 1, e)
    lo = a + msl
    hi = np.minimum(e - 1, e - msl + (a - s))
    cnt = np.maximum(hi - lo + 1, 0)
    if cnt.sum() == 0:
        return np.zeros(0, dtype=np.int64), np.zeros(0, dtype=np.int64)
    A = np.repeat(a, cnt)
    offs = np.arange(cnt.sum()) - np.repeat(np.cumsum(cnt) - cnt, cnt)
    return A.astype(np.int64), (np.repeat(lo, cnt) + offs).astype(np.int64)


def check(case):
    params = case["params"]
    X = np.asarray(case["X"], dtype=float)
    n, p = X.shape
    msl, mil = params["min_segment_length"], params["max_interval_length"]
    from checks.c07 import training_data
    Xtrain = training_data(X, case.get("n_train") if n <= 16 else (None if case.get("n_train") == "longer" else case.get("n_train")), 2 * msl, params["anomaly_score"])
    Xpred = X
    if case.get("n_train") == "same_buffer":
        Xtrain = Xtrain.copy()
        Xpred = Xtrain
    history = case.get("history") if case.get("n_train") != "same_buffer" else None
    if case.get("as_float32"):
        Xtrain = Xpred = X.astype(np.float32)  # the detector gets single precision, the reference the same numbers as float64
    if K.rejects_other_width(lambda: K.build(K.detector_spec("CircularBinarySegmentation", params)), Xtrain, Xpred):
        return {"nontrivial": False, "classes": ["other_number_of_columns_rejected"]}
    try:
        return _check(case, params, X, n, p, msl, mil, Xtrain, Xpred, history)
    except RecursionError:
        raise  # never a documented outcome (and a subclass of RuntimeError)
    except RuntimeError as e:
        if "positive definite" in str(e) and "GaussianCovCost" in str(params["anomaly_score"]):
            return {"nontrivial": False, "classes": ["not_pd_error_accepted"]}
        raise Violation(f"unexpected RuntimeError: {e}")


def _check(case, params, X, n, p, msl, mil, Xtrain, Xpred, history):
    with sut("CircularBinarySegmentation.fit/predict", allowed=(RuntimeError,)):
        spec_ = K.detector_spec("CircularBinarySegmentation", params)
        det = K.build_with_history(spec_, Xtrain, history)
        if history == "scorer_prefit_wide" and not K.prefit_scorer_wide(det, Xtrain):
            history = None
        det.fit(Xtrain)
        if Xpred is Xtrain:
            Xtrain[:] = X
        if history in ("used_buffer_array", "used_buffer_frame"):
            Xpred = K.used_buffer(det, X, history.endswith("frame"))
        elif history and history.startswith("predicted_on"):
            K.related_predict(det, Xpred, history)
        y = det.predict(Xpred)
        table = det.scores
        thr = float(det.threshold_)
    kind, events = K.sparse_events(y)
    cols = ["interval_start", "interval_end", "argmax_anomaly_start", "argmax_anomaly_end", "score"]
    for c in cols:
        if c not in table.columns:
            raise Violation("scores table lacks a documented column", column=c, columns=list(table.columns))
    starts = table["interval_start"].to_numpy().astype(int)
    ends = table["interval_end"].to_numpy().astype(int)
    a0 = table["argmax_anomaly_start"].to_numpy().astype(int)
    b0 = table["argmax_anomaly_end"].to_numpy().astype(int)
    sc = table["score"].to_numpy().astype(float)
    if len(table) == 0:
        raise Violation("no candidate interval although n >= 2*min_segment_length", n=n, msl=msl, mil=mil)
    lens = ends - starts
    bad = (starts < 0) | (ends > n) | (lens < 2 * msl) | (lens > min(mil, n))
    if np.any(bad):
        i = int(np.argmax(bad))
        raise Violation("candidate interval outside [0,n] or with length outside [2*msl, min(max_interval_length, n)]",
                        interval=[int(starts[i]), int(ends[i])], n=n, msl=msl, mil=mil)
    oracle = K.build(oracle_spec(params["anomaly_score"])).fit(X)
    has_inner = np.zeros(len(table), dtype=bool)
    ties = False
    for i in range(len(table)):
        s, e = int(starts[i]), int(ends[i])
        A, B = inner_interval_arrays(s, e, msl)
        if A.size == 0:
            if sc[i] != 0:
                raise Violation("candidate without any admissible inner interval has a non-zero score",
                                interval=[s, e], score=float(sc[i]))
            continue
        has_inner[i] = True
        cuts = np.column_stack((np.full(A.size, s), A, B, np.full(A.size, e)))
        vals = np.asarray(oracle.evaluate(cuts)).sum(axis=1)
        top = float(vals.max())
        tol = 1e-9 * (abs(top) + K.score_magnitude(params["anomaly_score"], X, e - s, default="L2Cost"))
        if abs(sc[i] - top) > tol:
            raise Violation("candidate score is not the maximum of the column-summed local anomaly score over inner intervals",
                            interval=[s, e], reported=float(sc[i]), maximum=top)
        a_, b_ = int(a0[i]), int(b0[i])
        admissible = s < a_ and b_ < e and b_ - a_ >= msl and (a_ - s) + (e - b_) >= msl
        if not admissible:
            raise Violation("reported inner interval is not admissible (strictly inside, length >= msl, surroundings >= msl)",
                            interval=[s, e], inner=[a_, b_], msl=msl)
        v = float(vals[np.flatnonzero((A == a_) & (B == b_))[0]])
        if v < top - tol:
            raise Violation("reported inner interval does not attain the candidate's maximum", interval=[s, e],
                            inner=[a_, b_], value=v, maximum=top)
        if np.sum(vals >= top - tol) > 1:
            ties = True
    classes = []
    if thr < 0:
        return {"nontrivial": False, "classes": ["negative_tuned_threshold_excluded"]}
    prev = 0
    for a, b in events:
        if a < prev or b <= a:
            raise Violation("anomalies are not sorted, disjoint and non-empty", anomalies=events)
        prev = b
    sel_scores = np.where(has_inner, sc, -np.inf)
    outcomes, complete = ref.circular_greedy_outcomes(starts, ends, sel_scores, a0, b0, thr)
    got = frozenset(events)
    if complete and got not in outcomes:
        raise Violation("reported anomalies are not an outcome of the greedy disjoint above-threshold selection",
                        reported=[list(e) for e in events], greedy_outcomes=[sorted(map(list, o)) for o in list(outcomes)[:5]],
                        threshold=thr)
    above = has_inner & (sc > thr)
    for a, b in events:
        if not np.any(above & (a0 == a) & (b0 == b)):
            raise Violation("anomaly is not the inner interval of any candidate scoring above the threshold", anomaly=[a, b])
    if params["threshold_scale"] is not None and params["threshold_scale"] > 0:
        p2 = dict(params, threshold_scale=params["threshold_scale"] * case["scale2"])
        with sut("CircularBinarySegmentation (larger threshold)"):
            y2 = K.build(K.detector_spec("CircularBinarySegmentation", p2)).fit(Xtrain).predict(X)
        _, e2 = K.sparse_events(y2)
        if not set(e2) <= set(events):
            raise Violation("raising the threshold added an anomaly", lower=[list(e) for e in events],
                            higher=[list(e) for e in e2])
        if len(e2) < len(events):
            classes.append("threshold_removed_some")
    if len(Xtrain) != n:
        classes.append("fitted_on_other_length")
    if Xtrain.shape[1] != p:
        classes.append("fitted_on_other_number_of_columns")
    if p >= 2 and np.array_equal(X[:, 0], X[:, 1]) and np.ptp(X[:, 0]) > 0:
        classes.append("duplicated_column")
    if history:
        classes.append(f"history={history}")
    if n >= 150:
        classes.append("long_series")
    if msl == 1:
        classes.append("msl=1")
    if ties:
        classes.append("ties")
    if events:
        classes.append("has_anomaly")
    if not np.all(has_inner):
        classes.append("candidate_free_interval")
    if not complete:
        classes.append("greedy_dfs_capped")
    sname = params["anomaly_score"]["cls"] if params["anomaly_score"] else "default"
    classes.append(f"scorer={sname}")
    return {"nontrivial": bool(events), "classes": classes}


# ------------------------------------------------------------------ default settings on realistic series


def default_cells(tier):
    """The detector with its DEFAULT hyper-parameters (optionally one of them changed) on realistic series of 100-400 samples
    (strategies.data.realistic_series; deterministic function of the stored seed)."""
    base = {"anomaly_score": None, "threshold_scale": 2.0, "level": 1e-8, "min_segment_length": 5, "max_interval_length": 1000, "growth_factor": 1.5}
    variants = ({}, {"max_interval_length": 100}, {"threshold_scale": None, "level": 0.01, "max_interval_length": 100}, {"growth_factor": 2.0},
                {"threshold_scale": 1.0, "max_interval_length": 60})
    for seed in range(8 if tier == "quick" else 16):
        for n in ((60, 110) if tier == "quick" else (60, 110, 160, 220)):
            for v in variants[: 2 if tier == "quick" else 5]:
                yield {"seed": 24000 + seed, "n": n + seed, "p": 1 + seed % 2, "params": dict(base, **v)}


def check_default(case):
    X, kind = D.realistic_series(case["seed"], case["n"], case["p"])
    info = check({"params": case["params"], "X": X, "scale2": 1.5, "n_train": None, "history": None})
    info["classes"] = list(info["classes"]) + [f"data={kind}"]
    return info


# ------------------------------------------------------------------ fine interval grids: the same candidate twice


def fine_grid_cells(tier):
    """Growth factors of 1.1-1.25 with max_interval_length >= n give a fine grid of candidate lengths in which a candidate that is
    cut off by the end of the series coincides with one of a shorter length group: the candidate list then holds the same interval
    twice (whether it does is counted, from the reported table). Data: seeded noise, a strong excursion and a weaker, shorter one
    between it and the very end of the series - once the strong one is taken, only the short candidates at the end remain."""
    settings = [(2, 1.2, 21), (2, 1.25, 23), (1, 1.15, 24), (2, 1.15, 25), (3, 1.1, 25), (1, 1.1, 26), (2, 1.1, 27), (3, 1.1, 28),
                (1, 1.25, 27), (2, 1.2, 27), (1, 1.15, 28), (2, 1.25, 29)]
    if tier != "quick":
        settings += [(1, 1.1, 30), (2, 1.1, 31), (3, 1.15, 33), (2, 1.07, 34), (1, 1.2, 35), (3, 1.1, 36)]
    i = 0
    for msl, g, n in settings:
        for gap_end in (1, 2):
            for weak_len in (msl, msl + 1):
                for scale in (1.0, 0.5):
                    i += 1
                    yield {"n": n, "seed": 9500 + i, "gap_end": gap_end, "weak_len": weak_len,
                           "params": {"anomaly_score": {"cls": "L2Cost"}, "threshold_scale": scale, "level": 0.01, "min_segment_length": msl,
                                      "max_interval_length": 1000, "growth_factor": g}}


def check_fine_grid(case):
    n = case["n"]
    msl = case["params"]["min_segment_length"]
    rng = np.random.Generator(np.random.PCG64(case["seed"]))
    X = rng.standard_normal((n, 1)) * 0.3
    # the candidate list does not depend on the data: read it from a first run on the noise and place the excursions by it
    with sut("CircularBinarySegmentation.fit/predict (fine grid, noise)"):
        det = K.build(K.detector_spec("CircularBinarySegmentation", case["params"])).fit(X)
        det.predict(X)
    pairs = list(zip(det.scores["interval_start"].tolist(), det.scores["interval_end"].tolist()))
    twice = sorted({q for q in pairs if pairs.count(q) > 1 and q[1] == n and n - 1 - q[0] - max(1, msl - 1) >= msl and q[0] >= 5})
    if twice:
        # the weaker excursion fits strictly inside the duplicated candidate [s, n) only; the strong one ends where that candidate starts
        s_ = twice[case["seed"] % len(twice)][0]
        a2, b2 = s_ + max(1, msl - 1), n - 1
        a1, b1 = s_ - 4, s_
    else:
        b2 = n - case["gap_end"]
        a2 = b2 - case["weak_len"]
        b1 = a2 - 1 - case["seed"] % 2
        a1 = b1 - 3 - case["seed"] % 3
    X[a1:b1, 0] += 9.0
    X[a2:b2, 0] += 4.0 + (case["seed"] % 4)
    info = check({"params": case["params"], "X": X, "scale2": 1.5, "n_train": None, "history": None})
    with sut("CircularBinarySegmentation.fit/predict (fine grid)"):
        y = K.build(K.detector_spec("CircularBinarySegmentation", case["params"])).fit(X).predict(X)
    info["classes"] = list(info["classes"]) + (["weak_excursion_inside_a_duplicated_candidate"] if twice else ["no_suitable_duplicated_candidate"]) + \
        [f"anomalies={min(len(y), 3)}"]
    info["nontrivial"] = bool(twice) and len(y) >= 2
    return info


# ------------------------------------------------------------------ very many anomalies


def many_cells(tier):
    """Thousands of samples with more than a thousand reported anomalies whose strengths decay along the series (a damped,
    ringing signal): the greedy selection runs for > 1000 rounds. Deterministic data (decaying one-sample bursts + seeded noise)."""
    cells = [(3902, 3, 1, 6, 0.999), (5000, 4, 1, 8, 1.0005)]
    if tier != "quick":
        cells += [(12000, 3, 1, 6, 0.9997), (9000, 5, 2, 10, 0.9995)]
    for i, (n, every, msl, mil, decay) in enumerate(cells):
        yield {"n": n, "every": every, "decay": decay, "seed": 9000 + i,
               "params": {"anomaly_score": {"cls": "L2Cost"}, "threshold_scale": 0.001, "level": 0.01, "min_segment_length": msl,
                          "max_interval_length": mil, "growth_factor": 2.0}}


def check_many(case):
    n = case["n"]
    rng = np.random.Generator(np.random.PCG64(case["seed"]))
    X = rng.standard_normal((n, 1)) * 0.001
    k = 0
    for t in range(1, n - 1, case["every"]):
        X[t, 0] += 50.0 * case["decay"] ** k
        k += 1
    info = check({"params": case["params"], "X": X, "scale2": 1.5, "n_train": None, "history": None})
    with sut("CircularBinarySegmentation.fit/predict (many anomalies)"):
        n_anom = len(K.build(K.detector_spec("CircularBinarySegmentation", case["params"])).fit(X).predict(X))
    info["classes"] = [c for c in info["classes"] if not c.startswith("scorer=")] + [f"anomalies>={n_anom // 500 * 500}"]
    info["nontrivial"] = n_anom >= 1000
    return info


FACETS = [
    Facet(name="fine_interval_grid", kind="enumerate", enumerate=fine_grid_cells, check=check_fine_grid, exhaustive=True,
          rule=("CircularBinarySegmentation (L2 local score) with growth factors 1.07-1.25 and max_interval_length 1000 on series of 21-36 samples, "
                "settings whose candidate list holds the same interval twice (a candidate cut off by the end of the series coincides with one of a "
                "shorter length group); seeded noise with a strong excursion and a weaker, shorter one between it and the end of the series; same "
                "reference as circular_binseg; non-trivial = the reported table holds a duplicated candidate and >= 2 anomalies are reported"),
          shards_quick=8, shards_thorough=8, max_samples=2),
    Facet(name="circular_binseg", check=check, strategy=cases,
          rule=("n in [2msl,30], msl from the scorer's minimum size, max_interval_length in [2msl, 2msl+14] or 1000, growth factor "
                "in (1,2], threshold scales {0,.2,.5,1,2,None}; local scores from L2 / GaussianVar / GaussianCov / user L1 costs on structured "
                "data in small / large units and integer Table/Function local scores (ties; long series 150-240 with a function score); detector optionally fitted on other data (shorter / longer / the same buffer refilled afterwards) and optionally with a past (scorer pre-fitted on wider data; earlier predict on the caller's array / frame, then refilled in place); "
                "non-trivial = >= 1 anomaly"),
          n_quick=480, n_thorough=6000, shards_quick=16, shards_thorough=16),
    Facet(name="default_settings", kind="enumerate", enumerate=default_cells, check=check_default, exhaustive=True, time_limit=900,
          rule=("CircularBinarySegmentation with its default hyper-parameters (L2 local score, msl 5, max_interval_length 1000, growth 1.5, scale 2; "
                "variants: max_interval_length 100 / 60, tuned threshold, growth 2, scale 1) on realistic series of 60-220 samples (seeded); same "
                "per-candidate and greedy models; 32 cells (thorough: 320), non-trivial = >= 1 anomaly"),
          shards_quick=16, shards_thorough=16, max_samples=1),
    Facet(name="many_anomalies", kind="enumerate", enumerate=many_cells, check=check_many, exhaustive=True, time_limit=600,
          rule=("series of 3902 / 5000 samples (thorough: up to 12000) with a decaying burst every 3-5 samples: more than 1000 reported "
                "anomalies, i.e. > 1000 rounds of the greedy selection; same per-candidate and greedy models; non-trivial = >= 1000 anomalies"),
          shards_quick=2, shards_thorough=4, max_samples=1),
]

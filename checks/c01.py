"""C01 - cost values equal their definition on every admissible interval."""

import numpy as np
from hypothesis import strategies as st

from framework.core import Facet, Violation, sut
from oracles import reference as ref
from strategies import data as D

PROPERTY_ID = "C01"
TECHNIQUE = "Hypothesis-generated data/parameters/interval batches vs. definitional recomputation in long double with an enclosure error model"
ASSUMPTIONS = [
    "rounding-error model: second-moment quantities from prefix sums are accurate to B = 32 (N+1)^2 eps M^2 (DESIGN.md 3.4)",
    "multivariate Gaussian: slices whose sample covariance has condition number > 1e10 are classified ill-conditioned (error or any finite value accepted); a slice with an exactly constant small-integer column must raise the documented error",
    "data of moderate dynamic range: |x| <= 1e3 (generic) or small integers / dyadic rationals (exact)",
]

COSTS = ["L2Cost", "GaussianVarCost", "GaussianCovCost"]


def min_size_of(cost, p):
    return {"L2Cost": 1, "GaussianVarCost": 2, "GaussianCovCost": p + 1}[cost]


def _typed(v, as_int):
    """A fixed parameter may be written as a Python int / an integer array when its value is integral."""
    if not as_int:
        return float(v) if not isinstance(v, list) else np.asarray(v, dtype=float)
    if as_int == "narrow":
        # the narrowest signed NumPy integer type that holds the values (a baseline read off an int8 / int16 recording): their
        # squares do not fit that type (D33)
        a = np.asarray(v, dtype=float)
        if np.all(a == np.round(a)):
            dt = np.int8 if np.abs(a).max() <= 127 else np.int16
            return a.astype(dt) if isinstance(v, list) else dt(int(v))
        return a if isinstance(v, list) else float(v)
    if isinstance(v, list):
        a = np.asarray(v, dtype=float)
        return a.astype(np.int64) if np.all(a == np.round(a)) else a
    return int(v) if float(v).is_integer() else float(v)


def build_param(cost, param):
    if param is None:
        return None
    if param.get("int_typed"):
        m = _typed(param["mean"], param["int_typed"])
        if cost == "L2Cost":
            return m
        second = param["var"] if cost == "GaussianVarCost" else param["cov"]
        return (m, _typed(second, param["int_typed"] if cost == "GaussianVarCost" else True))
    if cost == "L2Cost":
        m = param["mean"]
        return float(m) if not isinstance(m, list) else np.asarray(m, dtype=float)
    m = param["mean"]
    m = float(m) if not isinstance(m, list) else np.asarray(m, dtype=float)
    if cost == "GaussianVarCost":
        v = param["var"]
        v = float(v) if not isinstance(v, list) else np.asarray(v, dtype=float)
        return (m, v)
    c = param["cov"]
    c = float(c) if not isinstance(c, list) else np.asarray(c, dtype=float)
    return (m, c)


def build_cost(cost, param):
    from skchange import costs

    return getattr(costs, cost)(build_param(cost, param))


@st.composite
def fixed_param(draw, cost, p):
    def scalar_or_vec(elem):
        if draw(st.booleans()):
            return draw(elem)
        return [draw(elem) for _ in range(p)]

    # moderate dynamic range (section 3.1): 0 or 1e-3 <= |mean| <= 10 - never the subnormal-squared region
    mean_elem = st.one_of(st.integers(-5, 5).map(float), D.generic_float(10.0, 1e-3))
    param = {"mean": scalar_or_vec(mean_elem), "int_typed": draw(st.sampled_from([False, False, True, "narrow"]))}
    if param["int_typed"]:
        # integral values written as Python ints / integer arrays: mean 1, variance 2, covariance [[2,1],[1,3]]
        param["mean"] = scalar_or_vec(st.integers(-5, 5).map(float))
    if param["int_typed"] == "narrow":
        param["mean"] = scalar_or_vec(st.sampled_from([12.0, -15.0, 100.0, 300.0, -200.0, 3.0]))
    if cost == "GaussianVarCost":
        param["var"] = scalar_or_vec(st.sampled_from([2.0, 1.0, 3.0, 4.0, 100.0])) if param["int_typed"] else \
            scalar_or_vec(st.one_of(st.sampled_from([1.0, 0.5, 0.01, 4.0, 100.0, 1e-6, 1e-9, 1e4]),
                                    st.floats(1e-2, 1e2, allow_nan=False)))
    elif cost == "GaussianCovCost":
        # any positive-definite covariance: also small / large overall scales (eigenvalues stay far above 1e-16)
        scale = 1.0 if param["int_typed"] else draw(st.sampled_from([1.0, 1.0, 1e-4, 1e-9, 1e3]))
        if draw(st.booleans()):
            param["cov"] = draw(st.sampled_from([2.0, 1.0, 3.0, 50.0] if param["int_typed"] else [1.0, 0.25, 3.0, 50.0])) * scale
        else:
            A = [[draw(st.integers(-3, 3)) for _ in range(p)] for _ in range(p)]
            c = draw(st.sampled_from([1.0, 2.0] if param["int_typed"] else [0.5, 1.0, 2.0]))
            A = np.asarray(A, dtype=float)
            param["cov"] = ((A @ A.T + c * np.eye(p)) * scale).tolist()
    if p >= 2 and not param["int_typed"] and draw(st.integers(0, 3)) == 0:
        # per-column parameters whose entries are arithmetically related although none of them is the standard value: balanced
        # contrasts (means summing to exactly 0), variances / a diagonal covariance multiplying to exactly 1 (powers of two)
        half = [draw(st.sampled_from([1.0, 0.5, 2.0, 3.0, 0.25])) for _ in range(p // 2)]
        means = half + [-v for v in half] + [0.0] * (p % 2)
        param["mean"] = list(draw(st.permutations(means))) if draw(st.booleans()) else (0.0 if draw(st.booleans()) else param["mean"])
        exps = [draw(st.integers(-3, 3)) for _ in range(p - 1)]
        exps.append(-sum(exps))
        powers = [2.0 ** e for e in exps]
        if cost == "GaussianVarCost" and draw(st.integers(0, 3)) > 0:
            param["var"] = powers
        elif cost == "GaussianCovCost" and draw(st.integers(0, 3)) > 0:
            param["cov"] = np.diag(powers).tolist()
        param["related_entries"] = True
    return param


@st.composite
def intervals(draw, n, ms, max_batch=16):
    if n <= 8 and draw(st.booleans()):
        return [[s, e] for s in range(n + 1) for e in range(s + ms, n + 1)]
    k = draw(st.integers(1, max_batch))
    out = []
    for _ in range(k):
        s = draw(st.integers(0, n - ms))
        e = draw(st.integers(s + ms, n))
        out.append([s, e])
    return out


@st.composite
def value_cases(draw, tier):
    cost = draw(st.sampled_from(COSTS))
    p = draw(st.integers(1, 4))
    ms = min_size_of(cost, p)
    nmax = 40 if tier == "quick" else 120
    n = D.weighted(draw, [(2, st.integers(ms, ms + 4)), (5, st.integers(ms, 24)), (3, st.integers(ms, nmax))])
    dup = draw(st.integers(1, p - 1)) if p > 1 and draw(st.integers(0, 7)) == 0 else None  # duplicated column
    mode = draw(st.sampled_from(["optimal", "fixed"]))
    param = draw(fixed_param(cost, p)) if mode == "fixed" else None
    cuts = draw(intervals(n, ms))
    # another object of the same class, fitted on other data of the same shape, is alive and used in between
    bystander = draw(st.sampled_from([None, None, "fitted_before", "fitted_after"]))
    col_affine = None
    if p >= 2 and cost != "GaussianCovCost" and dup is None and draw(st.integers(0, 4)) == 0:
        # columns in mixed units: a large one (1e5 level, unit 10..1e3) somewhere, the others small (unit 1e-3..1)
        big = draw(st.integers(0, p - 1))
        col_affine = {"scale": [draw(st.sampled_from([10.0, 1e3])) if j == big else draw(st.sampled_from([1e-3, 1.0, 0.05])) for j in range(p)],
                      "level": [draw(st.sampled_from([101325.0, 1e5, 3e6])) if j == big else draw(st.sampled_from([0.0, 0.5])) for j in range(p)]}
    X = draw(D.any_matrix(n, p))  # bulk data last (see strategies/data.py)
    if dup is not None:
        for row in X:
            row[dup] = row[0]
    return {"cost": cost, "param": param, "X": X, "cuts": cuts, "bystander": bystander, "col_affine": col_affine}


def expected_row(cost, param, X, s, e, n_fit, M):
    """Returns ('interval', lo, hi) per column, ('illcond',), or ('must_raise',)."""
    rows = X[s:e]
    p = X.shape[1]
    if cost in ("L2Cost", "GaussianVarCost"):
        # per-column costs: the rounding error of a column depends on the magnitude of THAT column (a recording may hold a
        # pressure in Pa next to a displacement in mm)
        M = np.maximum(np.max(np.abs(X), axis=0), 1e-300)
    if cost == "L2Cost":
        mean = None if param is None else param["mean"]
        Mm = M if mean is None else np.maximum(M, np.abs(np.broadcast_to(np.asarray(mean, dtype=float).reshape(-1), (p,))))
        B = ref.error_bound(n_fit, Mm)
        v = ref.l2_cost_direct(rows, mean)
        return ("interval", v - B - 1e-12 * np.abs(v), v + B + 1e-12 * np.abs(v))
    if cost == "GaussianVarCost":
        pr = None if param is None else (param["mean"], param["var"])
        lo, hi = ref.gaussian_var_cost_enclosure(rows, n_fit, M, pr)
        return ("interval", lo, hi)
    # GaussianCovCost
    n = e - s
    if param is None:
        val, info = ref.gaussian_cov_cost_direct(rows, None)
        const_int_col = any(
            np.all(rows[:, j] == rows[0, j]) and float(rows[0, j]).is_integer() and abs(rows[0, j]) <= 2 ** 20
            for j in range(p)
        )
        if const_int_col:
            return ("must_raise",)
        if val is None or not np.isfinite(info["cond"]) or info["cond"] > 1e10 or info["min_diag"] <= 0:
            return ("illcond",)
        tol = 1e-9 * (1 + abs(val)) + n * p * info["cond"] * ref.EPS * 1e3 * (1 + M * M / info["min_diag"])
        return ("interval", np.array([val - tol]), np.array([val + tol]))
    val, info = ref.gaussian_cov_cost_direct(rows, (param["mean"], param["cov"]))
    mean = np.asarray(param["mean"], dtype=float)
    Mm = max(M, float(np.max(np.abs(mean))))
    quad_scale = n * p * (2 * Mm) ** 2 / max(info["min_diag"], 1e-300)
    tol = 1e-9 * (1 + abs(val)) + 1e3 * ref.EPS * info["cond"] * (quad_scale + 1)
    return ("interval", np.array([val - tol]), np.array([val + tol]))


def check_values(case):
    cost, param = case["cost"], case["param"]
    X = np.asarray(case["X"], dtype=float)
    n, p = X.shape
    if case.get("col_affine"):  # columns in different units and on different levels
        X = X * np.asarray(case["col_affine"]["scale"], dtype=float) + np.asarray(case["col_affine"]["level"], dtype=float)
    M = float(np.max(np.abs(X))) if case.get("col_affine") else D.max_abs(case["X"])
    cuts = np.asarray(case["cuts"], dtype=np.int64)
    bystander = case.get("bystander")
    with sut(f"{cost}.fit"):
        other = None
        if bystander == "fitted_before":
            other = build_cost(cost, param).fit(X[::-1] * 0.75 + 0.5)
        scorer = build_cost(cost, param).fit(X)
        if bystander == "fitted_after":
            other = build_cost(cost, param).fit(X[::-1] * 0.75 + 0.5)
    if other is not None:
        try:
            other.evaluate(cuts)  # the same intervals of the other object's data
        except RuntimeError:
            pass
    expected = [expected_row(cost, param, X, int(s), int(e), n, M) for s, e in cuts]
    must_raise = [i for i, ex in enumerate(expected) if ex[0] == "must_raise"]
    may_raise = [i for i, ex in enumerate(expected) if ex[0] == "illcond"]
    classes = [f"cost={cost}", "mode=" + ("optimal" if param is None else "fixed"), f"p={p}"] + \
        ([f"bystander_{bystander}"] if bystander else [])
    try:
        with sut(f"{cost}.evaluate", allowed=(RuntimeError,)):
            out = scorer.evaluate(cuts)
    except RuntimeError as e:
        if (must_raise or may_raise) and "positive definite" in str(e):
            classes.append("not_pd_error")
            return {"nontrivial": bool(must_raise), "classes": classes}
        raise Violation(f"evaluate raised RuntimeError although every slice is well-conditioned: {e}",
                        cost=cost, cuts=cuts.tolist())
    if must_raise:
        i = must_raise[0]
        raise Violation("slice with an exactly constant column (singular sample covariance) was scored "
                        "instead of raising the documented error",
                        cut=cuts[i].tolist(), value=np.asarray(out)[i].tolist())
    out = np.asarray(out)
    want_cols = 1 if cost == "GaussianCovCost" else p
    if out.shape != (len(cuts), want_cols):
        raise Violation("evaluate returned the wrong shape", got=list(out.shape), expected=[len(cuts), want_cols])
    if not np.all(np.isfinite(out)):
        raise Violation("evaluate returned NaN or inf", cuts=cuts.tolist(), values=out.tolist())
    nontrivial = False
    for i, ex in enumerate(expected):
        if ex[0] != "interval":
            continue
        lo, hi = ex[1], ex[2]
        if np.any(out[i] < lo) or np.any(out[i] > hi):
            raise Violation("cost differs from its definition computed directly from the rows X[s:e]",
                            cost=cost, param=param, cut=cuts[i].tolist(), got=out[i].tolist(),
                            expected_low=np.asarray(lo).tolist(), expected_high=np.asarray(hi).tolist())
        s, e = cuts[i]
        if (s > 0 or e < n) and not np.all(X[s:e] == X[s]):
            nontrivial = True
    if may_raise:
        classes.append("illconditioned_slice")
    return {"nontrivial": nontrivial, "classes": classes}


# ------------------------------------------------------------------ batch independence


@st.composite
def batch_cases(draw, tier):
    case = draw(value_cases(tier))
    n = len(case["X"])
    p = len(case["X"][0])
    ms = min_size_of(case["cost"], p)
    case["other"] = draw(intervals(n, ms, max_batch=6))
    case["pick"] = draw(st.integers(0, len(case["cuts"]) - 1))
    return case


def check_batch(case):
    cost, param = case["cost"], case["param"]
    X = np.asarray(case["X"], dtype=float)
    cuts = np.asarray(case["cuts"], dtype=np.int64)
    other = np.asarray(case["other"], dtype=np.int64)
    i = case["pick"]
    classes = [f"cost={cost}"]
    try:
        with sut(f"{cost} fit/evaluate", allowed=(RuntimeError,)):
            scorer = build_cost(cost, param).fit(X)
            full = np.asarray(scorer.evaluate(cuts))
    except RuntimeError:
        return {"nontrivial": False, "classes": classes + ["not_pd_error"]}
    with sut(f"{cost}.evaluate (sub-batches)", allowed=(RuntimeError,)):
        try:
            alone = np.asarray(scorer.evaluate(cuts[i:i + 1]))[0]
            rev = np.asarray(scorer.evaluate(cuts[::-1].copy()))[::-1][i]
            try:
                scorer.evaluate(other)
            except RuntimeError:
                pass
            again = np.asarray(scorer.evaluate(cuts))[i]
            row1d = np.asarray(scorer.evaluate(cuts[i]))[0]  # 1-D input is a row vector
        except RuntimeError as e:
            raise Violation(f"sub-batch raised although the full batch was scored: {e}")
    for name, v in (("alone", alone), ("reversed batch", rev), ("after other intervals", again),
                    ("1-D row", row1d)):
        if not np.allclose(v, full[i], rtol=1e-12, atol=1e-12 * (1 + np.abs(full[i]).max())):
            raise Violation(f"row for an interval depends on the batch ({name})",
                            cut=cuts[i].tolist(), in_batch=full[i].tolist(), other=np.asarray(v).tolist())
    return {"nontrivial": len(cuts) > 1, "classes": classes}


# ------------------------------------------------------------------ same buffer, new contents


@st.composite
def refill_cases(draw, tier):
    flags = (draw(st.integers(0, 2)), draw(st.booleans()), draw(st.booleans()))  # before the bulk data (strategies/data.py)
    case = draw(value_cases(tier))
    n, p = len(case["X"]), len(case["X"][0])
    case["X2"] = draw(D.any_matrix(n, p))
    case["container"] = ["ndarray", "DataFrame", "ndarray1d" if p == 1 else "ndarray"][flags[0]]
    case["same_cost_object"] = flags[1]
    case["evaluate_between"] = flags[2]
    return case


def check_refill(case):
    """fit(buffer); the caller refills the same buffer in place; fit again (same or new cost object):
    evaluate must describe the buffer's *current* contents."""
    import pandas as pd

    cost, param = case["cost"], case["param"]
    X1 = np.asarray(case["X"], dtype=float)
    X2 = np.asarray(case["X2"], dtype=float)
    n, p = X1.shape
    cuts = np.asarray(case["cuts"], dtype=np.int64)
    if case["container"] == "DataFrame":
        buf = pd.DataFrame(X1.copy())
    elif case["container"] == "ndarray1d":
        buf = X1[:, 0].copy()
    else:
        buf = X1.copy()
    classes = [f"cost={cost}", f"container={case['container']}"]
    try:
        with sut(f"{cost} fit / refill / fit / evaluate", allowed=(RuntimeError,)):
            c1 = build_cost(cost, param).fit(buf)
            if case["evaluate_between"]:
                try:
                    c1.evaluate(cuts)
                except RuntimeError:
                    pass
            if isinstance(buf, pd.DataFrame):
                buf.iloc[:, :] = X2
            elif buf.ndim == 1:
                buf[:] = X2[:, 0]
            else:
                buf[:] = X2
            c2 = (c1 if case["same_cost_object"] else build_cost(cost, param)).fit(buf)
            out = np.asarray(c2.evaluate(cuts))
    except RuntimeError as e:
        if "positive definite" in str(e):
            return {"nontrivial": False, "classes": classes + ["not_pd_error"]}
        raise
    M = max(D.max_abs(case["X"]), D.max_abs(case["X2"]))
    differs = False
    for i, (s_, e_) in enumerate(cuts):
        ex = expected_row(cost, param, X2, int(s_), int(e_), n, M)
        if ex[0] != "interval":
            continue
        if np.any(out[i] < ex[1]) or np.any(out[i] > ex[2]):
            raise Violation("after the fitted buffer was refilled in place and fitted again, evaluate does not describe its "
                            "current contents", cost=cost, cut=[int(s_), int(e_)], got=out[i].tolist(),
                            expected_low=np.asarray(ex[1]).tolist(), expected_high=np.asarray(ex[2]).tolist(),
                            container=case["container"], same_cost_object=case["same_cost_object"])
        old = expected_row(cost, param, X1, int(s_), int(e_), n, M)
        if old[0] == "interval" and (np.any(old[2] < ex[1]) or np.any(old[1] > ex[2])):
            differs = True
    return {"nontrivial": differs, "classes": classes}


# ------------------------------------------------------------------ parameter validation


@st.composite
def invalid_param_cases(draw, tier):
    cost = draw(st.sampled_from(COSTS))
    p = draw(st.integers(1, 3))
    n = draw(st.integers(p + 2, 12))
    kind = draw(st.sampled_from(["mean_len", "var_len", "var_nonpos", "cov_shape", "cov_not_pd"]))
    wrong_len = draw(st.integers(2, 5).filter(lambda k: k != p))
    bad = draw(st.sampled_from([0.0, -1.0, -1e-9]))
    bad_scalar = draw(st.booleans())
    choice = draw(st.sampled_from(["zero", "negative", "singular"]))
    X = draw(D.exact_matrix(n, p))  # bulk data last (see strategies/data.py)
    if cost == "L2Cost":
        kind = "mean_len"
    elif cost == "GaussianVarCost" and kind.startswith("cov"):
        kind = "var_nonpos"
    elif cost == "GaussianCovCost" and kind.startswith("var"):
        kind = "cov_not_pd"
    param = {"mean": 0.0}
    if cost == "GaussianVarCost":
        param["var"] = 1.0
    if cost == "GaussianCovCost":
        param["cov"] = 1.0
    if kind == "mean_len":
        param["mean"] = [0.0] * wrong_len
    elif kind == "var_len":
        param["var"] = [1.0] * wrong_len
    elif kind == "var_nonpos":
        param["var"] = bad if bad_scalar else [1.0] * (p - 1) + [bad]
    elif kind == "cov_shape":
        param["cov"] = np.eye(wrong_len).tolist()
    elif kind == "cov_not_pd":
        if choice == "zero":
            param["cov"] = 0.0
        elif choice == "negative":
            param["cov"] = (-np.eye(p)).tolist()
        else:
            c = np.ones((p, p))
            c[0, 0] = -1.0 if p == 1 else 1.0
            if p > 1:
                c = c - 2 * np.eye(p)  # indefinite
            param["cov"] = c.tolist()
    return {"cost": cost, "param": param, "X": X, "kind": kind}


def check_invalid_param(case):
    X = np.asarray(case["X"], dtype=float)
    try:
        with sut(f"{case['cost']}(invalid param).fit", allowed=(ValueError,)):
            build_cost(case["cost"], case["param"]).fit(X)
    except ValueError:
        return {"nontrivial": True, "classes": [f"kind={case['kind']}", f"cost={case['cost']}"]}
    raise Violation("invalid fixed parameter was accepted by fit (ValueError expected)",
                    cost=case["cost"], param=case["param"], kind=case["kind"])


# ------------------------------------------------------------------ structured fixed covariances


def cov_structure_cells(tier):
    """Fixed covariances with the structure real baselines have: equicorrelated channels (a repeated eigenvalue), a one-factor
    model I + v v', channels in very different units (standard deviations 1000 and 0.004: eigenvalue ratio 6e10, a
    perfectly conditioned problem column by column), block structure. Data in the matching units."""
    i = 0
    for kind in ("equicorrelated", "one_factor", "mixed_units_diagonal", "mixed_units_correlated", "block"):
        for p_ in (2, 3, 4, 6):
            for rho in (0.3, 0.9):
                i += 1
                yield {"kind": kind, "p": p_, "rho": rho, "seed": 34000 + i}


def check_cov_structure(case):
    from skchange.costs import GaussianCovCost

    kind, p_, rho = case["kind"], case["p"], case["rho"]
    rng = np.random.Generator(np.random.PCG64(case["seed"]))
    sd = np.ones(p_)
    if kind == "equicorrelated":
        R = (1 - rho) * np.eye(p_) + rho * np.ones((p_, p_))
    elif kind == "one_factor":
        v = np.linspace(0.5, 1.5, p_)
        R = np.eye(p_) + rho * np.outer(v, v)
    elif kind.startswith("mixed_units"):
        sd = np.array([1000.0, 0.004, 1.0, 250.0, 0.02, 3.0][:p_])
        R = np.eye(p_) if kind.endswith("diagonal") else (1 - rho / 2) * np.eye(p_) + (rho / 2) * np.ones((p_, p_))
    else:
        R = np.eye(p_)
        R[0, 1] = R[1, 0] = rho
    cov = R * np.outer(sd, sd)
    n = 40
    Z = rng.standard_normal((n, p_)) @ np.linalg.cholesky(R).T
    X = Z * sd + 0.3 * sd
    mean = 0.25 * sd
    cuts = np.array([[0, n], [3, 17], [20, 39], [11, 12 + p_]])
    with sut("GaussianCovCost with a structured fixed covariance"):
        got = np.asarray(GaussianCovCost(param=(mean, cov)).fit(X).evaluate(cuts), dtype=float).ravel()
    # definition in whitened units (exact arithmetic identity): x -> x / sd turns cov into the correlation matrix R
    Xw, mw = (X / sd).astype(np.longdouble), (mean / sd).astype(np.longdouble)
    Rinv = np.linalg.inv(R).astype(np.longdouble)
    logdet = float(np.linalg.slogdet(R)[1] + 2 * np.sum(np.log(sd)))
    want = []
    for s_, e_ in cuts:
        d = Xw[s_:e_] - mw
        want.append(float((e_ - s_) * p_ * np.log(2 * np.pi) + (e_ - s_) * logdet + float(np.sum((d @ Rinv) * d))))
    want = np.asarray(want)
    tol = 1e-8 * (1 + np.abs(want)) * (1 + np.linalg.cond(R))
    if not np.all(np.isfinite(got)) or np.any(np.abs(got - want) > tol):
        i = int(np.argmax(np.abs(got - want) - tol))
        raise Violation("fixed-covariance cost differs from twice the negative Gaussian log-likelihood of the rows", kind=kind, p=p_, rho=rho,
                        cut=cuts[i].tolist(), got=float(got[i]), expected=float(want[i]))
    return {"nontrivial": True, "classes": [f"kind={kind}", f"p={p_}"]}


# ------------------------------------------------------------------ long series, big batches


def long_big_cells(tier):
    for cost in ("L2Cost", "GaussianVarCost"):
        for fixed in (False, True):
            yield {"what": "long_series", "cost": cost, "fixed": fixed, "n": 100_000, "seed": 35001}
            for m in (8192, 16384, 65536, 8191, 20_000):
                yield {"what": "big_batch", "cost": cost, "fixed": fixed, "rows": m, "seed": 35002}
    for m in (8192, 20_000):
        yield {"what": "big_batch", "cost": "GaussianCovCost", "fixed": False, "rows": m, "seed": 35003}


def _definition(cost, fixed, rows):
    x = rows.astype(np.longdouble)
    n_ = len(x)
    if cost == "L2Cost":
        m = np.longdouble(0.25) if fixed else x.mean(axis=0)
        return ((x - m) ** 2).sum(axis=0).astype(float)
    if cost == "GaussianVarCost":
        if fixed:
            return (n_ * np.log(2 * np.pi * 2.0) + ((x - 0.25) ** 2).sum(axis=0) / 2.0).astype(float)
        v = ((x - x.mean(axis=0)) ** 2).sum(axis=0) / n_
        return (n_ * np.log(2 * np.pi * v) + n_).astype(float)
    c = np.cov(rows, rowvar=False, ddof=0).reshape(rows.shape[1], rows.shape[1])
    return np.array([n_ * rows.shape[1] * np.log(2 * np.pi) + n_ * np.linalg.slogdet(c)[1] + rows.shape[1] * n_])


def check_long_big(case):
    """(a) a series of 100000 rows, two columns on different levels: intervals inside and across the rows 32768, 65536, 98304 (where a
    blocked accumulation would restart); (b) ONE evaluate call with exactly 8192 / 16384 / 65536 (and 8191, 20000) cuts - the sliding
    windows of width 10 over rows + 9 samples: every probed row against the definition computed from the rows X[s:e] (long double)."""
    from skchange import costs

    cost, fixed = case["cost"], case["fixed"]
    param = None if not fixed else (0.25 if cost == "L2Cost" else (0.25, 2.0))
    rng = np.random.Generator(np.random.PCG64(case["seed"]))
    if case["what"] == "long_series":
        n = case["n"]
        X = rng.standard_normal((n, 2)) + np.array([0.5, -1.0])
        cuts = np.array([[0, n], [50_000, 80_000], [65_000, 66_000], [65_535, 65_537], [32_000, 33_000], [98_000, 99_000], [98_303, 98_310],
                         [0, 65_536], [65_536, n], [10, 40], [70_000, 70_050], [99_990, n]])
    else:
        m = case["rows"]
        p_ = 2 if cost != "GaussianCovCost" else 2
        X = rng.standard_normal((m + 9, p_)) + 0.5
        cuts = np.column_stack((np.arange(m), np.arange(m) + 10))
    with sut(f"{cost} on a long series / in a big batch"):
        got = np.asarray(getattr(costs, cost)(param=param).fit(X).evaluate(cuts), dtype=float)
    if got.shape[0] != len(cuts):
        raise Violation("evaluate did not return one row per cut", rows=len(cuts), got=list(got.shape))
    probe = range(len(cuts)) if len(cuts) <= 50 else sorted({0, 1, 8190, 8191, len(cuts) - 1, len(cuts) - 2, *range(0, len(cuts), 1013)} & set(range(len(cuts))))
    for i in probe:
        s_, e_ = cuts[i]
        want = _definition(cost, fixed, X[s_:e_])
        # worst-case rounding of the prefix sums (section 3.4), for the Gaussian cost propagated through n log(variance)
        B = ref.error_bound(len(X), float(np.abs(X).max()) + 1.0)
        tol = 1e-7 * (1 + np.abs(want)) + (B if cost == "L2Cost" else B / max(float(np.var(X[s_:e_], axis=0).min()), 1e-3))
        if not np.all(np.isfinite(got[i])) or np.any(np.abs(got[i] - want) > tol):
            raise Violation("cost differs from its definition computed directly from the rows X[s:e]", cost=cost, fixed=fixed, cut=[int(s_), int(e_)],
                            rows_in_call=len(cuts), n=len(X), got=got[i].tolist(), expected=want.tolist())
    return {"nontrivial": True, "classes": [f"what={case['what']}", f"cost={cost}"] + ([f"rows={case['rows']}"] if case["what"] == "big_batch" else [])}


# ------------------------------------------------------------------ structured batches on longer series


def batch_cells(tier):
    """Batches with the structure callers really use, on series of 300..6000 samples: back-to-back segments (a complete
    segmentation, or one that stops before n), many intervals with a common end (look-back windows; increasing, decreasing
    and shuffled starts) or a common start, nested intervals. Seeded data (numpy PCG64, seed stored)."""
    i = 0
    for cost in ("L2Cost", "GaussianVarCost", "GaussianCovCost"):
        for n in ((300, 5000) if tier == "quick" else (300, 1200, 5000, 6000)):
            for shape in ("back_to_back_complete", "back_to_back_partial", "common_end_increasing", "common_end_decreasing",
                          "common_end_shuffled", "common_start", "nested"):
                for fixed in (False, True):
                    if cost == "GaussianCovCost" and n > 1200 and shape.startswith("back") is False and tier == "quick" and fixed:
                        continue
                    i += 1
                    yield {"cost": cost, "n": n, "p": 1 + i % 3, "shape": shape, "fixed": fixed, "seed": 30000 + i}


def check_batches(case):
    cost, n, p_, shape = case["cost"], case["n"], case["p"], case["shape"]
    rng = np.random.Generator(np.random.PCG64(case["seed"]))
    X = rng.standard_normal((n, p_)) * rng.uniform(0.5, 2.0, size=p_) + rng.normal(size=p_)
    X[n // 2:] += 1.0
    ms = p_ + 1 if cost == "GaussianCovCost" else 2
    if shape.startswith("back_to_back"):
        cutpoints = np.unique(np.concatenate(([0], np.sort(rng.choice(np.arange(ms * 3, n - ms * 3, ms * 3), size=12, replace=False)),
                                              [n] if shape.endswith("complete") else [n - 57])))
        stop = int(cutpoints[-1])
        kept = [0]
        for c in cutpoints[1:]:
            if c - kept[-1] >= ms and (stop - c >= ms or c == stop):
                kept.append(int(c))
        cutpoints = np.asarray(kept)
        cuts = np.column_stack((cutpoints[:-1], cutpoints[1:]))
    elif shape.startswith("common_end"):
        end = n - 3
        starts = np.sort(rng.choice(np.arange(0, end - 40), size=14, replace=False))
        if shape.endswith("decreasing"):
            starts = starts[::-1]
        elif shape.endswith("shuffled"):
            starts = rng.permutation(starts)
        cuts = np.column_stack((starts, np.full(starts.size, end)))
    elif shape == "common_start":
        ends = rng.permutation(np.sort(rng.choice(np.arange(60, n + 1), size=14, replace=False)))
        cuts = np.column_stack((np.full(ends.size, 5), ends))
    else:
        half = np.arange(1, 12) * (n // 26)
        cuts = np.column_stack((n // 2 - half, n // 2 + half))
    cuts = cuts.astype(np.int64)
    param = None
    if case["fixed"]:
        param = {"mean": 0.5}
        if cost == "GaussianVarCost":
            param["var"] = 1.5
        if cost == "GaussianCovCost":
            param["cov"] = 1.5
    with sut(f"{cost} on a structured batch"):
        batch = np.asarray(build_cost(cost, param).fit(X).evaluate(cuts), dtype=float)
        alone_obj = build_cost(cost, param).fit(X)
        alone = np.vstack([np.asarray(alone_obj.evaluate(c.reshape(1, -1)), dtype=float) for c in cuts])
    if batch.shape != alone.shape or not np.all(np.isfinite(batch)):
        raise Violation("evaluate returned a wrong shape or a non-finite value on a structured batch", shape=shape, n=n, cost=cost)
    tol = 1e-9 * (1 + np.abs(alone))
    if np.any(np.abs(batch - alone) > tol):
        i = int(np.argmax(np.abs(batch - alone).max(axis=1) > tol.max(axis=1)))
        raise Violation("row for an interval depends on the batch it is evaluated in", shape=shape, n=n, cost=cost, cut=cuts[i].tolist(),
                        in_batch=batch[i].tolist(), alone=alone[i].tolist())
    # the single-interval values against the definition (shorter intervals only: the long-double reference is quadratic in p)
    M = float(np.abs(X).max())
    for c, row in list(zip(cuts, alone))[:6]:
        ex = expected_row(cost, param, X, int(c[0]), int(c[1]), n, M)
        if ex[0] == "interval" and (np.any(row < ex[1]) or np.any(row > ex[2])):
            raise Violation("cost differs from its definition computed directly from the rows X[s:e]", cost=cost, cut=c.tolist(),
                            got=row.tolist())
    return {"nontrivial": True, "classes": [f"cost={cost}", f"shape={shape}", f"n={n}", "mode=" + ("fixed" if param else "optimal")]}


# ------------------------------------------------------------------ wide data


def wide_cells(tier):
    """Many columns (20..120; n a few times p) in several units: determinants and sums over columns reach the limits of
    the float range (|log det| of several hundreds) although every covariance is well-conditioned. Data are a
    deterministic function of the cell (numpy PCG64 seeded with the stored seed; ~10^4..10^5 values)."""
    i = 0
    for p_ in (20, 50, 100, 120) if tier == "quick" else (20, 35, 50, 80, 100, 120, 160):
        for unit in (1.0, 0.01, 40.0, 1e-3, 1e3):
            for cost in ("GaussianCovCost", "GaussianVarCost", "L2Cost"):
                if cost != "GaussianCovCost" and unit in (0.01, 1e3) and tier == "quick":
                    continue
                i += 1
                yield {"cost": cost, "p": p_, "n": 4 * p_ + i % 7, "unit": unit, "seed": 4000 + i,
                       "fixed": i % 3 == 0}
    # several hundred channels (sensor arrays, spectra; beyond 2^8 and 2^9 columns) on short series: per-column costs
    for j, (p_, n) in enumerate([(257, 40), (300, 60), (520, 33)] + ([(1030, 24), (256, 50)] if tier != "quick" else [])):
        for cost in ("L2Cost", "GaussianVarCost"):
            yield {"cost": cost, "p": p_, "n": n, "unit": 1.0, "seed": 4500 + j, "fixed": j % 2 == 1}


def check_wide(case):
    cost, p_, n, unit = case["cost"], case["p"], case["n"], case["unit"]
    rng = np.random.Generator(np.random.PCG64(case["seed"]))
    X = rng.normal(size=(n, p_)) * unit * rng.uniform(0.5, 2.0, size=p_) + unit * rng.normal(size=p_)
    ms = p_ + 1 if cost == "GaussianCovCost" else 2
    cuts = [[0, n], [0, n - 3], [n - 2 * ms - 1, n], [n // 5, n // 5 + 2 * ms + 3], [3, 3 + ms + p_]]
    cuts = [c for c in cuts if 0 <= c[0] and c[1] <= n and c[1] - c[0] >= (2 * p_ if cost == "GaussianCovCost" else ms)]
    param = None
    if case["fixed"]:
        param = {"mean": 0.0}
        if cost == "GaussianVarCost":
            param["var"] = unit * unit
        if cost == "GaussianCovCost":
            param["cov"] = unit * unit
    info = check_values({"cost": cost, "param": param, "X": X.tolist(), "cuts": cuts})
    info["classes"] = list(info["classes"]) + [f"unit={unit:g}"]
    return info


# ------------------------------------------------------------------ nearly collinear channels


def collinear_cells(tier):
    """Two or three channels of which two are nearly collinear (a sensor and its re-calibrated copy: correlation 1 - 5e-6 .. 1 - 5e-9,
    covariance condition numbers 4e5 .. 4e8 - far from the 1e-16 floor and from singularity in double precision). Seeded data."""
    i = 0
    for p_ in (2, 3):
        for n in (40, 150):
            for delta in (3e-3, 1e-3, 3e-4, 1e-4):
                i += 1
                if tier == "quick" and i % 2 == 0:
                    continue
                yield {"p": p_, "n": n, "delta": delta, "seed": 4700 + i}


def _exact_log_det_cov(rows):
    """log det of the (maximum-likelihood, ddof = 0) sample covariance in exact rational arithmetic."""
    from fractions import Fraction

    n, p = rows.shape
    F = [[Fraction(float(v)) for v in r] for r in rows]
    means = [sum(F[i][j] for i in range(n)) / n for j in range(p)]
    C = [[sum((F[i][a] - means[a]) * (F[i][b] - means[b]) for i in range(n)) / n for b in range(p)] for a in range(p)]
    if p == 2:
        det = C[0][0] * C[1][1] - C[0][1] * C[1][0]
    else:
        det = (C[0][0] * (C[1][1] * C[2][2] - C[1][2] * C[2][1]) - C[0][1] * (C[1][0] * C[2][2] - C[1][2] * C[2][0])
               + C[0][2] * (C[1][0] * C[2][1] - C[1][1] * C[2][0]))
    import math

    return math.log(det.numerator) - math.log(det.denominator), np.array([[float(v) for v in r] for r in C])


def check_collinear(case):
    from skchange.costs import GaussianCovCost

    p_, n, delta = case["p"], case["n"], case["delta"]
    rng = np.random.Generator(np.random.PCG64(case["seed"]))
    z = rng.standard_normal(n)
    X = np.column_stack([z, z + delta * rng.standard_normal(n)] + ([rng.standard_normal(n)] if p_ == 3 else []))
    cuts = np.array([[0, n], [0, n // 2], [n // 3, n]])
    with sut("GaussianCovCost on nearly collinear channels"):
        out = np.asarray(GaussianCovCost().fit(X).evaluate(cuts), dtype=float)
    worst = 0.0
    for (s_, e_), got in zip(cuts, out[:, 0]):
        m = int(e_ - s_)
        logdet, C = _exact_log_det_cov(X[s_:e_])
        want = m * p_ * np.log(2 * np.pi) + m * logdet + m * p_
        cond = float(np.linalg.cond(C))
        # rounding of a double-precision covariance + LU: relative error of the determinant ~ p eps cond; 100 x head-room
        tol = 100 * m * p_ * ref.EPS * cond + 1e-10 * abs(want)
        if not np.isfinite(got) or abs(got - want) > tol:
            raise Violation("multivariate Gaussian cost of nearly collinear (but well-conditioned in double precision) channels differs from its "
                            "definition (exact rational arithmetic)", cut=[int(s_), int(e_)], got=float(got), definition=float(want),
                            tolerance=float(tol), condition_number=cond, delta=delta)
        worst = max(worst, abs(got - want) / tol)
    return {"nontrivial": True, "classes": [f"p={p_}", f"delta={delta:g}", f"error/tolerance<{10 ** np.ceil(np.log10(max(worst, 1e-6))):g}"]}


FACETS = [
    Facet(
        name="values",
        check=check_values,
        strategy=value_cases,
        rule=("L2Cost/GaussianVarCost/GaussianCovCost x optimal/fixed parameter (scalar or per-column mean/variance, float or integer-typed, "
              "scalar or A A^T + cI covariance), data families exact/generic/structured/constant/duplicated column, "
              "batches of 1..16 admissible intervals or all intervals for n<=8; optionally a second object of the same class, fitted on other data "
              "before or after, evaluates the same intervals in between; non-trivial = a proper sub-interval "
              "with a non-constant slice whose value was compared with the definitional value"),
        n_quick=2400, n_thorough=36000, shards_quick=8, shards_thorough=16,
    ),
    Facet(
        name="batch_independence",
        check=check_batch,
        strategy=batch_cases,
        rule=("same generators; one interval of the batch is re-evaluated alone, in the reversed batch, as a 1-D row "
              "and after evaluating unrelated intervals; non-trivial = batch of >= 2 intervals"),
        n_quick=800, n_thorough=12000, shards_quick=8, shards_thorough=16,
    ),
    Facet(
        name="refilled_buffer",
        check=check_refill,
        strategy=refill_cases,
        rule=("fit on a buffer (2-D/1-D ndarray or DataFrame), the caller overwrites the buffer in place with other data of the "
              "same shape, fit again with the same or a new cost object, evaluate: must equal the definitional value of the "
              "current contents; non-trivial = some interval whose old and new values are separated"),
        n_quick=400, n_thorough=6000, shards_quick=4, shards_thorough=16,
    ),
    Facet(
        name="invalid_fixed_parameters",
        check=check_invalid_param,
        strategy=invalid_param_cases,
        rule=("wrong-length mean/variance, non-positive variance, wrong-shape or non-positive-definite covariance; "
              "fit must raise ValueError; every case is non-trivial"),
        n_quick=300, n_thorough=3000, shards_quick=4, shards_thorough=8,
    ),
    Facet(
        name="long_series_and_big_batches", kind="enumerate", enumerate=long_big_cells, check=check_long_big, exhaustive=True, time_limit=300,
        rule=("L2Cost / GaussianVarCost (both parameter modes) on 100000 rows x 2 columns on different levels: 12 intervals inside and across rows 32768, "
              "65536, 98304; and ONE evaluate call with exactly 8192 / 16384 / 65536 / 8191 / 20000 cuts (sliding windows of width 10; GaussianCovCost "
              "8192 / 20000): probed rows against the definition from the rows X[s:e] (long double); every cell non-trivial"),
        shards_quick=8, shards_thorough=8, max_samples=1,
    ),
    Facet(
        name="covariance_structures", kind="enumerate", enumerate=cov_structure_cells, check=check_cov_structure, exhaustive=True,
        rule=("GaussianCovCost with fixed covariances of real structure - equicorrelated (repeated eigenvalue), one-factor I + v v', channels in units "
              "1000 .. 0.004 (diagonal and correlated; eigenvalue ratio 6e10), block - p in {2,3,4,6}, rho 0.3 / 0.9, data in the matching units; "
              "compared with the definition evaluated in whitened units (tolerance 1e-8 x cond of the *correlation* matrix); every cell non-trivial"),
        shards_quick=8, shards_thorough=8, max_samples=1,
    ),
    Facet(
        name="structured_batches", kind="enumerate", enumerate=batch_cells, check=check_batches, exhaustive=True, time_limit=300,
        rule=("series of 300 and 5000 samples (thorough: also 1200, 6000), p 1..3, three costs x optimal / fixed parameters x batch shapes: back-to-back "
              "segments (complete, or stopping before n), 14 intervals with a common end (increasing / decreasing / shuffled starts) or a common start, "
              "nested intervals; every row must equal the same interval evaluated alone by a fresh object, and the definition; every cell non-trivial"),
        shards_quick=16, shards_thorough=16, max_samples=1,
    ),
    Facet(
        name="wide_data", kind="enumerate", enumerate=wide_cells, check=check_wide, exhaustive=True, time_limit=300,
        rule=("p in {20,50,100,120} (thorough: up to 160) columns, n ~ 4p, seeded Gaussian data in units 1e-3..1e3 (per-column spread 0.5..2, "
              "|log det| up to several hundreds), all three costs with optimal and scalar fixed parameters, whole-series and long sub-intervals; "
              "and the two univariate costs on 257 / 300 / 520 columns (thorough: up to 1030) x 24-60 rows; same definitional oracle; every cell non-trivial"),
        shards_quick=8, shards_thorough=16, max_samples=1,
    ),
    Facet(
        name="near_collinear_channels", kind="enumerate", enumerate=collinear_cells, check=check_collinear, exhaustive=True, time_limit=300,
        rule=("GaussianCovCost (optimal parameters) on 2-3 channels of which two are nearly collinear (correlation 1 - 5e-6 .. 1 - 5e-9, condition "
              "numbers 4e5 .. 4e8), n 40 / 150, whole series and sub-intervals: compared with the definition evaluated in exact rational arithmetic, "
              "tolerance 100 n p eps cond; every cell non-trivial"),
        shards_quick=8, shards_thorough=16, max_samples=1,
    ),
]

"""C11 - outputs do not depend on how the same numbers are passed in."""

import numpy as np
from hypothesis import strategies as st

from checks import common as K
from framework.core import Facet, Violation, sut
from strategies import data as D

PROPERTY_ID = "C11"
TECHNIQUE = "Hypothesis-generated representations per entry point (container x dtype x index x column labels); differential against the canonical float64 DataFrame run"
ASSUMPTIONS = [
    "update: fit and update use containers of the same kind (arrays = default-index frames; pandas objects with an index that continues the training index and the same column labels); mixing Series and DataFrame between fit and update is outside the domain (pandas alignment changes the numbers)",
    "int64 representations are used only for integer-valued data",
    "update with pandas data: unique column labels and a strictly increasing index (pandas alignment in update); every other entry point also gets repeated time stamps and a repeated column label",
    "the documented not-PD RuntimeError is accepted if it also occurs in the canonical run",
]

SCORE_DETECTORS = ("PELT", "MovingWindow", "CAPA", "MVCAPA")


ALL_INDEX_KINDS = D.INDEX_KINDS + D.REPEAT_INDEX_KINDS + D.TZ_INDEX_KINDS


@st.composite
def repr_spec(draw, p, integral, index_kinds=ALL_INDEX_KINDS, column_kinds=D.COLUMN_KINDS):
    containers = ["DataFrame", "ndarray2d"] + (["Series", "ndarray1d"] if p == 1 else [])
    return {"container": draw(st.sampled_from(containers)),
            # narrower integer types are used where every value fits (see `represent`)
            "dtype": draw(st.sampled_from(["int64", "float64", "int32", "int16", "float32"])) if integral else "float64",
            "index": draw(D.index_spec(index_kinds)), "columns": draw(st.sampled_from(column_kinds)),
            # arrays in memory that cannot be written to (np.load(mmap_mode="r"), np.broadcast_to, setflags(write=False))
            "read_only": draw(st.integers(0, 4)) == 0}


def represent(X, r, offset=0):
    """Build the container; offset shifts the index so that it continues a previous block."""
    import pandas as pd

    arr = np.asarray(X, dtype=float)
    if r["dtype"] in ("int64", "int32", "int16"):
        dt = np.dtype(r["dtype"])
        if r["dtype"] != "int64" and arr.size and np.abs(arr).max() > np.iinfo(dt).max:
            dt = np.dtype("int64")  # the values do not fit the narrower type
        arr = arr.astype(dt)
    elif r["dtype"] == "float32" and np.array_equal(arr.astype(np.float32).astype(np.float64), arr):
        arr = arr.astype(np.float32)  # single precision, where it holds exactly the same numbers
    n, p = arr.shape
    if r.get("read_only") and r["container"] in ("ndarray2d", "ndarray1d"):
        arr = arr.copy()
        arr.setflags(write=False)
    if r["container"] == "ndarray2d":
        return arr
    if r["container"] == "ndarray1d":
        return arr[:, 0]
    idx = D.build_index(r["index"], n + offset)[offset:]
    if r["container"] == "Series":
        return pd.Series(arr[:, 0], index=idx, name=None if r["columns"] == "default" else D.column_labels(r["columns"], 1)[0])
    df = pd.DataFrame(arr, index=idx, columns=D.column_labels(r["columns"], p))
    j = r.get("bool_col")
    if j is not None and set(np.unique(arr[:, j])) <= {0, 1}:
        # the indicator column as bool next to numeric columns (built column by column: labels may repeat)
        df = pd.concat([df.iloc[:, [c]].astype(bool) if c == j else df.iloc[:, [c]] for c in range(p)], axis=1)
    return df


def own_index(r, n):
    """A fresh copy of the index `represent(X, r)` carries (a snapshot: the object handed over might get modified)."""
    import pandas as pd

    if r["container"] in ("Series", "DataFrame"):
        return D.build_index(r["index"], n)
    return pd.RangeIndex(n)


def check_caller_index(obj, r, n, what):
    import pandas as pd

    if isinstance(obj, (pd.Series, pd.DataFrame)) and not D.same_index(obj.index, own_index(r, n)):
        raise Violation(f"{what} modified the index of the caller's data", now=str(obj.index[:3]), now_names=str(list(obj.index.names)),
                        before_names=str(list(own_index(r, n).names)), repr=r)


def canonical(X, offset=0):
    import pandas as pd

    arr = np.asarray(X, dtype=float)
    return pd.DataFrame(arr, index=pd.RangeIndex(offset, offset + len(arr)))


def sparse_signature(y):
    kind, ev = K.sparse_events(y)
    sig = {"kind": kind, "events": [list(e) if isinstance(e, tuple) else e for e in ev]}
    if "icolumns" in y.columns:
        sig["icolumns"] = [[int(c) for c in np.asarray(v).reshape(-1)] for v in y["icolumns"].tolist()]
    if "labels" in y.columns:
        sig["labels"] = [int(v) for v in y["labels"].tolist()]
    return sig


@st.composite
def cases(draw, tier, det):
    p = 1 if det == "StatThresholdAnomaliser" else draw(st.integers(1, 3))
    params, n_min = draw(K.detector_params(det, p, max_msl=3, max_bw=4, allow_cov=False))
    nmax = 30 if det != "CircularBinarySegmentation" else 18
    n = draw(st.integers(n_min, max(n_min, nmax)))
    integral = draw(st.sampled_from([False, True]))
    bw = params.get("bandwidth", params.get("min_segment_length", 1))
    case = {"detector": det, "params": params, "X": None, "integral": integral}
    # structural choices first, bulk data last (see strategies/data.py)
    n2 = nt = None
    if draw(st.integers(0, 1)) == 0:
        n2 = draw(st.integers(1, 8))
        mode = draw(st.sampled_from(["pandas", "arrays"]))
        if mode == "arrays":
            containers = ["ndarray2d"] + (["ndarray1d"] if p == 1 else [])
            r = {"container": draw(st.sampled_from(containers)),
                 "dtype": draw(st.sampled_from(["float64", "int64"])) if integral else "float64",
                 "index": {"kind": "range0"}, "columns": "default"}
            r2 = dict(r, container=draw(st.sampled_from(containers)))
        else:
            r = draw(repr_spec(p, integral, D.INDEX_KINDS + D.TZ_INDEX_KINDS, D.UNIQUE_COLUMN_KINDS))  # pandas alignment needs unique labels
            r["container"] = draw(st.sampled_from(["DataFrame"] + (["Series"] if p == 1 else [])))
            r2 = dict(r, dtype=draw(st.sampled_from(["float64", "int64"])) if integral else "float64")
            if r["container"] == "Series" and draw(st.booleans()):
                # the chunk is a Series under another name than the history (df["temp"], then pd.Series(values, index=times)):
                # names of Series play no role
                r2["columns"] = draw(st.sampled_from(D.UNIQUE_COLUMN_KINDS))
            if r["index"]["kind"] in ("datetime_D", "datetime_h", "datetime_B", "datetime_MS") and draw(st.integers(0, 1)) == 0:
                # the same instants stored in another resolution than the history's (never the same non-default resolution on
                # both sides: pandas 2.3.3 itself returns a wrong DatetimeIndex.union there, see DESIGN.md 5)
                unit = draw(st.sampled_from(["s", "ms", "us"]))
                if draw(st.integers(0, 1)) == 0:
                    r2["index"] = dict(r["index"], unit=unit)
                else:
                    r["index"] = dict(r["index"], unit=unit)
                    r2["index"] = dict(r["index"], unit="ns")
            # 1-3 chunks; each continues the data seen so far, overlaps its last 1-2 rows, or leaves a gap, and has its own
            # value family: a whole-numbered chunk may arrive as int64 although the earlier data were fractional floats
            plan = []
            for _ in range(draw(st.integers(1, 3))):
                whole = draw(st.sampled_from([True, True, False]))
                # delta: where the chunk starts relative to the end of the data seen so far; "gap" = inside the first gap an
                # earlier chunk left (late delivery of missing rows: labels not seen before that sort before known ones)
                plan.append({"n": draw(st.integers(1, 8)), "delta": draw(st.sampled_from([0, 0, -1, -2, 2, 2, "gap"])), "integral": whole,
                             "dtype": draw(st.sampled_from(["int64", "int64", "float64"])) if whole else "float64"})
            if draw(st.integers(0, 3)) == 0:
                # late rows: a chunk after a gap of 1-3 labels, then the missing rows (all of them or the first ones)
                plan = [dict(plan[0], delta=draw(st.integers(1, 3))), dict(plan[-1], delta="gap", n=draw(st.integers(1, 3)))] + plan[1:-1]
            case["update_plan"] = plan
        case["update_mode"] = mode
        case["reprs"] = {"fit": r, "update": r2}
    else:
        case["reprs"] = {"fit": draw(repr_spec(p, integral))}
    if draw(st.integers(0, 3)) == 0:
        nt = draw(st.integers(n_min, max(n_min, nmax)))
    if draw(st.integers(0, 3)) == 0:
        case["reprs"]["prefit"] = draw(repr_spec(p, integral))
    fit_r = case["reprs"]["fit"]
    for ep in ("predict", "transform", "scores"):
        r = draw(repr_spec(p, integral))
        if p > 1 and fit_r["container"] == r["container"] == "DataFrame" and fit_r["columns"] in D.UNIQUE_COLUMN_KINDS \
                and draw(st.integers(0, 2)) == 0:
            r["columns"] = "rev:" + fit_r["columns"]  # the training labels in the opposite order: data are matched by position
        case["reprs"][ep] = r
    if det == "StatThresholdAnomaliser":
        # the user's statistic is computed on the values in their own dtype and compared with the bounds by NumPy's rules: for
        # float32 data a bound is rounded to single precision first (8.6e-275 becomes 0), so the same numbers held as float32
        # and as float64 may legitimately be flagged differently. C11 claims int64 / float64 (narrow integers are compared exactly).
        for r_ in case["reprs"].values():
            if r_["dtype"] == "float32":
                r_["dtype"] = "float64"
    # an indicator variable (0 / 1, e.g. "valve open") among the columns: a bool column in a DataFrame, floats in the canonical run
    indicator = {"col": draw(st.integers(0, p - 1)), "at": draw(st.integers(1, max(1, n - 1)))} \
        if p >= 2 and draw(st.integers(0, 5)) == 0 else None
    case["X"], _ = draw(D.structured_matrix(n, p, exact=integral, boundary_positions=(bw, n - bw)))
    if indicator:
        case["indicator"] = indicator
        for i, row in enumerate(case["X"]):
            row[indicator["col"]] = 1.0 if i >= indicator["at"] else 0.0
        for r_ in case["reprs"].values():
            if r_["container"] == "DataFrame":
                r_["bool_col"] = indicator["col"]
    if n2 is not None and "update_plan" in case:
        case["updates"] = []
        end, gaps = n, []
        for u in case.pop("update_plan"):
            if u["delta"] == "gap":
                if gaps:
                    off, u["n"] = gaps[0][0], min(u["n"], gaps[0][1] - gaps[0][0])
                    gaps[0] = (off + u["n"], gaps[0][1])
                    gaps = [g for g in gaps if g[1] > g[0]]
                else:
                    off = end
            else:
                off = max(0, end + u["delta"])
                if off > end:
                    gaps.append((end, off))
            Xu, _ = draw(D.structured_matrix(u["n"], p, exact=u["integral"], max_shifts=1, max_spikes=1, max_bumps=1))
            case["updates"].append({"X": Xu, "off": off, "dtype": u["dtype"], "fills_gap": u["delta"] == "gap" and off < end})
            end = max(end, off + u["n"])
    elif n2 is not None:
        case["X_update"], _ = draw(D.structured_matrix(n2, p, exact=integral, max_shifts=1, max_spikes=1, max_bumps=1))
    if nt is not None:
        case["X_test"], _ = draw(D.structured_matrix(nt, p, exact=integral, boundary_positions=(bw, nt - bw)))
    return case


def run_history(case, canonical_run):
    """Returns dict of outputs, or ('not_pd',) when the documented error occurs."""
    det = K.build(K.detector_spec(case["detector"], case["params"]))
    X = case["X"]
    Xt = case.get("X_test", X)
    n_train = len(X)
    R = case["reprs"]
    out = {}
    if not canonical_run and "prefit" in R:
        det.fit(represent(X, R["prefit"]))  # the same numbers had been fitted before, in another container / under another index
    obj = canonical(X) if canonical_run else represent(X, R["fit"])
    det.fit(obj)
    if not canonical_run:
        check_caller_index(obj, R["fit"], len(X), "fit")
    if "updates" in case:
        end = n_train
        for u in case["updates"]:
            off = u["off"] if "off" in u else max(0, end + u["delta"])  # (replays of earlier versions store `delta`)
            end = max(end, off + len(u["X"]))
            if canonical_run:
                det.update(canonical(u["X"], off))
            else:
                det.update(represent(u["X"], dict(R["update"], dtype=u["dtype"]), off))
    elif "X_update" in case:
        if canonical_run:
            off = 0 if case["update_mode"] == "arrays" else n_train
            det.update(canonical(case["X_update"], off))
        else:
            off = 0 if case["update_mode"] == "arrays" else n_train
            det.update(represent(case["X_update"], R["update"], off))
    for attr in ("threshold_", "penalty_", "collective_penalty_", "point_penalty_"):
        if hasattr(det, attr):
            out[attr] = float(getattr(det, attr))
    obj = canonical(Xt) if canonical_run else represent(Xt, R["predict"])
    out["predict"] = sparse_signature(det.predict(obj))
    if not canonical_run:
        check_caller_index(obj, R["predict"], len(Xt), "predict")
    obj = canonical(Xt) if canonical_run else represent(Xt, R["transform"])
    dense = det.transform(obj)
    out["dense_values"] = dense.to_numpy().tolist()
    out["dense_index"] = dense.index
    out["dense_index_expected"] = obj.index if canonical_run else own_index(R["transform"], len(Xt))
    if not canonical_run:
        check_caller_index(obj, R["transform"], len(Xt), "transform")
    out["dense_ncols"] = dense.shape[1]
    if case["detector"] in SCORE_DETECTORS:
        obj = canonical(Xt) if canonical_run else represent(Xt, R["scores"])
        sc = det.transform_scores(obj)
        out["scores"] = np.asarray(sc, dtype=float).reshape(-1).tolist()
        out["scores_index"] = sc.index
        out["scores_index_expected"] = obj.index if canonical_run else own_index(R["scores"], len(Xt))
        if not canonical_run:
            check_caller_index(obj, R["scores"], len(Xt), "transform_scores")
    return out


def check(case):
    name = case["detector"]
    try:
        with sut(f"{name} canonical run", allowed=(RuntimeError,)):
            want = run_history(case, True)
    except RuntimeError as e:
        if "positive definite" in str(e):
            return {"nontrivial": False, "classes": ["not_pd_error_in_canonical_run"]}
        raise Violation(f"unexpected RuntimeError in the canonical run: {e}")
    try:
        with sut(f"{name} run with generated representations", allowed=(TypeError, ValueError) if case.get("indicator") else ()):
            got = run_history(case, False)
    except (TypeError, ValueError):
        # C11 names integer and float data: rejecting a bool column with an error would be legitimate - silently different results are not
        return {"nontrivial": False, "classes": ["bool_column_rejected"]}
    for key in ("threshold_", "penalty_", "collective_penalty_", "point_penalty_"):
        if key in want and abs(want[key] - got.get(key, float("nan"))) > 1e-9 * (1 + abs(want[key])):
            raise Violation(f"fitted {key} depends on the representation of the training data", canonical=want[key],
                            got=got.get(key), reprs=case["reprs"])
    if got["predict"] != want["predict"]:
        raise Violation("predict depends on how the same numbers are passed in", canonical=want["predict"],
                        got=got["predict"], reprs=case["reprs"])
    if got["dense_values"] != want["dense_values"]:
        raise Violation("transform's labels depend on how the same numbers are passed in", reprs=case["reprs"],
                        canonical=[r[0] for r in want["dense_values"]], got=[r[0] for r in got["dense_values"]])
    if not D.same_index(got["dense_index"], got["dense_index_expected"]):
        raise Violation("transform's output does not carry X's own index", got=str(got["dense_index"][:4]),
                        expected=str(got["dense_index_expected"][:4]), repr=case["reprs"]["transform"])
    if "scores" in want:
        a, b = np.asarray(want["scores"]), np.asarray(got["scores"])
        if a.shape != b.shape or not np.allclose(a, b, rtol=1e-9, atol=1e-9 * (1 + np.abs(a).max())):
            raise Violation("transform_scores depends on how the same numbers are passed in", reprs=case["reprs"])
        if not D.same_index(got["scores_index"], got["scores_index_expected"]):
            raise Violation("transform_scores' output does not carry X's own index", got=str(got["scores_index"][:4]),
                            expected=str(got["scores_index_expected"][:4]), repr=case["reprs"]["scores"])
    R = case["reprs"]
    noncanon = any(r["container"] != "DataFrame" or r["dtype"] != "float64" or r["index"]["kind"] != "range0"
                   or r["columns"] != "default" for r in R.values())
    classes = []
    for ep, r in R.items():
        classes.append(f"{ep}:{r['container']}")
    if "prefit" in R:
        classes.append("same_numbers_fitted_before_in_another_form")
    if "X_update" in case or "updates" in case:
        classes.append(f"update_mode={case['update_mode']}")
    if "updates" in case:
        classes.append(f"update_chunks={len(case['updates'])}")
        if any(isinstance(u.get("delta"), int) and u["delta"] < 0 for u in case["updates"]):
            classes.append("overlapping_chunk")  # (replays of earlier versions)
        end = len(case["X"])
        for u in case["updates"]:
            if "off" in u:
                classes.append("overlapping_chunk" if u["off"] < end and not u.get("fills_gap") else
                               "chunk_fills_an_earlier_gap" if u.get("fills_gap") else "chunk_after_a_gap" if u["off"] > end else "contiguous_chunk")
                end = max(end, u["off"] + len(u["X"]))
        units = {R[k]["index"].get("unit", "ns") for k in ("fit", "update") if k in R}
        if len(units) > 1:
            classes.append("history_and_chunk_in_different_datetime_resolutions")
        if R["fit"]["index"]["kind"] in ("datetime_B", "datetime_MS"):
            classes.append("calendar_frequency_index")
        if any(u["dtype"] == "int64" for u in case["updates"]) and not case["integral"]:
            classes.append("int64_chunk_after_fractional_data")
    if any(r["dtype"] == "int64" for r in R.values()):
        classes.append("int64")
    if any(r["dtype"] in ("int32", "int16") for r in R.values()):
        classes.append("int32/int16")
    if any(r["dtype"] == "float32" for r in R.values()):
        classes.append("float32")
    pandas_reprs = [r for r in R.values() if r["container"] in ("DataFrame", "Series")]
    if any(r["index"]["kind"].startswith(("datetime", "period")) for r in pandas_reprs):
        classes.append("time_index")
    if any(r["index"]["kind"] in D.REPEAT_INDEX_KINDS for r in pandas_reprs):
        classes.append("repeated_index_label")
    if any(r["index"].get("name") for r in pandas_reprs):
        classes.append("named_index")
    frames = {ep: r["columns"] for ep, r in R.items() if r["container"] == "DataFrame"}
    for kind in sorted(set(frames.values())):
        classes.append(f"columns={kind}")
    if any(v.startswith("rev:") for v in frames.values()):
        classes.append("same_labels_other_order_than_fit")
    if case.get("indicator") and any(r.get("bool_col") is not None for r in R.values()):
        classes.append("bool_indicator_column")
    has_event = bool(want["predict"]["events"])
    if has_event:
        classes.append("has_detection")
    return {"nontrivial": noncanon and has_event, "classes": classes}


# ------------------------------------------------------------------ scorers


SCORER_SPECS = [{"cls": "L2Cost", "param": 0.5}, {"cls": "L2Cost"}, {"cls": "GaussianVarCost"},
                {"cls": "GaussianVarCost", "param": {"tuple": [0.25, 2.5]}}, {"cls": "GaussianCovCost"},
                {"cls": "GaussianCovCost", "param": {"tuple": [0.5, 1.5]}},
                {"cls": "Saving", "baseline_cost": {"cls": "L2Cost", "param": 0.5}},
                {"cls": "Saving", "baseline_cost": {"cls": "GaussianVarCost", "param": {"tuple": [0.5, 1.5]}}},
                {"cls": "CUSUM"}, {"cls": "ChangeScore", "cost": {"cls": "GaussianVarCost"}}, {"cls": "L2Saving"},
                {"cls": "Saving", "baseline_cost": {"cls": "L2Cost", "param": 0.0}},
                {"cls": "LocalAnomalyScore", "cost": {"cls": "L2Cost"}},
                {"cls": "LocalAnomalyScore", "cost": {"cls": "GaussianVarCost"}}]


@st.composite
def scorer_cases(draw, tier):
    spec = draw(st.sampled_from(SCORER_SPECS))
    p = draw(st.integers(1, 3))
    ms = K.scorer_min_size(spec, p)
    n = draw(st.integers(max(2 * ms + 2, 6), 30))
    integral = draw(st.sampled_from([True, False]))
    squared_error_family = "Gaussian" not in str(spec)
    # whole-numbered data may be large counts (bytes, events, nanoseconds): factor 2e7 keeps every sum of squares below 2^63,
    # 1e8 lets the sums of squares of a few rows exceed 2^63, 3e8 lets single squares exceed it - float64 holds them all;
    # an offset of 30000 or 10^6 makes level / spread large (ADC counts)
    large = draw(st.sampled_from([None, None, None, None, 2e7, 1e8, 3e8, "offset_30000", "offset_1e6", "full_range_int16"])) if integral else None
    if isinstance(large, float) and not squared_error_family and large > 2e7:
        large = 2e7
    k = {"CUSUM": 3, "ChangeScore": 3, "LocalAnomalyScore": 4}.get(spec["cls"], 2)
    cuts = []
    for _ in range(draw(st.integers(1, 5))):
        if k == 2:
            s = draw(st.integers(0, n - ms))
            cuts.append([s, draw(st.integers(s + ms, n))])
        elif k == 3:
            s = draw(st.integers(0, n - 2 * ms))
            m = draw(st.integers(s + ms, n - ms))
            cuts.append([s, m, draw(st.integers(m + ms, n))])
        else:
            s = draw(st.integers(0, n - 2 * ms - 2))
            a = draw(st.integers(s + max(1, ms), n - ms - 1))
            b = draw(st.integers(a + ms, n - 1))
            cuts.append([s, a, b, draw(st.integers(b + 1, n))])
    case = {"scorer": spec, "X": None, "integral": integral, "cuts": cuts, "repr": draw(repr_spec(p, integral)),
            "cuts_as": draw(st.sampled_from(["int64", "list", "int32"]))}
    # bulk data last (see strategies/data.py)
    X = draw(D.exact_matrix(n, p, dyadic=False)) if integral else draw(D.generic_matrix(n, p))
    if isinstance(large, float):
        # positive counts of order 1e8..5e9; the row-dependent remainder (0..370) makes them need more than 24 significant bits
        # (multiples of 1e8 alone fit single precision exactly)
        X = [[(v + 10) * large + 37.0 * ((7 * i + 3 * j) % 11) for j, v in enumerate(row)] for i, row in enumerate(X)]
    elif large == "full_range_int16":
        X = [[max(-32768.0, min(32767.0, v * 4000.0)) for v in row] for row in X]  # rail to rail readings of a 16-bit converter
    elif large:
        off = 30000.0 if large == "offset_30000" else 1e6
        X = [[max(-2.0, min(2.0, v)) + off for v in row] for row in X]
    case["X"] = X
    return case


def check_scorer(case):
    X = case["X"]
    cuts64 = np.asarray(case["cuts"], dtype=np.int64)
    cuts = {"int64": cuts64, "list": [list(map(int, c)) for c in case["cuts"]], "int32": cuts64.astype(np.int32)}[case["cuts_as"]]
    try:
        with sut("scorer canonical fit/evaluate", allowed=(RuntimeError,)):
            want = np.asarray(K.build(case["scorer"]).fit(canonical(X)).evaluate(cuts64))
    except RuntimeError as e:
        if "positive definite" in str(e):
            return {"nontrivial": False, "classes": ["not_pd_error_in_canonical_run"]}
        raise
    with sut("scorer fit/evaluate with generated representation"):
        obj = represent(X, case["repr"])
        got = np.asarray(K.build(case["scorer"]).fit(obj).evaluate(cuts))
    check_caller_index(obj, case["repr"], len(X), "scorer.fit")
    Xa = np.asarray(X, dtype=float)
    magnitude = K.score_magnitude(case["scorer"], Xa, len(Xa))  # rounding of prefix sums is relative to this
    # (the two runs do the same float64 arithmetic on the same numbers - apart from the memory layout of the container, which
    # changes the last bits of matrix products: 1e-11 of the cost terms' magnitude is > 1000 x the prefix-sum rounding bound
    # for n <= 30 and 100 x below what single-precision data would cause)
    if want.shape != got.shape or not np.allclose(want, got, rtol=1e-9, atol=1e-9 * (1 + np.abs(want).max()) + 1e-11 * magnitude):
        raise Violation("scorer output depends on how the same numbers are passed in", scorer=case["scorer"],
                        repr=case["repr"], canonical=want.tolist(), got=got.tolist())
    r = case["repr"]
    noncanon = r["container"] != "DataFrame" or r["dtype"] != "float64" or r["index"]["kind"] != "range0"
    classes = [f"container={r['container']}", f"dtype={r['dtype']}", f"scorer={case['scorer']['cls']}"]
    if np.abs(Xa).max() >= 1e6:
        classes.append("large_counts")
    return {"nontrivial": noncanon, "classes": classes}


def det_facet(det, nq, nt):
    return Facet(name=det, check=check, strategy=lambda tier, d=det: cases(tier, d),
                 rule=(f"{det}: for each entry point separately (fit, update, predict, transform, transform_scores) a representation "
                       "from {2-D/1-D ndarray, Series, DataFrame} x {float64, int64 for integral data} x {9 index kinds incl. repeated time stamps, optionally named} x "
                       "{8 kinds of column labels}; compared with the canonical float64 default-index DataFrame run; "
                       "non-trivial = some non-canonical representation and >= 1 detection"),
                 n_quick=nq, n_thorough=nt, shards_quick=2, shards_thorough=8)


FACETS = [det_facet(d, 200 if d != "CircularBinarySegmentation" else 120, 4000 if d != "CircularBinarySegmentation" else 2000)
          for d in K.DETECTORS] + [
    Facet(name="scorers", check=check_scorer, strategy=scorer_cases,
          rule=("15 scorer configurations (incl. non-integer fixed parameters) fitted on array / Series / DataFrame (int64 or float64, any index) and evaluated with cuts "
                "given as int64 / int32 arrays or nested lists; compared with the canonical run; non-trivial = non-canonical "
                "representation"),
          n_quick=400, n_thorough=6000, shards_quick=4, shards_thorough=8),
]

"""C11 - outputs do not depend on how the same numbers are passed in."""

import numpy as np
from hypothesis import strategies as st

from checks import common as K
from framework.core import Facet, Violation, sut
from strategies import data as D

PROPERTY_ID = "C11"
TECHNIQUE = "Hypothesis-generated representations per entry point (container x dtype x index x column labels); differential against the canonical float64 DataFrame run"
ASSUMPTIONS = [
    "update: fit and update use containers of the same kind (arrays = default-index frames; pandas objects with an index that continues the training index and the same column labels); mixing Series and DataFrame between fit and update is outside the domain (pandas alignment changes the numbers)",
    "int64 representations are used only for integer-valued data",
    "the documented not-PD RuntimeError is accepted if it also occurs in the canonical run",
]

SCORE_DETECTORS = ("PELT", "MovingWindow", "CAPA", "MVCAPA")


@st.composite
def repr_spec(draw, p, integral, index_kinds=D.INDEX_KINDS):
    containers = ["DataFrame", "ndarray2d"] + (["Series", "ndarray1d"] if p == 1 else [])
    return {"container": draw(st.sampled_from(containers)),
            "dtype": draw(st.sampled_from(["int64", "float64"])) if integral else "float64",
            "index": draw(D.index_spec(index_kinds)), "columns": draw(st.sampled_from(["default", "strings"]))}


def represent(X, r, offset=0):
    """Build the container; offset shifts the index so that it continues a previous block."""
    import pandas as pd

    arr = np.asarray(X, dtype=float)
    if r["dtype"] == "int64":
        arr = arr.astype(np.int64)
    n, p = arr.shape
    if r["container"] == "ndarray2d":
        return arr
    if r["container"] == "ndarray1d":
        return arr[:, 0]
    idx = D.build_index(r["index"], n + offset)[offset:]
    if r["container"] == "Series":
        return pd.Series(arr[:, 0], index=idx, name="x" if r["columns"] == "strings" else None)
    cols = [f"v{chr(97 + j)}" for j in range(p)] if r["columns"] == "strings" else list(range(p))
    return pd.DataFrame(arr, index=idx, columns=cols)


def own_index(obj, n):
    import pandas as pd

    if isinstance(obj, (pd.Series, pd.DataFrame)):
        return obj.index
    return pd.RangeIndex(n)


def canonical(X, offset=0):
    import pandas as pd

    arr = np.asarray(X, dtype=float)
    return pd.DataFrame(arr, index=pd.RangeIndex(offset, offset + len(arr)))


def sparse_signature(y):
    kind, ev = K.sparse_events(y)
    sig = {"kind": kind, "events": [list(e) if isinstance(e, tuple) else e for e in ev]}
    if "icolumns" in y.columns:
        sig["icolumns"] = [[int(c) for c in np.asarray(v).reshape(-1)] for v in y["icolumns"].tolist()]
    if "labels" in y.columns:
        sig["labels"] = [int(v) for v in y["labels"].tolist()]
    return sig


@st.composite
def cases(draw, tier, det):
    p = 1 if det == "StatThresholdAnomaliser" else draw(st.integers(1, 3))
    params, n_min = draw(K.detector_params(det, p, max_msl=3, max_bw=4, allow_cov=False))
    nmax = 30 if det != "CircularBinarySegmentation" else 18
    n = draw(st.integers(n_min, max(n_min, nmax)))
    integral = draw(st.sampled_from([True, False]))
    bw = params.get("bandwidth", params.get("min_segment_length", 1))
    X, _ = draw(D.structured_matrix(n, p, exact=integral, boundary_positions=(bw, n - bw)))
    case = {"detector": det, "params": params, "X": X, "integral": integral}
    if draw(st.integers(0, 2)) == 0:
        n2 = draw(st.integers(1, 8))
        X2, _ = draw(D.structured_matrix(n2, p, exact=integral, max_shifts=1, max_spikes=1, max_bumps=1))
        case["X_update"] = X2
        mode = draw(st.sampled_from(["pandas", "arrays"]))
        if mode == "arrays":
            containers = ["ndarray2d"] + (["ndarray1d"] if p == 1 else [])
            r = {"container": draw(st.sampled_from(containers)),
                 "dtype": draw(st.sampled_from(["float64", "int64"])) if integral else "float64",
                 "index": {"kind": "range0"}, "columns": "default"}
            r2 = dict(r, container=draw(st.sampled_from(containers)))
        else:
            r = draw(repr_spec(p, integral))
            r["container"] = draw(st.sampled_from(["DataFrame"] + (["Series"] if p == 1 else [])))
            r2 = dict(r, dtype=draw(st.sampled_from(["float64", "int64"])) if integral else "float64")
        case["update_mode"] = mode
        case["reprs"] = {"fit": r, "update": r2}
    else:
        case["reprs"] = {"fit": draw(repr_spec(p, integral))}
    if draw(st.integers(0, 3)) == 0:
        nt = draw(st.integers(n_min, max(n_min, nmax)))
        Xt, _ = draw(D.structured_matrix(nt, p, exact=integral, boundary_positions=(bw, nt - bw)))
        case["X_test"] = Xt
    for ep in ("predict", "transform", "scores"):
        case["reprs"][ep] = draw(repr_spec(p, integral))
    return case


def run_history(case, canonical_run):
    """Returns dict of outputs, or ('not_pd',) when the documented error occurs."""
    det = K.build(K.detector_spec(case["detector"], case["params"]))
    X = case["X"]
    Xt = case.get("X_test", X)
    n_train = len(X)
    R = case["reprs"]
    out = {}
    det.fit(canonical(X) if canonical_run else represent(X, R["fit"]))
    if "X_update" in case:
        if canonical_run:
            off = 0 if case["update_mode"] == "arrays" else n_train
            det.update(canonical(case["X_update"], off))
        else:
            off = 0 if case["update_mode"] == "arrays" else n_train
            det.update(represent(case["X_update"], R["update"], off))
    for attr in ("threshold_", "penalty_", "collective_penalty_", "point_penalty_"):
        if hasattr(det, attr):
            out[attr] = float(getattr(det, attr))
    obj = canonical(Xt) if canonical_run else represent(Xt, R["predict"])
    out["predict"] = sparse_signature(det.predict(obj))
    obj = canonical(Xt) if canonical_run else represent(Xt, R["transform"])
    dense = det.transform(obj)
    out["dense_values"] = dense.to_numpy().tolist()
    out["dense_index"] = dense.index
    out["dense_index_expected"] = own_index(obj, len(Xt))
    out["dense_ncols"] = dense.shape[1]
    if case["detector"] in SCORE_DETECTORS:
        obj = canonical(Xt) if canonical_run else represent(Xt, R["scores"])
        sc = det.transform_scores(obj)
        out["scores"] = np.asarray(sc, dtype=float).reshape(-1).tolist()
        out["scores_index"] = sc.index
        out["scores_index_expected"] = own_index(obj, len(Xt))
    return out


def check(case):
    name = case["detector"]
    try:
        with sut(f"{name} canonical run", allowed=(RuntimeError,)):
            want = run_history(case, True)
    except RuntimeError as e:
        if "positive definite" in str(e):
            return {"nontrivial": False, "classes": ["not_pd_error_in_canonical_run"]}
        raise Violation(f"unexpected RuntimeError in the canonical run: {e}")
    with sut(f"{name} run with generated representations"):
        got = run_history(case, False)
    for key in ("threshold_", "penalty_", "collective_penalty_", "point_penalty_"):
        if key in want and abs(want[key] - got.get(key, float("nan"))) > 1e-9 * (1 + abs(want[key])):
            raise Violation(f"fitted {key} depends on the representation of the training data", canonical=want[key],
                            got=got.get(key), reprs=case["reprs"])
    if got["predict"] != want["predict"]:
        raise Violation("predict depends on how the same numbers are passed in", canonical=want["predict"],
                        got=got["predict"], reprs=case["reprs"])
    if got["dense_values"] != want["dense_values"]:
        raise Violation("transform's labels depend on how the same numbers are passed in", reprs=case["reprs"],
                        canonical=[r[0] for r in want["dense_values"]], got=[r[0] for r in got["dense_values"]])
    if not got["dense_index"].equals(got["dense_index_expected"]):
        raise Violation("transform's output does not carry X's own index", got=str(got["dense_index"][:4]),
                        expected=str(got["dense_index_expected"][:4]), repr=case["reprs"]["transform"])
    if "scores" in want:
        a, b = np.asarray(want["scores"]), np.asarray(got["scores"])
        if a.shape != b.shape or not np.allclose(a, b, rtol=1e-9, atol=1e-9 * (1 + np.abs(a).max())):
            raise Violation("transform_scores depends on how the same numbers are passed in", reprs=case["reprs"])
        if not got["scores_index"].equals(got["scores_index_expected"]):
            raise Violation("transform_scores' output does not carry X's own index", got=str(got["scores_index"][:4]),
                            expected=str(got["scores_index_expected"][:4]), repr=case["reprs"]["scores"])
    R = case["reprs"]
    noncanon = any(r["container"] != "DataFrame" or r["dtype"] != "float64" or r["index"]["kind"] != "range0"
                   or r["columns"] != "default" for r in R.values())
    classes = []
    for ep, r in R.items():
        classes.append(f"{ep}:{r['container']}")
    if "X_update" in case:
        classes.append(f"update_mode={case['update_mode']}")
    if any(r["dtype"] == "int64" for r in R.values()):
        classes.append("int64")
    if any(r["index"]["kind"].startswith(("datetime", "period")) and r["container"] in ("DataFrame", "Series") for r in R.values()):
        classes.append("time_index")
    has_event = bool(want["predict"]["events"])
    if has_event:
        classes.append("has_detection")
    return {"nontrivial": noncanon and has_event, "classes": classes}


# ------------------------------------------------------------------ scorers


SCORER_SPECS = [{"cls": "L2Cost", "param": 0.5}, {"cls": "L2Cost"}, {"cls": "GaussianVarCost"},
                {"cls": "GaussianVarCost", "param": {"tuple": [0.25, 2.5]}}, {"cls": "GaussianCovCost"},
                {"cls": "GaussianCovCost", "param": {"tuple": [0.5, 1.5]}},
                {"cls": "Saving", "baseline_cost": {"cls": "L2Cost", "param": 0.5}},
                {"cls": "Saving", "baseline_cost": {"cls": "GaussianVarCost", "param": {"tuple": [0.5, 1.5]}}},
                {"cls": "CUSUM"}, {"cls": "ChangeScore", "cost": {"cls": "GaussianVarCost"}}, {"cls": "L2Saving"},
                {"cls": "Saving", "baseline_cost": {"cls": "L2Cost", "param": 0.0}},
                {"cls": "LocalAnomalyScore", "cost": {"cls": "L2Cost"}},
                {"cls": "LocalAnomalyScore", "cost": {"cls": "GaussianVarCost"}}]


@st.composite
def scorer_cases(draw, tier):
    spec = draw(st.sampled_from(SCORER_SPECS))
    p = draw(st.integers(1, 3))
    ms = K.scorer_min_size(spec, p)
    n = draw(st.integers(max(2 * ms + 2, 6), 30))
    integral = draw(st.sampled_from([True, False]))
    X = draw(D.exact_matrix(n, p, dyadic=False)) if integral else draw(D.generic_matrix(n, p))
    squared_error_family = "Gaussian" not in str(spec)
    if integral and squared_error_family and draw(st.integers(0, 3)) == 0:
        # large counts: still exactly representable in both dtypes (sums of squares stay below 2^63 and 2^53 x 1e3)
        X = [[(v + 10) * 2e7 for v in row] for row in X]  # positive counts of order 1e8: sums of ~20 rows exceed 2^31.5
    k = {"CUSUM": 3, "ChangeScore": 3, "LocalAnomalyScore": 4}.get(spec["cls"], 2)
    cuts = []
    for _ in range(draw(st.integers(1, 5))):
        if k == 2:
            s = draw(st.integers(0, n - ms))
            cuts.append([s, draw(st.integers(s + ms, n))])
        elif k == 3:
            s = draw(st.integers(0, n - 2 * ms))
            m = draw(st.integers(s + ms, n - ms))
            cuts.append([s, m, draw(st.integers(m + ms, n))])
        else:
            s = draw(st.integers(0, n - 2 * ms - 2))
            a = draw(st.integers(s + max(1, ms), n - ms - 1))
            b = draw(st.integers(a + ms, n - 1))
            cuts.append([s, a, b, draw(st.integers(b + 1, n))])
    return {"scorer": spec, "X": X, "integral": integral, "cuts": cuts, "repr": draw(repr_spec(p, integral)),
            "cuts_as": draw(st.sampled_from(["int64", "list", "int32"]))}


def check_scorer(case):
    X = case["X"]
    cuts64 = np.asarray(case["cuts"], dtype=np.int64)
    cuts = {"int64": cuts64, "list": [list(map(int, c)) for c in case["cuts"]], "int32": cuts64.astype(np.int32)}[case["cuts_as"]]
    try:
        with sut("scorer canonical fit/evaluate", allowed=(RuntimeError,)):
            want = np.asarray(K.build(case["scorer"]).fit(canonical(X)).evaluate(cuts64))
    except RuntimeError as e:
        if "positive definite" in str(e):
            return {"nontrivial": False, "classes": ["not_pd_error_in_canonical_run"]}
        raise
    with sut("scorer fit/evaluate with generated representation"):
        got = np.asarray(K.build(case["scorer"]).fit(represent(X, case["repr"])).evaluate(cuts))
    Xa = np.asarray(X, dtype=float)
    magnitude = K.score_magnitude(case["scorer"], Xa, len(Xa))  # rounding of prefix sums is relative to this
    if want.shape != got.shape or not np.allclose(want, got, rtol=1e-9, atol=1e-9 * (1 + np.abs(want).max() + magnitude)):
        raise Violation("scorer output depends on how the same numbers are passed in", scorer=case["scorer"],
                        repr=case["repr"], canonical=want.tolist(), got=got.tolist())
    r = case["repr"]
    noncanon = r["container"] != "DataFrame" or r["dtype"] != "float64" or r["index"]["kind"] != "range0"
    classes = [f"container={r['container']}", f"dtype={r['dtype']}", f"scorer={case['scorer']['cls']}"]
    if np.abs(Xa).max() >= 1e6:
        classes.append("large_counts")
    return {"nontrivial": noncanon, "classes": classes}


def det_facet(det, nq, nt):
    return Facet(name=det, check=check, strategy=lambda tier, d=det: cases(tier, d),
                 rule=(f"{det}: for each entry point separately (fit, update, predict, transform, transform_scores) a representation "
                       "from {2-D/1-D ndarray, Series, DataFrame} x {float64, int64 for integral data} x {7 index kinds} x "
                       "{default, string columns}; compared with the canonical float64 default-index DataFrame run; "
                       "non-trivial = some non-canonical representation and >= 1 detection"),
                 n_quick=nq, n_thorough=nt, shards_quick=2, shards_thorough=8)


FACETS = [det_facet(d, 200 if d != "CircularBinarySegmentation" else 120, 4000 if d != "CircularBinarySegmentation" else 2000)
          for d in K.DETECTORS] + [
    Facet(name="scorers", check=check_scorer, strategy=scorer_cases,
          rule=("15 scorer configurations (incl. non-integer fixed parameters) fitted on array / Series / DataFrame (int64 or float64, any index) and evaluated with cuts "
                "given as int64 / int32 arrays or nested lists; compared with the canonical run; non-trivial = non-canonical "
                "representation"),
          n_quick=400, n_thorough=6000, shards_quick=4, shards_thorough=8),
]

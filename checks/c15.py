"""C15 - thresholds and penalties follow their documented formulas and act monotonically."""

import itertools
import math

import numpy as np
from hypothesis import strategies as st

from checks import common as K
from framework.core import Facet, Violation, sut
from oracles import reference as ref
from strategies import data as D

PROPERTY_ID = "C15"
TECHNIQUE = "Hypothesis-generated shapes/scales/settings vs. formulas re-implemented from the property text, an independent linear-interpolation quantile, an exhaustive (n,p,k,scale) grid for the MVCAPA families, and a metamorphic penalty-monotonicity relation for PELT"
ASSUMPTIONS = [
    "MovingWindow / CircularBinarySegmentation: the detector's own published static get_default_threshold is the reference (pins argument order and scaling), as the property states",
    "tuned thresholds: training scores are observed through transform_scores (MovingWindow) or the scores table after predict on the training data",
    "PELT monotonicity is asserted for penalties that differ by more than 1e-6 (1 + |optimal value|)",
]


def capa_pen(n, m, scale):
    return scale * (m + 2 * math.sqrt(m * math.log(n)) + 2 * math.log(n))


def close(a, b, rel=1e-12):
    return abs(a - b) <= rel * (1 + abs(b))


# ------------------------------------------------------------------ (i) formulas


_COSTS = [{"cls": "L2Cost"}, {"cls": "GaussianVarCost"}, {"cls": "GaussianCovCost"}, {"cls": "L1Cost"},
          {"cls": "TrendPenalisedL2Cost"}, {"cls": "L2Cost", "param": 0.5}, {"cls": "GaussianVarCost", "param": {"tuple": [0.0, 1.0]}}]
_CHANGE_SCORES = [{"cls": "CUSUM"}, {"cls": "ChangeScore", "cost": {"cls": "GaussianVarCost"}}, {"cls": "GaussianVarCost"},
                  {"cls": "ChangeScore", "cost": {"cls": "GaussianCovCost"}}, {"cls": "L1Cost"}, {"cls": "WeightedCUSUM"}]
SCORER_CHOICES = {
    "PELT": [None] + _COSTS,
    "SeededBinarySegmentation": [None] + _CHANGE_SCORES,
    "MovingWindow": [None] + _CHANGE_SCORES,
    "CircularBinarySegmentation": [None, {"cls": "L2Cost"}, {"cls": "GaussianVarCost"}, {"cls": "LocalAnomalyScore", "cost": {"cls": "GaussianCovCost"}},
                                   {"cls": "LocalAnomalyScore", "cost": {"cls": "GaussianVarCost"}}],
}


@st.composite
def formula_cases(draw, tier):
    det = draw(st.sampled_from(["PELT", "SeededBinarySegmentation", "CAPA", "MovingWindow", "CircularBinarySegmentation"]))
    p = draw(st.integers(1, 5))
    scale = draw(st.one_of(st.sampled_from([0.5, 2.5, 0.0, 1.0, 3.7, 2.0, 3.0]), st.floats(0.0, 10.0, allow_nan=False)))
    # a whole-numbered scale may come out of a grid scan as a NumPy integer (for s in np.arange(1, 4): ...)
    case = {"detector": det, "p": p, "scale": scale, "scale_type": "np.int64" if float(scale).is_integer() and draw(st.booleans()) else "python",
            # afterwards the fitted detector is applied to a series of another length: the fitted value must stay what fit made it
            "then_predict": draw(st.sampled_from([None, "shorter", "longer", "longer"]))}
    # the documented defaults depend on the shape of the data only, whatever scorer (and number of parameters it estimates) is used
    scorer = draw(st.sampled_from(SCORER_CHOICES[det])) if det in SCORER_CHOICES else None
    msl = 2
    if scorer is not None and "GaussianCovCost" in str(scorer):
        p = case["p"] = draw(st.integers(1, 3))
        msl = p + 1
    if det == "PELT":
        case["n"] = draw(st.integers(2 * msl, 400))
        case["params"] = {"penalty_scale": scale, "min_segment_length": msl}
        if scorer is not None:
            case["params"]["cost"] = scorer
    elif det == "SeededBinarySegmentation":
        case["n"] = draw(st.integers(2 * msl, 400))
        case["params"] = {"threshold_scale": scale, "min_segment_length": msl, "max_interval_length": draw(st.integers(2 * msl, 300))}
        if scorer is not None:
            case["params"]["change_score"] = scorer
    elif det == "CAPA":
        sav = draw(st.sampled_from(["L2", "GaussianVar", "GaussianCov", "default"]))
        if sav == "GaussianCov":
            p = draw(st.integers(1, 3))
            case["p"] = p
        spec = {"L2": {"cls": "L2Cost", "param": 0.0}, "GaussianVar": {"cls": "GaussianVarCost", "param": {"tuple": [0.0, 1.0]}},
                "GaussianCov": {"cls": "GaussianCovCost", "param": {"tuple": [0.0, 1.0]}}, "default": None}[sav]
        case["saving"] = sav
        msl = {"L2": 2, "default": 2, "GaussianVar": 2, "GaussianCov": p + 1}[sav]
        case["n"] = draw(st.integers(max(msl, 3), 400))
        case["params"] = {"collective_saving": spec, "collective_penalty_scale": scale,
                          "point_penalty_scale": draw(st.sampled_from([0.5, 1.0, 0.0, 2.0])), "min_segment_length": max(2, msl)}
    elif det == "MovingWindow":
        bw = draw(st.integers(msl, 40))
        case["n"] = draw(st.integers(2 * bw + 1, 2 * bw + 300))
        case["params"] = {"bandwidth": bw, "threshold_scale": scale, "level": draw(st.one_of(st.sampled_from([0.01, 0.05, 0.3, 0.999, 0.9999, 1 - 1e-9, 1e-12]), st.floats(1e-6, 0.9),
                                                  st.floats(0.9, 1 - 1e-6)))}
        if scorer is not None:
            case["params"]["change_score"] = scorer
    else:
        mil = draw(st.integers(2 * msl, 300))
        case["n"] = draw(st.integers(2 * msl, 200))
        case["params"] = {"threshold_scale": scale, "min_segment_length": msl, "max_interval_length": mil}
        if scorer is not None:
            case["params"]["anomaly_score"] = scorer
    if scorer is not None:
        case["scorer"] = scorer["cls"] + ("(" + next(iter(v["cls"] for v in scorer.values() if isinstance(v, dict) and "cls" in v), "") + ")")
    return case


def fitted_values(det_name, params, n, p):
    X = np.zeros((n, p))
    det = K.build(K.detector_spec(det_name, params)).fit(X)
    return det


def check_formula(case):
    det_name, n, p, scale, params = case["detector"], case["n"], case["p"], case["scale"], case["params"]
    if case.get("scale_type") == "np.int64":
        main = [k for k in params if k.endswith("scale") and not k.startswith("point")][0]
        params = dict(params, **{main: np.int64(int(scale))})
    with sut(f"{det_name}.fit"):
        det = fitted_values(det_name, params, n, p)
    reg = K.registry()
    if det_name == "PELT":
        got, want, attr = det.penalty_, scale * 2 * p * math.log(n), "penalty_"
    elif det_name == "SeededBinarySegmentation":
        got, want, attr = det.threshold_, scale * 2 * p * math.sqrt(math.log(n)), "threshold_"
    elif det_name == "CAPA":
        k = {"L2": p, "default": p, "GaussianVar": 2 * p, "GaussianCov": p + p * (p + 1) // 2}[case["saving"]]
        got, want, attr = det.collective_penalty_, capa_pen(n, k, scale), "collective_penalty_"
    elif det_name == "MovingWindow":
        base = reg["MovingWindow"].get_default_threshold(n, p, params["bandwidth"], params["level"])
        got, want, attr = det.threshold_, scale * base, "threshold_"
    else:
        base = reg["CircularBinarySegmentation"].get_default_threshold(n, p, params["max_interval_length"])
        got, want, attr = det.threshold_, scale * base, "threshold_"
    if not close(float(got), float(want), 1e-10):
        raise Violation(f"{det_name}.{attr} differs from scale x documented default", n=n, p=p, scale=scale,
                        got=float(got), expected=float(want), params=params)
    # proportionality f(s) = s f(1)
    key = [k for k in params if k.endswith("scale") and not k.startswith("point")][0]
    with sut(f"{det_name}.fit (scale 1)"):
        det1 = fitted_values(det_name, dict(params, **{key: 1.0}), n, p)
    if not close(float(got), scale * float(getattr(det1, attr)), 1e-10):
        raise Violation(f"{det_name}.{attr} is not proportional to the scale", scale=scale, got=float(got),
                        at_scale_one=float(getattr(det1, attr)))
    if det_name == "CAPA":
        ps = params["point_penalty_scale"]
        with sut("CAPA.fit (point scale 1)"):
            detp = fitted_values(det_name, dict(params, point_penalty_scale=1.0), n, p)
        if not close(float(det.point_penalty_), ps * float(detp.point_penalty_), 1e-10) or det.point_penalty_ < 0:
            raise Violation("CAPA.point_penalty_ is not proportional to point_penalty_scale", scale=ps,
                            got=float(det.point_penalty_), at_scale_one=float(detp.point_penalty_))
    classes = [f"det={det_name}", f"scorer={case.get('scorer', 'default')}"] + (["numpy_integer_scale"] if case.get("scale_type") == "np.int64" else [])
    if case.get("then_predict"):
        # "after fit, the threshold or penalty equals the scale times the default value for the shape of the TRAINING data": applying
        # the fitted detector to a series of another length must not change it
        n_min = {"PELT": 2 * params.get("min_segment_length", 2), "SeededBinarySegmentation": 2 * params.get("min_segment_length", 2),
                 "CircularBinarySegmentation": 2 * params.get("min_segment_length", 2), "CAPA": params.get("min_segment_length", 2),
                 "MovingWindow": 2 * params.get("bandwidth", 1)}[det_name]
        n2 = max(n_min, min(n // 2 - 1, 120)) if case["then_predict"] == "shorter" or n > 150 else n + 37
        # (the cost of a predict grows quickly with n for the user L1 cost and for circular binary segmentation: bounded lengths)
        if det_name == "CircularBinarySegmentation":
            n2 = min(n2, 60) if params["max_interval_length"] <= 40 else n
        if n2 != n:
            attrs = [attr] + (["point_penalty_"] if det_name == "CAPA" else [])
            before = [float(getattr(det, a)) for a in attrs]
            X2 = np.random.Generator(np.random.PCG64(1000 * n2 + p)).standard_normal((n2, p))  # a function of the case
            X2[n2 // 2:] += 1.0
            try:
                with sut(f"{det_name}.predict / transform_scores on a series of another length", allowed=(RuntimeError,)):
                    det.predict(X2)
                    if det_name in ("PELT", "MovingWindow", "CAPA"):
                        det.transform_scores(X2)
            except RuntimeError as e:  # the documented not-positive-definite error of a covariance-based scorer (short windows)
                if "positive definite" not in str(e):
                    raise Violation(f"unexpected RuntimeError: {e}")
                classes.append("not_pd_error_accepted")
            after = [float(getattr(det, a)) for a in attrs]
            if before != after:
                raise Violation(f"{det_name}: the fitted {' / '.join(attrs)} changed when the fitted detector was applied to a series of another length",
                                n_train=n, n_predict=n2, before=before, after=after, params=params)
            classes.append(f"then_predict={case['then_predict']}")
    return {"nontrivial": scale not in (0.0, 1.0), "classes": classes}


# ------------------------------------------------------------------ (ii) tuned thresholds


@st.composite
def tuned_cases(draw, tier):
    det = draw(st.sampled_from(["MovingWindow", "SeededBinarySegmentation", "CircularBinarySegmentation"]))
    p = draw(st.integers(1, 3))
    level = draw(st.one_of(st.sampled_from([0.1, 0.01, 0.5, 0.3, 1e-8]), st.floats(1e-6, 0.9)))
    if det == "MovingWindow":
        sc = draw(st.sampled_from([None, {"cls": "L2Cost"}, {"cls": "GaussianVarCost"}]))
        bw = draw(st.integers(K.scorer_min_size(sc, p), 10))
        n = draw(st.integers(2 * bw, 70))
        params = {"change_score": sc, "bandwidth": bw, "threshold_scale": None, "level": level,
                  "min_detection_interval": draw(st.integers(1, int(max(1, bw / 2 - 1))))}
    elif det == "SeededBinarySegmentation":
        sc = draw(st.sampled_from([None, {"cls": "L2Cost"}, {"cls": "GaussianVarCost"}]))
        msl = draw(st.integers(K.scorer_min_size(sc, p), 4))
        n = draw(st.integers(2 * msl, 50))
        params = {"change_score": sc, "threshold_scale": None, "level": level, "min_segment_length": msl,
                  "max_interval_length": draw(st.integers(2 * msl, 2 * msl + 30)), "growth_factor": draw(K.growth_strategy)}
    else:
        sc = draw(st.sampled_from([None, {"cls": "GaussianVarCost"}]))
        msl = draw(st.integers(K.scorer_min_size(sc, p), 3))
        n = draw(st.integers(2 * msl, 20))
        params = {"anomaly_score": sc, "threshold_scale": None, "level": level, "min_segment_length": msl,
                  "max_interval_length": draw(st.integers(2 * msl, 2 * msl + 10)), "growth_factor": draw(K.growth_strategy)}
    with_y = draw(st.integers(0, 3)) == 0
    X = draw(D.any_matrix(n, p))
    return {"detector": det, "params": params, "X": X, "with_y": with_y and n >= 5}


def tuned_long_cells(tier):
    """Tuned thresholds on training series with thousands of scores (600-2600 samples; > 2000 seeded intervals for the two
    binary segmentations), optionally with an annotation `y` of the true changepoints passed to fit (documented as ignored)."""
    cells = [("CircularBinarySegmentation", {"min_segment_length": 1, "max_interval_length": 4, "growth_factor": 2.0}, 1700),
             ("CircularBinarySegmentation", {"min_segment_length": 2, "max_interval_length": 8, "growth_factor": 1.5}, 2100),
             ("SeededBinarySegmentation", {"min_segment_length": 1, "max_interval_length": 20, "growth_factor": 1.5}, 1500),
             ("MovingWindow", {"bandwidth": 20}, 2600), ("MovingWindow", {"bandwidth": 5, "min_detection_interval": 1}, 800),
             # fine grids of interval lengths (growth 1.1-1.25): the candidate list holds one interval twice (counted, from the table)
             ("SeededBinarySegmentation", {"min_segment_length": 5, "max_interval_length": 60, "growth_factor": 1.25}, 127),
             ("SeededBinarySegmentation", {"min_segment_length": 3, "max_interval_length": 100, "growth_factor": 1.15}, 125),
             ("CircularBinarySegmentation", {"min_segment_length": 5, "max_interval_length": 60, "growth_factor": 1.25}, 120)]
    if tier != "quick":
        cells += [("CircularBinarySegmentation", {"min_segment_length": 5, "max_interval_length": 20, "growth_factor": 1.5}, 2400),
                  ("SeededBinarySegmentation", {"min_segment_length": 5, "max_interval_length": 200, "growth_factor": 1.5}, 6000)]
    for i, (det, params, n) in enumerate(cells):
        for level in (0.05, 0.2):
            for with_y in (False, True):
                yield {"detector": det, "params": dict(params, threshold_scale=None, level=level), "n": n, "seed": 32000 + i, "with_y": with_y}


def check_tuned_long(case):
    X, kind = D.realistic_series(case["seed"], case["n"], 1, "shifts")
    return check_tuned({"detector": case["detector"], "params": case["params"], "X": X, "with_y": case["with_y"]})


def check_tuned(case):
    det_name, params = case["detector"], case["params"]
    X = np.asarray(case["X"], dtype=float)
    y = None
    if case.get("with_y"):
        import pandas as pd

        # an annotation of where the training series changes (sparse format): fit documents `y` as ignored
        d = np.abs(np.diff(X[:, 0]))
        y = pd.DataFrame({"ilocs": np.sort(np.argsort(d)[-3:] + 1).astype(int)})
    with sut(f"{det_name}.fit/predict (tuned)"):
        det = K.build(K.detector_spec(det_name, params)).fit(X, y) if y is not None else K.build(K.detector_spec(det_name, params)).fit(X)
        thr = float(det.threshold_)
        if det_name == "MovingWindow":
            train = np.asarray(det.transform_scores(X), dtype=float).reshape(-1)
        else:
            det.predict(X)
            train = det.scores["score"].to_numpy().astype(float)
    level = params["level"]
    want = ref.quantile_linear(train, 1 - level)
    spread = float(np.max(train) - np.min(train)) if len(train) else 0.0
    if abs(thr - want) > 1e-9 * (1 + abs(want) + spread):
        raise Violation("tuned threshold is not the (1 - level) quantile of the training scores", level=level,
                        threshold=thr, quantile=want, n_scores=len(train))
    N = len(train)
    # "at most a fraction level of them exceed it" (sound integer form for linear interpolation)
    tol = 1e-9 * (1 + abs(thr) + spread)
    exceed = int(np.sum(train > thr + tol))
    if exceed > math.floor(level * (N - 1) + 1e-9) + 1:
        raise Violation("more than a fraction level of the training scores exceed the tuned threshold", level=level,
                        exceed=exceed, n_scores=N)
    distinct = len(set(np.round(train, 12)))
    classes = [f"det={det_name}", f"n_scores>={(N // 1000) * 1000}"] + (["y_annotated"] if y is not None else [])
    if det_name != "MovingWindow":
        a_, b_ = ("interval_start", "interval_end") if "interval_start" in det.scores.columns else ("start", "end")
        pairs = list(zip(det.scores[a_].tolist(), det.scores[b_].tolist()))
        if len(set(pairs)) < len(pairs):
            classes.append("candidate_list_holds_an_interval_twice")
    return {"nontrivial": distinct >= 3, "classes": classes}


# ------------------------------------------------------------------ (iii) MVCAPA families (grid)

NS = [2, 3, 5, 10, 17, 100, 1000, 12345, 100000]
PS = list(range(1, 13)) + [16, 20, 24, 26, 28, 30, 31, 32, 33, 40, 64]
KS = [1, 2, 3, 5]
# each scale is followed, later in the same process, by one that agrees with it to six significant digits
SCALES = [0.0, 0.5, 1.0, 2.5, 2.5 * (1 + 4e-7), 1.0 + 3e-7, 0.5000002, 5e-324]


def family_cells(tier):
    for n, p, k in itertools.product(NS, PS, KS):
        yield {"n": n, "p": p, "k": k}


def check_family_cell(case):
    from skchange.anomaly_detectors import mvcapa as M

    n, p, k = case["n"], case["p"], case["k"]
    count = 0
    for scale in SCALES:
        fams = {}
        with sut("mvcapa penalty functions"):
            fams["dense"] = M.dense_mvcapa_penalty(n, p, k, scale)
            fams["sparse"] = M.sparse_mvcapa_penalty(n, p, k, scale)
            if p >= 2:
                fams["intermediate"] = M.intermediate_mvcapa_penalty(n, p, k, scale)
            fams["combined"] = M.combined_mvcapa_penalty(n, p, k, scale)
            unit = {name: (M.capa_penalty_factory(name)(n, p, k, 1.0)) for name in fams}
        cums = {}
        for name, (alpha, betas) in fams.items():
            betas = np.asarray(betas, dtype=float)
            count += 1
            if betas.shape != (p,):
                raise Violation("per-component penalties do not have one entry per component", family=name, n=n, p=p, k=k,
                                shape=list(betas.shape))
            big = 1 + abs(alpha) + float(np.abs(betas).sum())
            if alpha < -1e-12 * big or np.any(betas < -1e-9 * big):
                raise Violation("penalty is negative or decreasing in the number of components", family=name, n=n, p=p,
                                k=k, scale=scale, alpha=float(alpha), betas=betas.tolist())
            ua, ub = unit[name]
            if not close(alpha, scale * ua, 1e-9) or np.any(np.abs(betas - scale * np.asarray(ub)) > 1e-9 * big):
                raise Violation("penalty family is not proportional to the scale", family=name, n=n, p=p, k=k, scale=scale,
                                alpha=float(alpha), alpha_at_scale_one=float(ua))
            cums[name] = alpha + np.cumsum(betas)
        # dense
        a, b = fams["dense"]
        if not close(a, capa_pen(n, p * k, scale), 1e-10) or np.any(np.asarray(b) != 0):
            raise Violation("dense penalty is not CAPA's penalty for all p*k parameters with zero per-component part",
                            n=n, p=p, k=k, scale=scale, alpha=float(a), expected=capa_pen(n, p * k, scale))
        # sparse
        a, b = fams["sparse"]
        if not close(a, scale * 2 * math.log(n), 1e-10) or \
                np.any(np.abs(np.asarray(b) - scale * 2 * math.log(k * p)) > 1e-10 * (1 + abs(scale * 2 * math.log(k * p)))):
            raise Violation("sparse penalty is not (2 log n, 2 log(k p)) x scale", n=n, p=p, k=k, scale=scale,
                            alpha=float(a), betas=np.asarray(b).tolist())
        # combined
        if p >= 2:
            want = np.minimum(cums["dense"], np.minimum(cums["sparse"], cums["intermediate"]))
        else:
            # the intermediate penalty does not exist for p = 1 (it raises), so the right-hand side of the clause is undefined
            # there: the library returns the dense penalty (CAPA's univariate penalty), the minimum over the two families that
            # exist would be the sparse one. Either reading is accepted - the value must be one of the two.
            want = cums["dense"] if np.all(np.abs(cums["combined"] - cums["dense"]) <= 1e-9 * (1 + np.abs(cums["dense"]))) \
                else np.minimum(cums["dense"], cums["sparse"])
        if np.any(np.abs(cums["combined"] - want) > 1e-9 * (1 + np.abs(want))):
            j = int(np.argmax(np.abs(cums["combined"] - want)))
            raise Violation("combined penalty is not the pointwise minimum of the dense, sparse and intermediate penalties",
                            n=n, p=p, k=k, scale=scale, components=j + 1, got=float(cums["combined"][j]),
                            expected=float(want[j]))
    return {"nontrivial": True, "weight": count, "nontrivial_weight": count - 1,
            "classes": [f"p>=2" if p >= 2 else "p=1"]}


# ------------------------------------------------------------------ (iv) PELT monotonicity


@st.composite
def monotone_cases(draw, tier):
    cost = draw(st.sampled_from([None, {"cls": "L2Cost"}, {"cls": "GaussianVarCost"}]))
    p = draw(st.integers(1, 3))
    msl = draw(st.integers(K.scorer_min_size(cost, p), 4))
    n = draw(st.integers(2 * msl, 50))
    s1 = draw(st.one_of(st.sampled_from([0.0, 0.1, 0.5, 1.0]), st.floats(0, 2)))
    s2 = s1 + draw(st.one_of(st.sampled_from([0.01, 0.1, 0.5, 2.0]), st.floats(1e-3, 3)))
    X, _ = draw(D.structured_matrix(n, p, boundary_positions=(msl, n - msl)))  # bulk data last (strategies/data.py)
    return {"cost": cost, "msl": msl, "X": X, "s1": s1, "s2": s2}


def check_monotone(case):
    X = np.asarray(case["X"], dtype=float)
    outs = []
    with sut("PELT.fit/predict at two penalties"):
        for s in (case["s1"], case["s2"]):
            det = K.build({"cls": "PELT", "cost": case["cost"], "penalty_scale": s, "min_segment_length": case["msl"]}).fit(X)
            y = det.predict(X)
            outs.append((float(det.penalty_), len(y), float(det.scores.to_numpy()[-1])))
    (b1, m1, f1), (b2, m2, f2) = outs
    if b2 - b1 <= 1e-6 * (1 + abs(f1) + abs(f2)):
        return {"nontrivial": False, "classes": ["penalties_too_close_skipped"]}
    if m2 > m1:
        raise Violation("a larger penalty increased the number of changepoints PELT reports", penalties=[b1, b2],
                        changepoints=[m1, m2])
    classes = []
    if m2 < m1:
        classes.append("penalty_removed_some")
    if m1 > 0:
        classes.append("has_changepoint")
    return {"nontrivial": m1 > 0, "classes": classes}


FACETS = [
    Facet(name="formulas", check=check_formula, strategy=formula_cases,
          rule=("PELT / SeededBinSeg / CAPA (savings with p, 2p or p+p(p+1)/2 parameters) / MovingWindow / CircularBinSeg fitted on "
                "generated shapes (n up to 400, p up to 5), scales in [0,10], bandwidths, levels, max_interval_lengths; fitted value "
                "== scale x formula from the property text (or the detector's published static default) and == scale x value at "
                "scale 1, incl. CAPA's point penalty; non-trivial = scale not in {0,1}"),
          n_quick=600, n_thorough=8000, shards_quick=4, shards_thorough=8),
    Facet(name="tuned_thresholds", check=check_tuned, strategy=tuned_cases,
          rule=("threshold_scale=None for MovingWindow / Seeded / Circular BinSeg on generated data and levels; threshold_ == "
                "independent linear-interpolation quantile of the observed training scores and #exceedances <= floor(level (N-1))+1; in a quarter of the cases "
                "an annotation y is passed to fit; "
                "non-trivial = >= 3 distinct training scores"),
          n_quick=480, n_thorough=6000, shards_quick=8, shards_thorough=16),
    Facet(name="tuned_long_series", kind="enumerate", enumerate=tuned_long_cells, check=check_tuned_long, exhaustive=True, time_limit=600,
          rule=("tuned thresholds on training series of 700-2600 samples (thorough: 6000) with thousands of training scores (> 2000 seeded intervals "
                "for the binary segmentations), levels 0.05 / 0.2, with and without an annotation y of changepoints passed to fit (documented as "
                "ignored); same quantile model; 20 cells (thorough: 28), non-trivial = >= 3 distinct training scores"),
          shards_quick=10, shards_thorough=14, max_samples=1),
    Facet(name="mvcapa_families", kind="enumerate", enumerate=family_cells, check=check_family_cell, exhaustive=True,
          rule=("grid n in {2,3,5,10,17,100,1000,12345,100000} x p in 1..12 and {16,20,24,26,28,30,31,32,33,40,64} x k in {1,2,3,5} x scale in {0,.5,1,2.5} x families "
                "dense/sparse/intermediate/combined: shape, non-negativity, monotone cumulative penalty, proportionality, closed "
                "forms of dense and sparse, combined == pointwise minimum (p>=2) / dense or min(dense, sparse) for p=1, where the intermediate penalty does not exist; exhaustive in both tiers"),
          shards_quick=8, shards_thorough=8, max_samples=2),
    Facet(name="pelt_penalty_monotone", check=check_monotone, strategy=monotone_cases,
          rule=("PELT on structured data at two penalty scales s1 < s2 (difference above the rounding bound): number of changepoints "
                "must not increase; non-trivial = >= 1 changepoint at the smaller penalty"),
          n_quick=480, n_thorough=6000, shards_quick=8, shards_thorough=16),
]

"""C12 - detections respect the model's symmetries: permutation, shift, scale, reversal."""

import numpy as np
from hypothesis import strategies as st

from checks import common as K
from checks.c07 import oracle_scorer_spec
from checks.c09 import inner_intervals, oracle_spec as local_oracle_spec
from framework.core import Facet, Violation, sut
from oracles import reference as ref
from strategies import data as D

PROPERTY_ID = "C12"
TECHNIQUE = "Hypothesis-generated data and transformations; metamorphic relations: continuous outputs within the prefix-sum error model, optimisers re-evaluated on the original objective, discrete outputs under a decision-margin rule"
ASSUMPTIONS = [
    "data: float structured signals with noise scale >= 1e-2 (variances well above the floor); slices whose variance falls below 1e-8 x scale^2 are skipped for Gaussian scorers (counted)",
    "PELT / CAPA / MVCAPA: the transformed run's result, re-evaluated on the original objective, must attain the original optimum within the error model (exact ties cannot alarm)",
    "threshold detectors: score tables are compared within the error model; detections must be equal whenever the decision margin (threshold distance, pairwise score gaps, per-interval argmax gap) exceeds 1e-7 (1+scale) + error bound; otherwise the case is counted as margin_not_satisfied",
]

# ------------------------------------------------------------------ scorers (continuous relations)

SCORERS = {
    "L2Cost": ({"cls": "L2Cost"}, 2, {"permute", "reverse"}),
    "L2Cost(fixed)": ({"cls": "L2Cost", "param": 0.5}, 2, {"permute", "reverse"}),
    "GaussianVarCost": ({"cls": "GaussianVarCost"}, 2, {"permute", "reverse"}),
    "GaussianCovCost": ({"cls": "GaussianCovCost"}, 2, {"permute", "reverse"}),
    "CUSUM": ({"cls": "CUSUM"}, 3, {"permute", "shift", "reverse"}),
    "ChangeScore(L2Cost)": ({"cls": "ChangeScore", "cost": {"cls": "L2Cost"}}, 3, {"permute", "shift", "reverse"}),
    "ChangeScore(GaussianVarCost)": ({"cls": "ChangeScore", "cost": {"cls": "GaussianVarCost"}}, 3, {"permute", "shift", "scale", "reverse"}),
    "ChangeScore(GaussianCovCost)": ({"cls": "ChangeScore", "cost": {"cls": "GaussianCovCost"}}, 3, {"permute", "shift", "scale", "reverse"}),
    "LocalAnomalyScore(L2Cost)": ({"cls": "LocalAnomalyScore", "cost": {"cls": "L2Cost"}}, 4, {"permute", "shift", "reverse"}),
    "LocalAnomalyScore(GaussianVarCost)": ({"cls": "LocalAnomalyScore", "cost": {"cls": "GaussianVarCost"}}, 4, {"permute", "shift", "scale", "reverse"}),
    # a fixed mean vector and a fixed NON-diagonal covariance (AR(1) correlations 0.5^|i-j|, standard deviations 1, 1.5, 2 ...): under a
    # permutation of the columns the parameters are permuted alike (see scorer_spec)
    "GaussianCovCost(fixed)": ({"cls": "GaussianCovCost", "param": {"tuple": [0.0, 1.0]}}, 2, {"permute", "reverse"}),
    "L2Saving": ({"cls": "L2Saving"}, 2, {"permute", "reverse"}),
    "Saving(L2Cost(0))": ({"cls": "Saving", "baseline_cost": {"cls": "L2Cost", "param": 0.0}}, 2, {"permute", "reverse"}),
}


def scorer_spec(name, p, t=None):
    """The spec of scorer `name` for p columns - for the data transformed by t, if given (fixed vector parameters follow the columns)."""
    if name != "GaussianCovCost(fixed)":
        return SCORERS[name][0]
    idx = np.arange(p)
    mean, sd = 0.25 * (1 + idx), 1.0 + 0.5 * idx
    cov = 0.5 ** np.abs(idx[:, None] - idx[None, :]) * np.outer(sd, sd)
    if t is not None and t["kind"] == "permute":
        perm = list(t["perm"])
        mean, cov = mean[perm], cov[np.ix_(perm, perm)]
    return {"cls": "GaussianCovCost", "param": {"tuple": [{"array": mean.tolist()}, {"array": cov.tolist()}]}}


@st.composite
def transformation(draw, p, kinds):
    kinds = set(kinds)
    if p == 1 and len(kinds) > 1:
        kinds.discard("permute")  # identity for a single column
    kind = draw(st.sampled_from(sorted(kinds, key=lambda k: ("shift", "reverse", "scale", "permute").index(k))))
    t = {"kind": kind}
    if kind == "permute":
        t["perm"] = draw(st.permutations(list(range(p))))
    elif kind == "shift":
        t["shift"] = [draw(st.one_of(st.sampled_from([3.0, -7.5, 10.0]), st.floats(-10, 10, allow_nan=False))) for _ in range(p)]
    elif kind == "scale":
        t["scale"] = draw(st.one_of(st.sampled_from([2.0, 0.5, 10.0, 0.1, 0.01, 100.0]), st.floats(0.1, 10, allow_nan=False)))
    return t


def apply_transformation(X, t):
    if t["kind"] == "permute":
        return X[:, t["perm"]]
    if t["kind"] == "shift":
        return X + np.asarray(t["shift"])
    if t["kind"] == "scale":
        return X * t["scale"]
    return X[::-1].copy()


def is_identity(t, p):
    return (t["kind"] == "permute" and list(t["perm"]) == list(range(p))) or \
        (t["kind"] == "shift" and not any(t["shift"])) or (t["kind"] == "scale" and t["scale"] == 1.0)


def mirror_cut(cut, n):
    return [n - c for c in reversed(cut)]


@st.composite
def scorer_cases(draw, tier):
    name = draw(st.sampled_from(sorted(SCORERS)))
    spec, k, kinds = SCORERS[name]
    p = draw(st.integers(1, 3))
    ms = K.scorer_min_size(spec, p)
    nmin = {2: ms, 3: 2 * ms, 4: max(2 * ms, ms + 2)}[k]
    n = draw(st.integers(nmin, 40))
    from checks.c06 import cut3, cut4
    from checks.c01 import intervals

    if k == 2:
        cuts = draw(intervals(n, ms, max_batch=6))
    elif k == 3:
        cuts = [draw(cut3(n, ms)) for _ in range(draw(st.integers(1, 6)))]
    else:
        cuts = [draw(cut4(n, ms)) for _ in range(draw(st.integers(1, 4)))]
    case = {"scorer": name, "cuts": cuts, "t": draw(transformation(p, kinds)),
            # the transformed data may be a *view* of the same buffer, and the same scorer object may be refitted on it
            "same_object_view": draw(st.sampled_from([False, False, True]))}
    # whole-numbered readings on a level far above their spread (ADC counts 30000 +- 2), the original handed over as integers
    level = draw(st.sampled_from([None, None, None, None, None, 30000.0, 1e6, 0.0]))
    int_dtype = draw(st.sampled_from(["int64", "int32", "int16", "float32"]))  # (single precision holds these whole numbers exactly)
    if level is not None and "Gaussian" not in name and case["t"]["kind"] in ("shift", "scale"):
        X, _ = draw(D.structured_matrix(n, p, exact=True, max_shifts=2, max_spikes=1, max_bumps=1))
        case["X"] = [[max(-40.0, min(40.0, v)) + level for v in row] for row in X]
        case["int_original"] = int_dtype if level <= 30000 or int_dtype != "int16" else "int32"
        return case
    if p >= 2 and draw(st.integers(0, 3)) == 0:
        # columns in mixed units and on different levels (a pressure in Pa next to a displacement in m): one big column, at a
        # generated place, the others small; the comparison is then made column by column (per-column rounding-error bounds)
        big = draw(st.integers(0, p - 1))
        case["col_affine"] = {"scale": [draw(st.sampled_from([10.0, 1e3])) if j == big else draw(st.sampled_from([0.05, 1.0])) for j in range(p)],
                              "level": [draw(st.sampled_from([101325.0, 1e5, 3e6])) if j == big else draw(st.sampled_from([0.0, 0.5])) for j in range(p)]}
    case["X"], _ = draw(D.structured_matrix(n, p, exact=False, min_noise_scale=1e-2))  # bulk data last (strategies/data.py)
    return case


def min_slice_variance(X, cuts, multivariate):
    v = np.inf
    for c in cuts:
        parts = [(c[0], c[-1])] + [(a, b) for a, b in zip(c[:-1], c[1:])]
        if len(c) == 4:
            parts = [(c[0], c[3]), (c[1], c[2])]
            pooled = np.concatenate((X[c[0]:c[1]], X[c[2]:c[3]]))
        for a, b in parts:
            rows = X[a:b]
            v = min(v, _minvar(rows, multivariate))
        if len(c) == 4:
            v = min(v, _minvar(pooled, multivariate))
    return v


def _minvar(rows, multivariate):
    r = rows.astype(np.longdouble)
    c = r - r.mean(axis=0)
    if multivariate:
        cov = (c.T @ c / len(r)).astype(float)
        return float(np.linalg.eigvalsh(cov).min())
    return float((c ** 2).mean(axis=0).min())


def _tolerance_one(name, X, cuts, n):
    """Tolerance contribution of one data set, from its own magnitude and its own smallest slice variance."""
    M = max(D.max_abs(X.tolist()), 1e-300)
    B = ref.error_bound(n, M)
    if name == "GaussianCovCost(fixed)":
        return 64 * X.shape[1] ** 2 * B  # a quadratic form with fixed, well-conditioned coefficients: nothing degenerates
    if "Gaussian" in name:
        mv = "Cov" in name
        vmin = min_slice_variance(X, cuts, mv)
        # "well above the variance floor": relative to the data's magnitude AND to the library's absolute floor of 1e-16
        if not np.isfinite(vmin) or vmin <= max(1e-8 * M * M, 1e-10):
            return None
        width = max(c[-1] - c[0] for c in cuts)
        return 16 * X.shape[1] * width * B / vmin
    if name == "CUSUM":
        return 16 * (n + 1) ** 2 * ref.EPS * M
    return 16 * B


def scorer_tolerance(name, X, Xt, cuts, cuts_t, n):
    """Absolute tolerance for comparing a score on X with the related score on Xt; None = skip (near-degenerate)."""
    a = _tolerance_one(name, X, cuts, n)
    b = _tolerance_one(name, Xt, cuts_t, n)
    if a is None or b is None:
        return None
    return a + b


def check_scorer(case):
    name = case["scorer"]
    _, k, _ = SCORERS[name]
    X = np.asarray(case["X"], dtype=float)
    n, p = X.shape
    if case.get("col_affine"):
        X = X * np.asarray(case["col_affine"]["scale"], dtype=float) + np.asarray(case["col_affine"]["level"], dtype=float)
    t = case["t"]
    spec, spec_t = scorer_spec(name, p), scorer_spec(name, p, t)
    if spec_t != spec:
        case = dict(case, same_object_view=False)  # (one object cannot hold both parameter orders)
    Xt = apply_transformation(X, t)
    cuts = np.asarray(case["cuts"], dtype=np.int64)
    cuts_t = np.asarray([mirror_cut(c, n) for c in case["cuts"]], dtype=np.int64) if t["kind"] == "reverse" else cuts
    classes = [f"scorer={name}", f"relation={t['kind']}"]
    tol = scorer_tolerance(name, X, Xt, case["cuts"], cuts_t.tolist(), n)
    if tol is None:
        return {"nontrivial": False, "classes": classes + ["near_degenerate_skipped"]}
    def evaluated(fn):
        """('value', array) or ('not_pd', None): the documented error for a covariance that is not positive definite."""
        try:
            with sut(f"{name} fit/evaluate", allowed=(RuntimeError,)):
                return "value", fn()
        except RuntimeError as e:
            if "positive definite" in str(e):
                return "not_pd", None
            raise

    if not (case.get("same_object_view") and t["kind"] in ("reverse", "permute")):
        # every claimed relation maps a positive definite sample covariance to a positive definite one, and the
        # near-degenerate cases have been skipped above: the two runs must both score or both raise
        Xo = X.astype(np.dtype(case["int_original"])) if case.get("int_original") else X
        ra = evaluated(lambda: np.asarray(K.build(spec).fit(Xo).evaluate(cuts), dtype=float))
        rb = evaluated(lambda: np.asarray(K.build(spec_t).fit(Xt).evaluate(cuts_t), dtype=float))
        if ra[0] != rb[0]:
            raise Violation(f"the {t['kind']}-transformed data are scored although the original raises the not-positive-definite error, "
                            "or the other way round", scorer=name, transformation=t, original=ra[0], transformed=rb[0])
        if ra[0] == "not_pd":
            return {"nontrivial": False, "classes": classes + ["not_pd_error"]}
        for which, r in (("original", ra[1]), ("transformed", rb[1])):
            if not np.all(np.isfinite(r)):
                raise Violation(f"scorer returned a non-finite value on the {which} data", scorer=name, transformation=t,
                                values=np.asarray(r).tolist()[:4])
    try:
        with sut(f"{name} on X and on transformed X", allowed=(RuntimeError,)):
            if case.get("same_object_view") and t["kind"] in ("reverse", "permute"):
                view = X[::-1] if t["kind"] == "reverse" else X[:, ::-1] if list(t["perm"]) == list(range(p))[::-1] else Xt
                sc = K.build(spec).fit(X)
                a = np.array(sc.evaluate(cuts), dtype=float)
                b = np.asarray(sc.fit(view).evaluate(cuts_t))
                classes.append("same_scorer_refitted_on_a_view")
            else:
                a, b = ra[1], rb[1]
    except RuntimeError as e:
        if "positive definite" in str(e):
            return {"nontrivial": False, "classes": classes + ["not_pd_error"]}
        raise
    if t["kind"] == "permute" and a.shape[1] == p:
        want = a[:, t["perm"]]
    else:
        want = a
    if a.shape[1] == p and p > 1 and t["kind"] in ("permute", "shift") and "Cov" not in name and "fixed" not in name:
        # one output column per data column: every column is compared within the rounding-error bound of ITS OWN magnitude
        # (column i of the transformed run holds the data of original column perm[i])
        src = list(t["perm"]) if t["kind"] == "permute" else list(range(p))
        per_col = [scorer_tolerance(name, X[:, [src[i]]], Xt[:, [i]], case["cuts"], cuts_t.tolist(), n) for i in range(p)]
        if any(v is None for v in per_col):
            return {"nontrivial": False, "classes": classes + ["near_degenerate_skipped"]}
        tol = np.asarray(per_col, dtype=float)
        classes.append("per_column_tolerance")
    if want.shape != b.shape or np.any(np.abs(b - want) > tol + 1e-9 * (1 + np.abs(want))):
        raise Violation(f"scorer output does not respect the {t['kind']} symmetry", scorer=name, transformation=t,
                        original=want.tolist(), transformed=b.tolist(), tolerance=np.asarray(tol).tolist())
    if case.get("int_original"):
        classes.append("integer_typed_original")
    return {"nontrivial": not is_identity(t, p), "classes": classes}


# ------------------------------------------------------------------ wide data


def wide_cells(tier):
    """Covariance change scores on 40..100 columns (thorough: 160): |log det| of several hundreds although every covariance
    is well-conditioned; the scale relation over factors 1e-3 .. 1e3. Data seeded (numpy PCG64, seed stored)."""
    i = 0
    for p_ in (40, 60, 100) if tier == "quick" else (40, 60, 100, 160):
        for factor in (1e-3, 1e3, 0.01, 50.0):
            i += 1
            yield {"p": p_, "factor": factor, "seed": 12000 + i}


def check_wide(case):
    p_, n = case["p"], 6 * case["p"]
    rng = np.random.Generator(np.random.PCG64(case["seed"]))
    X = rng.standard_normal((n, p_)) * rng.uniform(0.5, 2.0, size=p_)
    X[3 * p_:] += 0.3
    info = check_scorer({"scorer": "ChangeScore(GaussianCovCost)", "X": X, "cuts": [[0, 3 * p_, n], [0, 2 * p_ + 7, n - 3]],
                         "t": {"kind": "scale", "scale": case["factor"]}, "same_object_view": False})
    info["classes"] = list(info["classes"]) + [f"p={p_}", f"factor={case['factor']:g}"]
    return info


# ------------------------------------------------------------------ long series


def long_cells(tier):
    """Scorers on a day of 1 Hz data (86400 rows; thorough also 140000): cuts inside and across rows 32768 / 65536 / 131072, where a
    blocked accumulation of the prefix sums would restart; relations shift (by 10 and -3 per column) and reverse."""
    i = 0
    for n in (86_400,) if tier == "quick" else (86_400, 140_000):
        for name in ("CUSUM", "ChangeScore(L2Cost)", "L2Cost", "GaussianVarCost", "LocalAnomalyScore(L2Cost)", "L2Saving"):
            for rel in ("shift", "reverse"):
                if rel in SCORERS[name][2]:
                    i += 1
                    yield {"scorer": name, "n": n, "rel": rel, "seed": 12500 + i}


def check_long(case):
    name, n = case["scorer"], case["n"]
    k = SCORERS[name][1]
    rng = np.random.Generator(np.random.PCG64(case["seed"]))
    X = rng.standard_normal((n, 2))
    X[n // 3:] += 0.4
    marks = [m for m in (32_768, 65_536, 131_072) if m + 2000 < n]
    cuts = []
    for m in marks:
        base = [m - 700, m - 100, m + 300, m + 900]
        cuts.append({2: [base[0], base[3]], 3: [base[0], base[2], base[3]], 4: base}[k])
    cuts.append({2: [5, n - 7], 3: [5, n // 2, n - 7], 4: [5, n // 3, n // 2, n - 7]}[k])
    cuts.append({2: [100, 900], 3: [100, 400, 900], 4: [100, 300, 500, 900]}[k])
    t = {"kind": "shift", "shift": [10.0, -3.0]} if case["rel"] == "shift" else {"kind": "reverse"}
    info = check_scorer({"scorer": name, "X": X, "cuts": cuts, "t": t, "same_object_view": False})
    info["classes"] = list(info["classes"]) + [f"n={n}"]
    return info


# ------------------------------------------------------------------ detectors


DET_KINDS = {
    "PELT": {"permute", "shift", "scale", "reverse"},
    "MovingWindow": {"permute", "shift", "scale"},
    "SeededBinarySegmentation": {"permute", "shift", "scale"},
    "CircularBinarySegmentation": {"permute", "shift", "scale"},
    "CAPA": {"permute"},
    "MVCAPA": {"permute"},
}
GAUSS = {"cls": "GaussianVarCost"}


@st.composite
def detector_cases(draw, tier, det):
    p = draw(st.integers(1, 3))
    kinds = set(DET_KINDS[det])
    rel = draw(st.sampled_from(sorted(kinds)))
    key = {"PELT": "cost", "MovingWindow": "change_score", "SeededBinarySegmentation": "change_score",
           "CircularBinarySegmentation": "anomaly_score"}.get(det)
    params, n_min = draw(K.detector_params(det, p, max_msl=3, max_bw=4, allow_cov=False))
    if "ignore_point_anomalies" in params:
        params["ignore_point_anomalies"] = False  # the objective is re-evaluated from all reported events
    if rel == "scale":
        params[key] = GAUSS
        ms = 2
        if "bandwidth" in params:
            params["bandwidth"] = max(params["bandwidth"], ms)
            params["min_detection_interval"] = 1
            n_min = 2 * params["bandwidth"]
        else:
            params["min_segment_length"] = max(params["min_segment_length"], ms)
            n_min = 2 * params["min_segment_length"]
            if "max_interval_length" in params:
                params["max_interval_length"] = max(params["max_interval_length"], 2 * params["min_segment_length"])
    if rel in ("shift", "scale", "permute") and params.get("threshold_scale", 1.0) is None and det != "PELT":
        pass  # tuned thresholds are functions of the scores, hence covered as well
    nmax = 36 if det != "CircularBinarySegmentation" else 18
    n = draw(st.integers(n_min, max(n_min, nmax)))
    bw = params.get("bandwidth", params.get("min_segment_length", 1))
    case = {"detector": det, "params": params, "t": draw(transformation(p, {rel})),
            "one_detector": draw(st.sampled_from([False, True])),
            # a dead channel: one column exactly constant over the whole series (0.0, 1.0, 20.0: exactly summable values)
            "dead_channel": {"col": draw(st.integers(0, p - 1)), "value": draw(st.sampled_from([0.0, 1.0, 20.0]))}
            if p >= 2 and "Gaussian" not in str(params) and draw(st.integers(0, 4)) == 0 else None}
    # bulk data last (strategies/data.py)
    case["X"], _ = draw(D.structured_matrix(n, p, exact=False, min_noise_scale=1e-2, boundary_positions=(bw, n - bw)))
    if case["dead_channel"]:
        for row in case["X"]:
            row[case["dead_channel"]["col"]] = case["dead_channel"]["value"]
    return case


def pelt_objective(params, X, cpts, penalty):
    cost = K.build(params["cost"] or {"cls": "L2Cost"}).fit(X)
    bounds = [0] + list(cpts) + [len(X)]
    cuts = np.array([(a, b) for a, b in zip(bounds[:-1], bounds[1:])])
    return float(np.asarray(cost.evaluate(cuts)).sum()) + penalty * len(cpts)


def capa_objective(det_name, params, X, events, det):
    from skchange.anomaly_detectors import mvcapa as M
    from skchange.anomaly_scores import to_saving

    n, p = X.shape
    cs = to_saving(K.build(params["collective_saving"] or {"cls": "L2Saving"})).fit(X)
    ps = to_saving(K.build(params["point_saving"] or {"cls": "L2Saving"})).fit(X)
    if det_name == "CAPA":
        ca, cb, pa, pb = float(det.collective_penalty_), np.zeros(p), float(det.point_penalty_), np.zeros(p)
    else:
        cpen, ppen = (K.build(v) if isinstance(v, dict) else v for v in (params["collective_penalty"], params["point_penalty"]))
        ca, cb = M.capa_penalty_factory(cpen)(n, p, cs.get_param_size(1), params["collective_penalty_scale"])
        pa, pb = M.capa_penalty_factory(ppen)(n, p, ps.get_param_size(1), params["point_penalty_scale"])
        cb, pb = (np.broadcast_to(np.asarray(b, dtype=float), (p,)) if np.asarray(b).size == 1 else np.asarray(b, dtype=float) for b in (cb, pb))
    total = 0.0
    for a, b in events:
        if b - a == 1:
            total += ref.penalised_saving(np.asarray(ps.evaluate(np.array([[a, b]])))[0], pa, pb)
        else:
            total += ref.penalised_saving(np.asarray(cs.evaluate(np.array([[a, b]])))[0], ca, cb)
    return total


def _objective_tie(sorted_savings_increasing, tol):
    """Conservative tie test: two different prefix sums of the decreasingly sorted savings are within tol
    of each other for some constant per-rank penalty - approximated by near-equal savings or near-zero ones."""
    sv = np.asarray(sorted_savings_increasing)[::-1]
    return bool(np.any(np.abs(sv) <= tol))


def table_margin_ok(det_name, params, X, det, delta):
    """Decision margin of a threshold detector's run on X (see ASSUMPTIONS)."""
    thr = float(det.threshold_)
    if thr < 0:
        return False
    if det_name == "MovingWindow":
        s = np.asarray(det.scores, dtype=float).reshape(-1)
        b = params["bandwidth"]
        core = s[b:len(s) - b + 1]
        if np.any(np.abs(core - thr) <= delta):
            return False
        for a, e in ref.mw_runs(s, thr):
            seg = np.sort(s[a:e])[::-1]
            if len(seg) > 1 and seg[0] - seg[1] <= delta:
                return False
        return True
    table = det.scores
    msl = params["min_segment_length"]
    if det_name == "SeededBinarySegmentation":
        starts, ends, sc = table["start"].to_numpy(), table["end"].to_numpy(), table["score"].to_numpy()
        oracle = K.build(oracle_scorer_spec(params["change_score"])).fit(X)
    else:
        starts, ends, sc = table["interval_start"].to_numpy(), table["interval_end"].to_numpy(), table["score"].to_numpy()
        oracle = K.build(local_oracle_spec(params["anomaly_score"])).fit(X)
    if np.any(np.abs(sc - thr) <= delta):
        return False
    keys = {}
    for s_, e_, v in zip(starts, ends, sc):
        keys.setdefault((int(s_), int(e_)), float(v))
    vals = np.sort(np.array(list(keys.values())))
    if len(vals) > 1 and np.min(np.diff(vals)) <= delta:
        return False
    for (s_, e_) in keys:
        if det_name == "SeededBinarySegmentation":
            splits = np.arange(s_ + msl, e_ - msl + 1)
            cuts = np.column_stack((np.repeat(s_, splits.size), splits, np.repeat(e_, splits.size)))
        else:
            inner = inner_intervals(s_, e_, msl)
            if not inner:
                continue
            cuts = np.array([(s_, a, b, e_) for a, b in inner])
        v = np.sort(np.asarray(oracle.evaluate(cuts)).sum(axis=1))[::-1]
        if len(v) > 1 and v[0] - v[1] <= delta:
            return False
    return True


def check_detector(case):
    name, params, t = case["detector"], case["params"], case["t"]
    X = np.asarray(case["X"], dtype=float)
    n, p = X.shape
    Xt = apply_transformation(X, t)
    M = max(D.max_abs(X.tolist()), D.max_abs(Xt.tolist()), 1e-300)
    B = ref.error_bound(n, M)
    classes = [f"relation={t['kind']}"]
    spec = K.detector_spec(name, params)
    one_detector = t["kind"] == "permute" and case.get("one_detector")
    with sut(f"{name} on X and on transformed X"):
        if one_detector:
            # one fitted detector, labelled frames: predict on the frame with permuted columns
            import pandas as pd
            cols = [f"v{chr(97 + j)}" for j in range(p)]
            df = pd.DataFrame(X, columns=cols)
            d1 = K.build(spec).fit(df)
            y1 = d1.predict(df)
            scores1 = d1.scores.copy()
            d2 = d1
            y2 = d1.predict(df[[cols[j] for j in t["perm"]]])
            scores2 = d1.scores.copy()
            classes.append("one_detector_labelled_frames")
        else:
            d1 = K.build(spec).fit(X)
            y1 = d1.predict(X)
            scores1 = d1.scores
            d2 = K.build(spec).fit(Xt)
            y2 = d2.predict(Xt)
            scores2 = d2.scores
    kind, e1 = K.sparse_events(y1)
    _, e2 = K.sparse_events(y2)
    gauss = any(isinstance(v, dict) and "Gaussian" in str(v) for v in params.values())
    if gauss:
        ms = params.get("bandwidth", params.get("min_segment_length", 2))
        vmin = min(_minvar(X[a:a + ms], False) for a in range(0, n - ms + 1))
        if name == "CircularBinarySegmentation":
            # the pooled surroundings are not a contiguous window (e.g. one sample before and one
            # after the inner interval): bound their variance through the smallest pairwise gap
            gap = min(float(np.min(np.abs(X[i] - X[j]))) for i in range(n) for j in range(i + 1, n))
            vmin = min(vmin, gap * gap / (2.0 * n))
        if not np.isfinite(vmin) or vmin <= max(1e-8 * M * M, 1e-10):
            return {"nontrivial": False, "classes": classes + ["near_degenerate_skipped"]}
        cost_tol = 16 * p * n * B / vmin
    else:
        cost_tol = 16 * p * B + 16 * p * (n + 1) ** 2 * ref.EPS * M
    nontrivial = bool(e1) and not is_identity(t, p)
    if name == "PELT":
        f1, f2 = float(scores1.to_numpy()[-1]), float(scores2.to_numpy()[-1])
        pen = float(d1.penalty_)
        tol = cost_tol * (len(e1) + len(e2) + 2) + 1e-9 * (1 + abs(f1))
        if t["kind"] == "reverse":
            if abs(f1 - f2) > tol:
                raise Violation("PELT's optimal penalised cost changes under time reversal", original=f1, reversed=f2)
            back = sorted(n - c for c in e2)
        elif t["kind"] == "scale":
            # Gaussian cost: every segment cost shifts by len * p * log(a^2); the optimum shifts by n p log(a^2)
            shift = n * p * np.log(t["scale"] ** 2)
            if abs(f2 - (f1 + shift)) > tol + 1e-9 * abs(shift):
                raise Violation("PELT's optimal value is not shifted by n p log(a^2) under scaling with a Gaussian cost",
                                original=f1, scaled=f2, expected=f1 + shift)
            back = e2
        else:
            if abs(f1 - f2) > tol:
                raise Violation(f"PELT's optimal penalised cost changes under {t['kind']}", original=f1, transformed=f2)
            back = e2
        obj = pelt_objective(params, X, back, pen)
        if obj > f1 + tol:
            raise Violation(f"PELT's changepoints on the {t['kind']}-transformed data are not optimal for the original data",
                            original=e1, transformed=back, objective_of_transformed=obj, optimum=f1)
        return {"nontrivial": nontrivial, "classes": classes}
    if name in ("CAPA", "MVCAPA"):
        f1, f2 = float(scores1.to_numpy()[-1]), float(scores2.to_numpy()[-1])
        tol = cost_tol * (len(e1) + len(e2) + 2) + 1e-9 * (1 + abs(f1))
        if abs(f1 - f2) > tol:
            raise Violation(f"{name}'s optimal total saving changes under column permutation", original=f1, permuted=f2)
        obj = capa_objective(name, params, X, e2, d1)
        if obj < f1 - tol:
            raise Violation(f"{name}'s anomalies on the permuted data are not optimal for the original data",
                            original=[list(e) for e in e1], permuted=[list(e) for e in e2], objective=obj, optimum=f1)
        if name == "MVCAPA" and e1 == e2:
            perm = list(t["perm"])
            c1 = [[int(c) for c in np.asarray(v).reshape(-1)] for v in y1["icolumns"].tolist()]
            c2 = [[perm[int(c)] for c in np.asarray(v).reshape(-1)] for v in y2["icolumns"].tolist()]
            if c1 != c2:
                # margin rule on the savings of the affected anomaly
                from skchange.anomaly_scores import to_saving
                cs = to_saving(K.build(params["collective_saving"] or {"cls": "L2Saving"})).fit(X)
                ps = to_saving(K.build(params["point_saving"] or {"cls": "L2Saving"})).fit(X)
                for (a, b), u, v in zip(e1, c1, c2):
                    if u != v:
                        scorer = cs if b - a > 1 else ps
                        sv = np.sort(np.asarray(scorer.evaluate(np.array([[a, b]])))[0])
                        gaps_ok = len(sv) < 2 or np.min(np.diff(sv)) > 1e-6 * (1 + np.abs(sv).max())
                        if gaps_ok and sorted(u) != sorted(v) and len(u) == len(v):
                            raise Violation("MVCAPA's affected columns are not permuted with the columns",
                                            anomaly=[a, b], original=u, mapped_back=v, perm=perm)
                        if gaps_ok and len(u) != len(v):
                            # the number of affected columns is decided by the sorted savings only, which a
                            # permutation does not change; only an exact tie of the penalised objective could
                            tol = 1e-6 * (1 + np.abs(sv).max())
                            raise_if = abs(len(u) - len(v)) >= 1 and not _objective_tie(sv, tol)
                            if raise_if:
                                raise Violation("the number of MVCAPA's affected columns changes under column permutation",
                                                anomaly=[a, b], original=u, mapped_back=v, perm=perm)
                classes.append("icolumns_tie_order")
        return {"nontrivial": nontrivial, "classes": classes}
    # threshold detectors
    thr1, thr2 = float(d1.threshold_), float(d2.threshold_)
    delta = 1e-7 * (1 + M) + cost_tol
    if abs(thr1 - thr2) > cost_tol + 1e-9 * (1 + abs(thr1)):
        raise Violation(f"{name}: fitted threshold changes under {t['kind']}", original=thr1, transformed=thr2)
    if name == "MovingWindow":
        s1 = np.asarray(scores1, dtype=float).reshape(-1)
        s2 = np.asarray(scores2, dtype=float).reshape(-1)
    else:
        s1 = scores1["score"].to_numpy().astype(float)
        s2 = scores2["score"].to_numpy().astype(float)
    if s1.shape != s2.shape or np.any(np.abs(s1 - s2) > cost_tol + 1e-9 * (1 + np.abs(s1))):
        raise Violation(f"{name}: scores change under {t['kind']}", transformation=t,
                        max_difference=float(np.max(np.abs(s1 - s2))) if s1.shape == s2.shape else None, tolerance=float(cost_tol))
    if e1 != e2:
        from types import SimpleNamespace
        if table_margin_ok(name, params, X, SimpleNamespace(scores=scores1, threshold_=thr1), delta):
            raise Violation(f"{name}: detections change under {t['kind']} although the decision margin is satisfied",
                            original=[list(e) if isinstance(e, tuple) else e for e in e1],
                            transformed=[list(e) if isinstance(e, tuple) else e for e in e2], transformation=t)
        return {"nontrivial": False, "classes": classes + ["margin_not_satisfied"]}
    return {"nontrivial": nontrivial, "classes": classes}


def det_facet(det, nq, nt):
    return Facet(name=det, check=check_detector, strategy=lambda tier, d=det: detector_cases(tier, d),
                 rule=(f"{det} on float structured data (noise scale >= 1e-2) and on the transformed data, relations "
                       f"{sorted(DET_KINDS[det])} (scale: Gaussian-cost version); non-trivial = non-identity transformation and >= 1 detection"),
                 n_quick=nq, n_thorough=nt, shards_quick=2, shards_thorough=8)


FACETS = [
    Facet(name="scorers", check=check_scorer, strategy=scorer_cases,
          rule=("12 scorer configurations x {column permutation, per-column shift in [-10,10], positive scale in [0.01,100], time "
                "reversal} where the property claims the relation; outputs compared within the error model (B computed with M "
                "including the shift/scale); the original may be whole-numbered readings on a level of 30000 / 10^6 handed over as int64 / int32 / int16 "
                "while the shifted / scaled copy is float; non-trivial = non-identity transformation"),
          n_quick=1200, n_thorough=15000, shards_quick=8, shards_thorough=16),
    det_facet("PELT", 300, 5000), det_facet("MovingWindow", 300, 5000), det_facet("SeededBinarySegmentation", 300, 5000),
    det_facet("CircularBinarySegmentation", 160, 2500), det_facet("CAPA", 240, 4000), det_facet("MVCAPA", 240, 4000),
    Facet(name="wide_data", kind="enumerate", enumerate=wide_cells, check=check_wide, exhaustive=True, time_limit=300,
          rule=("ChangeScore(GaussianCovCost) on seeded data with 40 / 60 / 100 columns (thorough: 160), n = 6p, scale factors 1e-3, 0.01, 50, 1e3: "
                "scale invariance within the error model; 12 cells (thorough: 16), every cell non-trivial"),
          shards_quick=6, shards_thorough=8, max_samples=1),
    Facet(name="long_series", kind="enumerate", enumerate=long_cells, check=check_long, exhaustive=True, time_limit=300,
          rule=("six scorers on 86400 seeded rows x 2 columns (thorough also 140000): cuts inside and across rows 32768 / 65536 / 131072, the whole series "
                "and a short early cut; relations shift (by 10 and -3) and reverse within the error model; every cell non-trivial"),
          shards_quick=8, shards_thorough=8, max_samples=1),
]

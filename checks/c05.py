"""C05 - dense labels and sparse detections describe the same events for any index."""

import numpy as np
from hypothesis import strategies as st

from checks import common as K
from framework.core import Facet, Violation, sut
from oracles import reference as ref
from strategies import data as D

PROPERTY_ID = "C05"
TECHNIQUE = "Hypothesis-generated valid sparse outputs x index types x column labels against a positional labelling model and a sparse->dense->sparse round-trip; same through the detectors"
ASSUMPTIONS = [
    "supported index types: RangeIndex (any start/step), DatetimeIndex (D/h), PeriodIndex (M/D); index optionally named; time indexes with a repeated label (predict/transform only, no update); column labels default, strings (sorted or not, incl. the library's own output words such as 'labels'), non-positional integers, mixed 1/'1', one repeated label",
    "round-trip compares intervals, labels and the *sets* of affected columns (order of columns is not preserved by the dense format)",
]


def converted_untouched(convert, dense, what):
    """dense_to_sparse(dense) - and the caller's dense frame is afterwards what it was before (values, column labels, index)."""
    before = dense.copy(deep=True)
    cols, idx = list(dense.columns), dense.index.copy(deep=True)
    back = convert(dense)
    if list(dense.columns) != cols or not D.same_index(dense.index, idx) or not dense.equals(before):
        raise Violation(f"{what} modified the dense frame it was given", columns_before=[str(c) for c in cols],
                        columns_after=[str(c) for c in dense.columns])
    return back


@st.composite
def changepoints_strategy(draw, n):
    if n < 2:
        return []
    k = D.weighted(draw, [(1, st.just(0)), (9, st.integers(1, min(6, n - 1)))])
    return sorted(draw(st.lists(st.integers(1, n - 1), min_size=k, max_size=k, unique=True)))


@st.composite
def intervals_strategy(draw, n, kmax=6):
    """Disjoint, sorted, non-empty [a,b) inside [0,n]; adjacent / length-1 / touching ends are likely."""
    k = D.weighted(draw, [(1, st.just(0)), (9, st.integers(1, min(kmax, n)))]) if kmax <= 6 else draw(st.integers(kmax // 2, min(kmax, n)))
    cuts = sorted(draw(st.lists(st.integers(0, n), min_size=2 * k, max_size=2 * k)))
    out = []
    prev = 0
    for i in range(k):
        a, b = cuts[2 * i], cuts[2 * i + 1]
        a = max(a, prev)
        if b <= a:
            b = a + 1
        if b > n:
            break
        out.append([a, b])
        prev = b
    return out


@st.composite
def static_cases(draw, tier, kind):
    many = draw(st.integers(0, 14)) == 14  # occasionally a long series with very many events
    n = draw(st.integers(150, 320)) if many else draw(st.integers(1 if kind != "change" else 2, 30))
    case = {"kind": kind, "n": n, "index": draw(D.index_spec(D.INDEX_KINDS + D.REPEAT_INDEX_KINDS + D.TZ_INDEX_KINDS))}
    if kind == "change":
        if many:
            k = draw(st.integers(70, 140))
            case["changepoints"] = sorted(draw(st.lists(st.integers(1, n - 1), min_size=k, max_size=k, unique=True)))
        else:
            case["changepoints"] = draw(changepoints_strategy(n))
    else:
        case["intervals"] = draw(intervals_strategy(n, 130 if many else 6))
    if kind == "subset":
        p = draw(st.sampled_from([1, 2, 3, 4, 5, 6, 8, 3, 65, 80, 130]))  # also more columns than a machine word has bits
        case["p"] = p
        case["columns"] = draw(st.sampled_from(C05_COLUMN_KINDS))
        case["icolumns"] = [draw(st.lists(st.integers(0, p - 1), min_size=1, max_size=p, unique=True))
                            for _ in case["intervals"]]
    return case


def column_labels(kind, p):
    import pandas as pd

    if kind == "default":
        return pd.RangeIndex(p)
    if kind == "multiindex":  # two-level labels, as pd.concat({...}, axis=1), pivot or groupby().agg([...]) produce
        return pd.MultiIndex.from_tuples([("abc"[j // 2 % 3] + ("" if j < 6 else str(j)), j % 2 + 1) for j in range(p)])
    if kind == "midnights":  # a wide table with one column per day: the labels are Timestamps at midnight
        return pd.date_range("2022-01-01", periods=p, freq="D")
    return pd.Index(D.column_labels(kind, p))


# (the two extra kinds only here: what they exercise is the naming of the dense columns)
C05_COLUMN_KINDS = D.COLUMN_KINDS + ["multiindex", "midnights"]


def assert_same_closedness(y, back, what):
    a, b = y["ilocs"].array.closed, back["ilocs"].array.closed
    if a != b:
        raise Violation(f"{what}: round trip changed the closedness of the intervals", predict=a, round_trip=b)


def check_index_equal(dense, index, what):
    if not D.same_index(dense.index, index):
        raise Violation(f"{what}: dense output does not carry exactly the given index (values and name)",
                        got=str(dense.index[:5]), expected=str(index[:5]))


def check_static(case):
    import pandas as pd
    from skchange.anomaly_detectors.base import CollectiveAnomalyDetector, SubsetCollectiveAnomalyDetector
    from skchange.change_detectors.base import ChangeDetector

    n = case["n"]
    index = D.build_index(case["index"], n)
    kind = case["kind"]
    classes = [f"index={case['index']['kind']}"]
    if kind == "change":
        cpts = case["changepoints"]
        with sut("ChangeDetector converters"):
            y = ChangeDetector._format_sparse_output(cpts)
            dense = ChangeDetector.sparse_to_dense(y, index, pd.RangeIndex(1))
        check_index_equal(dense, index, "ChangeDetector.sparse_to_dense")
        want = ref.dense_segment_labels(cpts, n)
        if list(dense.columns) != ["labels"] or not np.array_equal(dense["labels"].to_numpy(), want):
            raise Violation("dense segment labels differ from the positional labelling of the changepoints",
                            changepoints=cpts, got=dense.iloc[:, 0].tolist(), expected=want.tolist())
        with sut("ChangeDetector.dense_to_sparse"):
            back = converted_untouched(ChangeDetector.dense_to_sparse, dense, "ChangeDetector.dense_to_sparse")
        got = [int(v) for v in back["ilocs"].tolist()]
        if got != cpts:
            raise Violation("dense_to_sparse(sparse_to_dense(y)) != y for changepoints", changepoints=cpts, got=got,
                            index=case["index"])
        events = cpts
    elif kind == "anomaly":
        iv = [tuple(x) for x in case["intervals"]]
        with sut("CollectiveAnomalyDetector converters"):
            y = CollectiveAnomalyDetector._format_sparse_output(iv)
            dense = CollectiveAnomalyDetector.sparse_to_dense(y, index, pd.RangeIndex(1))
        check_index_equal(dense, index, "CollectiveAnomalyDetector.sparse_to_dense")
        want = ref.dense_anomaly_labels(iv, n)
        if list(dense.columns) != ["labels"] or not np.array_equal(dense["labels"].to_numpy(), want):
            raise Violation("dense anomaly labels differ from the positional labelling of the intervals",
                            intervals=iv, got=dense.iloc[:, 0].tolist(), expected=want.tolist(), index=case["index"])
        with sut("CollectiveAnomalyDetector.dense_to_sparse"):
            back = converted_untouched(CollectiveAnomalyDetector.dense_to_sparse, dense, "CollectiveAnomalyDetector.dense_to_sparse")
        assert_same_closedness(y, back, "CollectiveAnomalyDetector")
        _, got = K.sparse_events(back)
        if got != [tuple(x) for x in iv] or back["labels"].tolist() != list(range(1, len(iv) + 1)):
            raise Violation("dense_to_sparse(sparse_to_dense(y)) != y for anomalies", intervals=iv, got=got,
                            labels=back["labels"].tolist())
        events = iv
    else:
        p = case["p"]
        cols = column_labels(case["columns"], p)
        an = [(a, b, c) for (a, b), c in zip(case["intervals"], case["icolumns"])]
        with sut("SubsetCollectiveAnomalyDetector converters"):
            y = SubsetCollectiveAnomalyDetector._format_sparse_output(an)
            dense = SubsetCollectiveAnomalyDetector.sparse_to_dense(y, index, cols)
        check_index_equal(dense, index, "SubsetCollectiveAnomalyDetector.sparse_to_dense")
        want = ref.dense_subset_labels(an, n, p)
        want_cols = [f"labels_{c}" for c in cols]
        if list(dense.columns) != want_cols or not np.array_equal(dense.to_numpy(), want):
            raise Violation("dense subset labels differ from the positional labelling", anomalies=[list(map(int, (a, b))) + [list(c)] for a, b, c in an],
                            got=dense.to_numpy().tolist(), expected=want.tolist(), columns=list(map(str, dense.columns)))
        with sut("SubsetCollectiveAnomalyDetector.dense_to_sparse"):
            back = converted_untouched(SubsetCollectiveAnomalyDetector.dense_to_sparse, dense, "SubsetCollectiveAnomalyDetector.dense_to_sparse")
        assert_same_closedness(y, back, "SubsetCollectiveAnomalyDetector")
        _, got = K.sparse_events(back)
        got_cols = [sorted(int(c) for c in np.asarray(x).reshape(-1)) for x in back["icolumns"].tolist()]
        if got != [(a, b) for a, b, _ in an] or got_cols != [sorted(c) for _, _, c in an] or \
                back["labels"].tolist() != list(range(1, len(an) + 1)):
            raise Violation("dense_to_sparse(sparse_to_dense(y)) != y for subset anomalies",
                            anomalies=[[a, b, list(c)] for a, b, c in an], got=got, got_columns=got_cols)
        events = case["intervals"]
    if events and kind != "change":
        ev = [tuple(e) for e in events]
        if any(e1[1] == e2[0] for e1, e2 in zip(ev[:-1], ev[1:])):
            classes.append("adjacent")
        if any(b - a == 1 for a, b in ev):
            classes.append("length_1")
        if ev[0][0] == 0 or ev[-1][1] == n:
            classes.append("touches_end")
    if not events:
        classes.append("no_event")
    if len(events) > 64:
        classes.append("more_than_64_events")
    return {"nontrivial": bool(events) and case["index"]["kind"] != "range0", "classes": classes}


# ------------------------------------------------------------------ through the detectors


@st.composite
def detector_cases(draw, tier, det):
    p = 1 if det == "StatThresholdAnomaliser" else draw(st.integers(1, 3))
    params, n_min = draw(K.detector_params(det, p, max_msl=3, max_bw=4, allow_cov=False))
    nmax = 30 if det != "CircularBinarySegmentation" else 20
    n = draw(st.integers(n_min, max(n_min, nmax)))
    bw = params.get("bandwidth", params.get("min_segment_length", 1))
    case = {"detector": det, "params": params, "index": draw(D.index_spec(D.INDEX_KINDS + D.REPEAT_INDEX_KINDS + D.TZ_INDEX_KINDS)),
            "columns": draw(st.sampled_from(C05_COLUMN_KINDS)),
            # predict(X), then update with a long continuation (penalties / thresholds change), then transform(X)
            "update_between": draw(st.sampled_from([False, False, True]))}
    case["X"], _ = draw(D.structured_matrix(n, p, boundary_positions=(0, bw, n - bw, n - 1)))  # bulk data last (data.py)
    return case


def check_detector(case):
    import pandas as pd

    det_name = case["detector"]
    X = np.asarray(case["X"], dtype=float)
    n, p = X.shape
    index = D.build_index(case["index"], n)  # the snapshot the outputs are compared with
    df = pd.DataFrame(X, index=D.build_index(case["index"], n), columns=column_labels(case["columns"], p))
    det = K.build(K.detector_spec(det_name, case["params"]))
    repeated = case["index"]["kind"] in D.REPEAT_INDEX_KINDS
    with sut(f"{det_name}.fit/predict/transform"):
        det.fit(df)
        y = det.predict(df)
        if case.get("update_between") and not repeated and case["columns"] != "duplicated":
            # the same object keeps being used: transform(X) must label according to predict(X) *now*
            reps = 1 if det_name == "CircularBinarySegmentation" else 6
            more = pd.DataFrame(np.vstack([X[::-1] * 0.5, X] * reps), columns=df.columns,
                                index=D.build_index(case["index"], n * (2 * reps + 1))[n:])
            det.update(more)
            dense = det.transform(df)
            y = det.predict(df)
        else:
            dense = det.transform(df)
    check_index_equal(dense, index, f"{det_name}.transform")
    if not D.same_index(df.index, index) or list(df.columns) != list(column_labels(case["columns"], p)):
        raise Violation(f"{det_name}: the caller's index or column labels were modified", got=str(df.index[:4]),
                        got_name=str(df.index.names), expected=str(index[:4]), expected_name=str(index.names))
    kind, events = K.sparse_events(y)
    if kind == "changepoints":
        want = ref.dense_segment_labels(events, n).reshape(-1, 1)
        want_cols = ["labels"]
    elif det_name == "MVCAPA":
        an = [(a, b, [int(c) for c in np.asarray(cols).reshape(-1)]) for (a, b), cols in zip(events, y["icolumns"].tolist())]
        want = ref.dense_subset_labels(an, n, p)
        want_cols = [f"labels_{c}" for c in df.columns]
    else:
        want = ref.dense_anomaly_labels(events, n).reshape(-1, 1)
        want_cols = ["labels"]
    if list(dense.columns) != want_cols or not np.array_equal(dense.to_numpy(), want):
        raise Violation(f"{det_name}.transform differs from the positional labelling of predict's events",
                        events=[list(e) if isinstance(e, tuple) else e for e in events],
                        got=dense.to_numpy()[:, 0].tolist(), expected=want[:, 0].tolist(), index=case["index"])
    with sut(f"{det_name}.dense_to_sparse"):
        back = converted_untouched(det.dense_to_sparse, dense, f"{det_name}.dense_to_sparse")
    if kind == "anomalies":
        assert_same_closedness(y, back, det_name)
    _, got = K.sparse_events(back)
    thr = getattr(det, "threshold_", 0.0)
    if got != events:
        raise Violation(f"{det_name}: dense_to_sparse(transform(X)) != predict(X)",
                        predict=[list(e) if isinstance(e, tuple) else e for e in events],
                        round_trip=[list(e) if isinstance(e, tuple) else e for e in got], index=case["index"])
    if det_name == "MVCAPA":
        a = [sorted(int(c) for c in np.asarray(x).reshape(-1)) for x in y["icolumns"].tolist()]
        b = [sorted(int(c) for c in np.asarray(x).reshape(-1)) for x in back["icolumns"].tolist()]
        if a != b:
            raise Violation("MVCAPA: affected columns do not survive the round trip", predict=a, round_trip=b)
    classes = [f"index={case['index']['kind']}", f"columns={case['columns']}"]
    if case["index"].get("name"):
        classes.append("named_index")
    if events:
        classes.append("has_event")
    if case.get("update_between") and not repeated and case["columns"] != "duplicated":
        classes.append("update_between_predict_and_transform")
    return {"nontrivial": bool(events) and case["index"]["kind"] != "range0", "classes": classes}


def pooled_cells(tier):
    """MVCAPA with default settings on 12..40 channels that share a weak shift (no single channel exceeds its own penalty, the
    pooled evidence does) next to strong sparse anomalies: predict / transform / round trip through the detector."""
    for i, (p_, n) in enumerate([(12, 160), (30, 200), (40, 140)] + ([(20, 300), (64, 200)] if tier != "quick" else [])):
        for weak in (0.5, 0.6, 0.8):
            yield {"p": p_, "n": n, "weak": weak, "seed": 31000 + i}


def check_pooled(case):
    rng = np.random.Generator(np.random.PCG64(case["seed"]))
    n, p_ = case["n"], case["p"]
    X = rng.standard_normal((n, p_)) * 0.3
    X[n // 2: n // 2 + 20] += case["weak"]            # weak shift shared by every channel
    X[20:30, :2] += 4.0                                 # strong anomaly in two channels
    X[n - 15, 3] += 9.0                                 # a point anomaly
    info = check_detector({"detector": "MVCAPA", "params": {}, "X": X.tolist(), "index": {"kind": "datetime_h", "start": "2020-01-01"},
                           "columns": "strings", "update_between": False})
    info["classes"] = list(info["classes"]) + [f"p={p_}"]
    return info


def many_event_cells(tier):
    """Exactly 255 / 256 / 257 / 4096 / 4097 / 32767 / 32768 / 65536 events (label counters in narrow integer types, batches of
    events): every second position a changepoint / every second sample a point anomaly, on a range or time-zone aware index."""
    for kind in ("change", "anomaly", "subset"):
        counts = [255, 256, 257, 4096, 4097] + ([32767, 32768, 40000] if kind == "change" or tier != "quick" else []) + \
            ([65535, 65536, 65537] if tier != "quick" else [])
        for i, k in enumerate(counts):
            yield {"kind": kind, "k": k, "index": {"kind": ("range0", "datetime_tz_dst", "range_offset")[i % 3], "start": 5, "step": 1, "name": None}}


def check_many_events(case):
    kind, k = case["kind"], case["k"]
    sub = {"kind": kind, "index": case["index"]}
    if kind == "change":
        sub["n"] = 2 * k + 1
        sub["changepoints"] = list(range(1, 2 * k, 2))
    else:
        sub["n"] = 2 * k
        sub["intervals"] = [[2 * i, 2 * i + 1] for i in range(k)]
    if kind == "subset":
        sub["p"] = 3
        sub["columns"] = "default"
        sub["icolumns"] = [([0], [2, 0], [1], [1, 2])[i % 4] for i in range(k)]
    info = check_static(sub)
    info["classes"] = list(info.get("classes", [])) + [f"events={k}", f"kind={kind}"]
    info["nontrivial"] = True
    return info


def static_facet(kind, nq, nt):
    return Facet(name=f"static_{kind}", check=check_static, strategy=lambda tier, k=kind: static_cases(tier, k),
                 rule=(f"hand-built valid sparse outputs ({kind}): strictly increasing changepoints / disjoint intervals incl. adjacent, "
                       "length-1 and touching 0 and n / non-empty column subsets, built with the public _format_sparse_output; "
                       "index of every supported type; non-trivial = non-default index and >= 1 event"),
                 n_quick=nq, n_thorough=nt, shards_quick=4, shards_thorough=8)


def det_facet(det, nq, nt):
    return Facet(name=f"via_{det}", check=check_detector, strategy=lambda tier, d=det: detector_cases(tier, d),
                 rule=(f"{det} fitted and applied to a DataFrame with a generated index type and column labels; transform == positional "
                       "labelling of predict and dense_to_sparse(transform) == predict; index of 10 kinds (incl. repeated time stamps and a time-zone aware one), optionally named, compared "
                       "by values and name with a snapshot taken before the call; 8 kinds of column labels; the caller's own index / columns must be "
                       "unchanged; non-trivial = non-default index and >= 1 event"),
                 n_quick=nq, n_thorough=nt, shards_quick=2, shards_thorough=8)


FACETS = [static_facet("change", 600, 10000), static_facet("anomaly", 600, 10000), static_facet("subset", 600, 10000)] + [
    det_facet(d, 120 if d != "CircularBinarySegmentation" else 80, 2000) for d in K.DETECTORS
] + [
    Facet(name="many_events", kind="enumerate", enumerate=many_event_cells, check=check_many_events, exhaustive=True, time_limit=600,
          rule=("hand-built sparse outputs of the three kinds with exactly 255 / 256 / 257 / 4096 / 4097 events, changepoints also 32767 / 32768 / 40000 (thorough: "
                "all kinds up to 65535 / 65536 / 65537) - every second position a changepoint, every second sample a point anomaly, subsets of 3 columns - "
                "on a range, offset-range or time-zone aware hourly index: same positional labelling and round trip; every cell non-trivial"),
          shards_quick=12, shards_thorough=16, max_samples=1),
    Facet(name="pooled_weak_shift", kind="enumerate", enumerate=pooled_cells, check=check_pooled, exhaustive=True, time_limit=300,
          rule=("default MVCAPA on 12 / 30 / 40 channels (thorough: 64) sharing a weak shift of 0.5-0.8 (noise sd 0.3; detected by pooling although no single "
                "channel exceeds its penalty) next to a strong two-channel anomaly and a point anomaly; transform == positional labelling of predict "
                "and dense_to_sparse(transform) == predict; 9 cells (thorough: 15), non-trivial = >= 1 event"),
          shards_quick=9, shards_thorough=15, max_samples=1),
]

"""C13 - evaluate either rejects a cuts array or scores exactly the cuts it describes."""

import itertools
import math

import numpy as np
from hypothesis import strategies as st

from framework.core import Facet, Violation, sut
from oracles import scores as OS

PROPERTY_ID = "C13"
TECHNIQUE = "exhaustive enumeration of all integer tuples in [-2,n+2]^k for 18 scorers (17 built-in configurations and a user-defined local score with its own _check_cuts) against a validity predicate + definitional values; Hypothesis-generated malformed arrays"
ASSUMPTIONS = [
    "box facet: fixed well-conditioned data matrix per (n, p); definitional values compared at 1e-6 relative",
    "minimum sizes as documented: 1 (L2, CUSUM, L2Saving), 2 (univariate Gaussian), p+1 (multivariate Gaussian, both parameter modes)",
]

FIXED = {"L2Cost": {"mean": 0.5}, "GaussianVarCost": {"mean": 0.0, "var": 1.0}, "GaussianCovCost": {"mean": 0.0, "cov": 1.0}}

# name -> (kind, cost name, param)
SCORERS = {
    "L2Cost": ("cost", "L2Cost", None),
    "L2Cost(fixed)": ("cost", "L2Cost", FIXED["L2Cost"]),
    "GaussianVarCost": ("cost", "GaussianVarCost", None),
    "GaussianVarCost(fixed)": ("cost", "GaussianVarCost", FIXED["GaussianVarCost"]),
    "GaussianCovCost": ("cost", "GaussianCovCost", None),
    "GaussianCovCost(fixed)": ("cost", "GaussianCovCost", FIXED["GaussianCovCost"]),
    "CUSUM": ("cusum", None, None),
    "ChangeScore(L2Cost)": ("change", "L2Cost", None),
    "ChangeScore(GaussianVarCost)": ("change", "GaussianVarCost", None),
    "ChangeScore(GaussianCovCost)": ("change", "GaussianCovCost", None),
    "L2Saving": ("l2saving", None, None),
    "Saving(L2Cost)": ("saving", "L2Cost", {"mean": 0.0}),
    "Saving(GaussianVarCost)": ("saving", "GaussianVarCost", FIXED["GaussianVarCost"]),
    "Saving(GaussianCovCost)": ("saving", "GaussianCovCost", FIXED["GaussianCovCost"]),
    "LocalAnomalyScore(L2Cost)": ("local", "L2Cost", None),
    "LocalAnomalyScore(GaussianVarCost)": ("local", "GaussianVarCost", None),
    "LocalAnomalyScore(GaussianCovCost)": ("local", "GaussianCovCost", None),
    # a user-defined scorer that overrides _check_cuts the way the library's own LocalAnomalyScore does
    "DirectLocalMeanScore(user)": ("userlocal", None, None),
}


def build_scorer(name):
    from checks.c01 import build_cost
    from skchange.anomaly_scores import L2Saving, LocalAnomalyScore, Saving
    from skchange.change_scores import CUSUM, ChangeScore

    kind, cost, param = SCORERS[name]
    if kind == "userlocal":
        from userdefs.scorers import DirectLocalMeanScore

        return DirectLocalMeanScore(1)
    if kind == "cost":
        return build_cost(cost, param)
    if kind == "cusum":
        return CUSUM()
    if kind == "change":
        return ChangeScore(build_cost(cost, None))
    if kind == "l2saving":
        return L2Saving()
    if kind == "saving":
        return Saving(build_cost(cost, param))
    return LocalAnomalyScore(build_cost(cost, None))


def width(name):
    return {"cost": 2, "cusum": 3, "change": 3, "l2saving": 2, "saving": 2, "local": 4, "userlocal": 4}[SCORERS[name][0]]


def min_size(name, p):
    kind, cost, _ = SCORERS[name]
    if cost is None:
        return 1
    return {"L2Cost": 1, "GaussianVarCost": 2, "GaussianCovCost": p + 1}[cost]


def is_valid(name, p, n, cut):
    kind = SCORERS[name][0]
    ms = min_size(name, p)
    if cut[0] < 0 or cut[-1] > n:
        return False
    d = [b - a for a, b in zip(cut[:-1], cut[1:])]
    if kind in ("local", "userlocal"):
        return all(x >= 1 for x in d) and d[1] >= ms and d[0] + d[2] >= ms
    return all(x >= ms for x in d)


def expected_value(name, X, cut):
    kind, cost, param = SCORERS[name]
    if kind == "userlocal":
        from userdefs.scorers import DirectLocalMeanScore

        return DirectLocalMeanScore.value(np.asarray(X, dtype=float), *cut)
    if kind == "cost":
        return OS.cost_value(cost, param, X[cut[0]:cut[1]])
    if kind == "cusum":
        return OS.cusum_value(X, *cut)
    if kind == "change":
        return OS.change_score_value(cost, None, X, *cut)
    if kind == "l2saving":
        return OS.saving_value("L2Cost", {"mean": 0.0}, X, *cut)
    if kind == "saving":
        return OS.saving_value(cost, param, X, *cut)
    return OS.local_score_value(cost, X, *cut)


def fixed_data(n, p):
    """Deterministic, well-conditioned: distinct values, no collinear triples."""
    return np.array([[math.sin(1.7 * (i + 1) + 2.3 * j) * 3 + 0.37 * ((i * i + 3 * j) % 5) + (2.0 if i >= n // 2 else 0.0) * (j + 1)
                      for j in range(p)] for i in range(n)])


# ------------------------------------------------------------------ exhaustive box


def evaluate_outcome(scorer, arr):
    try:
        return "value", scorer.evaluate(arr), ""
    except ValueError as e:
        return "ValueError", None, str(e)
    except Exception as e:  # noqa: BLE001 - the class of the exception is the observed outcome
        return type(e).__name__, None, str(e)



def box_cases(tier):
    ns = [4, 5, 6] if tier == "quick" else [4, 5, 6, 7, 8]
    for name in SCORERS:
        for n in ns:
            if tier == "thorough" and n > 6 and width(name) == 4:
                continue
            for p in (1, 2):
                yield {"scorer": name, "n": n, "p": p}


def check_box(case):
    name, n, p = case["scorer"], case["n"], case["p"]
    X = fixed_data(n, p)
    k = width(name)
    with sut(f"{name}.fit"):
        scorer = build_scorer(name).fit(X)
    n_tuples = n_valid = n_nontrivial = 0
    for cut in itertools.product(range(-2, n + 3), repeat=k):
        n_tuples += 1
        valid = is_valid(name, p, n, cut)
        ordered = all(b > a for a, b in zip(cut[:-1], cut[1:]))
        arr = np.asarray([cut], dtype=np.int64)
        outcome, out, err = evaluate_outcome(scorer, arr)
        if min(cut) >= 0:
            # the same tuple as an unsigned / narrower integer array must behave identically
            # (also numpy's distinct C `long long` scalar types, which print as int64 / uint64, and a big-endian layout)
            for dt in (np.uint64, np.uint8, np.int32, np.longlong, np.ulonglong, np.dtype(">i8"), np.intp):
                o2, out2, err2 = evaluate_outcome(scorer, arr.astype(dt))
                same = o2 == outcome and (o2 != "value" or np.allclose(np.asarray(out2), np.asarray(out), rtol=1e-12, atol=1e-12, equal_nan=True))
                if not same:
                    raise Violation(f"cuts given as {np.dtype(dt).name} (dtype char {np.dtype(dt).char!r}, byte order {np.dtype(dt).byteorder!r}) are treated differently from the same int64 cuts",
                                    scorer=name, n=n, p=p, cut=list(cut), int64_outcome=outcome, other_outcome=o2,
                                    other_value=np.asarray(out2).tolist() if o2 == "value" else None)
        if not valid:
            if ordered and (cut[0] < 0 or cut[-1] > n):
                n_nontrivial += 1
            if outcome == "value":
                raise Violation("invalid cut was evaluated silently instead of raising ValueError",
                                scorer=name, n=n, p=p, cut=list(cut), value=np.asarray(out).tolist())
            if outcome != "ValueError":
                raise Violation(f"invalid cut raised {outcome} instead of ValueError", scorer=name, n=n, p=p,
                                cut=list(cut))
            continue
        n_valid += 1
        want = expected_value(name, X, cut)
        if outcome == "ValueError":
            raise Violation("valid cut was rejected with ValueError", scorer=name, n=n, p=p, cut=list(cut))
        if outcome != "value":
            if outcome == "RuntimeError" and want is None:
                continue
            raise Violation(f"valid cut raised {outcome}: {err[:120]}", scorer=name, n=n, p=p, cut=list(cut))
        out = np.asarray(out)
        if want is None:
            continue
        if out.shape != (1, len(want)):
            raise Violation("wrong output shape", scorer=name, cut=list(cut), got=list(out.shape), expected=[1, len(want)])
        if not np.all(np.abs(out[0] - want) <= 1e-6 * (1 + np.abs(want))):
            raise Violation("valid cut is not scored according to the definition", scorer=name, n=n, p=p,
                            cut=list(cut), got=out[0].tolist(), expected=np.asarray(want).tolist())
    return {"nontrivial": False, "weight": n_tuples, "nontrivial_weight": n_nontrivial,
            "classes": [("tuples_valid", n_valid), ("tuples_invalid", n_tuples - n_valid),
                        ("ordered_but_out_of_range", n_nontrivial), f"k={k}"]}


# ------------------------------------------------------------------ malformed arrays


@st.composite
def malformed_cases(draw, tier):
    name = draw(st.sampled_from(sorted(SCORERS)))
    n = draw(st.integers(9, 12))
    p = draw(st.integers(1, 2))
    k = width(name)
    kind = draw(st.sampled_from(["mixed_batch", "float", "bool", "wrong_width", "zero_rows", "three_d", "list",
                                 "row_vector", "float_integral", "valid_batch", "int32", "empty_list", "uint_descending",
                                 "flat_multiple", "narrow_dtype_overflow", "pandas_float", "pandas_int", "pandas_bool",
                                 "series_float", "timedelta64", "datetime64", "matrix", "masked_none_hidden", "masked_hides_invalid",
                                 "longlong", "fortran_order", "strided_view", "read_only",
                                 "zero_rows_float", "zero_rows_wrong_width", "zero_rows_object_frame", "tuple_of_row_arrays"]))
    case = {"scorer": name, "n": n, "p": p, "kind": kind}
    rows = [sorted(draw(st.lists(st.integers(-2, n + 2), min_size=k, max_size=k))) for _ in range(draw(st.integers(1, 5)))]
    case["rows"] = rows
    if kind == "wrong_width":
        w = draw(st.integers(1, 5).filter(lambda x: x != k))
        case["rows"] = [sorted(draw(st.lists(st.integers(0, n), min_size=w, max_size=w))) for _ in range(2)]
    return case


def valid_rows_for(name, p, n):
    k = width(name)
    return [list(c) for c in itertools.product(range(0, n + 1), repeat=k) if is_valid(name, p, n, c)]


def check_malformed(case):
    name, n, p, kind = case["scorer"], case["n"], case["p"], case["kind"]
    X = fixed_data(n, p)
    k = width(name)
    with sut(f"{name}.fit"):
        scorer = build_scorer(name).fit(X)
    valid_pool = valid_rows_for(name, p, n)
    if len(valid_pool) < 3:
        return {"nontrivial": False, "classes": ["too_few_valid_cuts_skipped"]}
    rows = case["rows"]
    all_valid = all(len(r) == k and is_valid(name, p, n, r) for r in rows)
    expect_error = True
    if kind == "mixed_batch":
        rows = rows + valid_pool[:2]
        arg = np.asarray(rows, dtype=np.int64)
        expect_error = not all_valid
    elif kind == "valid_batch":
        idx = [hash((tuple(r), i)) % len(valid_pool) for i, r in enumerate(rows)]
        rows = [valid_pool[i] for i in idx]
        arg = np.asarray(rows, dtype=np.int64)
        expect_error = False
    elif kind == "int32":
        rows = valid_pool[: len(rows)]
        arg = np.asarray(rows, dtype=np.int32)
        expect_error = False
    elif kind == "uint_descending":
        # descending rows in an unsigned dtype: differences would wrap around
        arg = np.asarray([list(reversed(valid_pool[0])), valid_pool[1]], dtype=[np.uint64, np.uint32, np.uint8][n % 3])
    elif kind == "flat_multiple":
        # a flat sequence holding several cuts is not a cuts array with the expected number of columns
        arg = [int(v) for r in valid_pool[:2] for v in r]
        if case["p"] == 2:
            arg = np.asarray(arg, dtype=np.int64)
    elif kind == "narrow_dtype_overflow":
        # rows whose difference overflows the (signed) dtype: descending and out of range, never valid
        dt, big = [(np.int8, 100), (np.int8, 127), (np.int16, 30000), (np.int32, 2 ** 31 - 1), (np.int64, 2 ** 63 - 1)][(n + p) % 5]
        row = [big] + [-big - (0 if big < 127 else 1)] * (k - 1) if k == 2 else [big] + [-(big // 2) - j for j in range(k - 1)]
        arg = np.asarray([row, row] if n % 2 else [row], dtype=dt)
    elif kind in ("pandas_float", "series_float", "pandas_bool"):
        import pandas as pd
        base = np.asarray(valid_pool[:2], dtype=float) + (0.5 if n % 2 else 0.0)
        if kind == "pandas_bool":
            arg = pd.DataFrame(np.ones((2, k), dtype=bool))
        elif kind == "series_float":
            arg = pd.Series(base[0])
        else:
            arg = pd.DataFrame(base)
    elif kind == "pandas_int":
        import pandas as pd
        rows = valid_pool[:3]
        arg = pd.DataFrame(np.asarray(rows, dtype=np.int64), columns=[f"c{j}" for j in range(k)])
        expect_error = False
    elif kind in ("timedelta64", "datetime64"):
        # numpy files timedelta64 under its signed integers, but durations / time stamps are not positions
        arg = np.asarray(valid_pool[:2], dtype=np.int64).astype("m8[ns]" if kind == "timedelta64" else "M8[ns]")
    elif kind in ("matrix", "masked_none_hidden", "longlong", "fortran_order", "strided_view", "read_only"):
        rows = valid_pool[:3] if n % 2 else valid_pool[-3:]
        base = np.asarray(rows, dtype=np.int64)
        if kind == "matrix":  # ndarray subclass (e.g. the result of scipy.sparse `.todense()`)
            arg = np.matrix(base)
        elif kind == "masked_none_hidden":
            arg = np.ma.MaskedArray(base, mask=np.zeros(base.shape, dtype=bool))
        elif kind == "longlong":  # e.g. np.asarray(array.array('q', ...)), Cython `long long` buffers
            arg = base.astype(np.longlong if p % 2 else np.ulonglong)
        elif kind == "fortran_order":
            arg = np.asfortranarray(base)
        elif kind == "strided_view":
            arg = np.repeat(np.repeat(base, 2, axis=0), 2, axis=1)[::2, ::2]
        else:
            arg = base.copy()
            arg.setflags(write=False)
        expect_error = False
    elif kind == "masked_hides_invalid":
        # the mask hides an entry that is out of range: the data underneath are what would be used for slicing
        base = np.asarray(valid_pool[:2], dtype=np.int64)
        base[0, 0] = -3
        mask = np.zeros(base.shape, dtype=bool)
        mask[0, 0] = True
        arg = np.ma.MaskedArray(base, mask=mask)
    elif kind == "zero_rows_float":  # what np.column_stack(([], [])) gives
        arg = np.empty((0, k), dtype=float)
    elif kind == "zero_rows_wrong_width":
        arg = np.empty((0, k + 1 if k < 4 else 2), dtype=np.int64)
    elif kind == "zero_rows_object_frame":  # an empty segments frame
        import pandas as pd

        arg = pd.DataFrame(np.empty((0, k), dtype=object))
    elif kind == "float":
        arg = np.asarray(valid_pool[:2], dtype=float) + 0.5
    elif kind == "float_integral":
        arg = np.asarray(valid_pool[:2], dtype=float)
    elif kind == "bool":
        arg = np.ones((2, k), dtype=bool)
    elif kind == "wrong_width":
        arg = np.asarray(rows, dtype=np.int64)
    elif kind == "zero_rows":
        arg = np.empty((0, k), dtype=np.int64)
        rows = []
        expect_error = False
    elif kind == "empty_list":
        arg = []
    elif kind == "three_d":
        arg = np.asarray([valid_pool[:2]], dtype=np.int64)
    elif kind == "list":
        rows = valid_pool[:3]
        arg = [list(map(int, r)) for r in rows]
        expect_error = False
    elif kind == "tuple_of_row_arrays":
        # a tuple holding one 1-D array per cut - as many cuts as a cut has entries (a square block): rows, not columns
        k_ = len(valid_pool[0])
        rows = [valid_pool[(i * 3) % len(valid_pool)] for i in range(k_)]
        arg = tuple(np.asarray(r, dtype=np.int64) for r in rows)
        expect_error = False
    elif kind == "row_vector":
        rows = [valid_pool[len(valid_pool) // 2]]
        arg = np.asarray(rows[0], dtype=np.int64) if case["n"] % 2 else [int(v) for v in rows[0]]
        expect_error = False
    else:
        raise ValueError(kind)
    try:
        out = scorer.evaluate(arg)
        outcome = "value"
    except ValueError:
        outcome = "ValueError"
    except RuntimeError as e:
        outcome = "RuntimeError" if "positive definite" in str(e) else "RuntimeError(other)"
    except Exception as e:  # noqa: BLE001
        outcome = type(e).__name__
    classes = [f"kind={kind}", f"outcome={outcome}"]
    if expect_error:
        if outcome != "ValueError":
            raise Violation(f"malformed cuts argument ({kind}) gave {outcome} instead of ValueError", scorer=name,
                            n=n, p=p, arg=str(np.asarray(arg).tolist())[:300] if kind != "empty_list" else [])
        return {"nontrivial": True, "classes": classes}
    if outcome not in ("value",):
        raise Violation(f"well-formed cuts argument ({kind}) gave {outcome}", scorer=name, n=n, p=p, rows=rows)
    out = np.asarray(out)
    if out.ndim != 2 or out.shape[0] != len(rows):
        raise Violation("output does not have one row per cut", kind=kind, got=list(out.shape), rows=len(rows))
    for i, r in enumerate(rows):
        want = expected_value(name, X, r)
        if want is not None and not np.all(np.abs(out[i] - want) <= 1e-6 * (1 + np.abs(want))):
            raise Violation("cut is not scored according to the definition", scorer=name, cut=list(r),
                            got=out[i].tolist(), expected=np.asarray(want).tolist())
    return {"nontrivial": True, "classes": classes}


def fuzz_cuts_campaign(tier, seed, shard, n_shards, n_runs):
    """One libFuzzer campaign (atheris) over the structured cuts decoder of fuzz/fuzz_cuts.py."""
    import json
    import subprocess
    import sys
    import tempfile
    from pathlib import Path

    from framework import core

    root = Path(core.ROOT)
    out = {"evaluations": 0, "nontrivial": [], "classes": {}, "samples": [], "violation": None, "harness": None}
    probe = subprocess.run([sys.executable, "-c", "import sys; sys.path.insert(0, sys.argv[1]); import atheris", str(root / ".deps")],
                           capture_output=True)
    if probe.returncode != 0:
        subprocess.run([sys.executable, "-m", "pip", "install", "--no-index", "--find-links", "/opt/veriftools/wheels",
                        "--target", str(root / ".deps"), "atheris"], capture_output=True)
        probe = subprocess.run([sys.executable, "-c", "import sys; sys.path.insert(0, sys.argv[1]); import atheris", str(root / ".deps")],
                               capture_output=True)
        if probe.returncode != 0:
            out["classes"] = {"atheris_unavailable(facet_skipped)": 1}
            return out
    work = Path(tempfile.mkdtemp(prefix="fuzzcuts_"))
    stats = work / "stats.json"
    found = Path(core.OUT) / "replays" / "found"
    cmd = [sys.executable, str(root / "fuzz" / "fuzz_cuts.py"), str(stats), str(found), f"-runs={n_runs}", f"-seed={seed}",
           "-max_len=96", "-timeout=30", "-verbosity=0", "-print_final_stats=0"]
    r = subprocess.run(cmd, cwd=str(work), capture_output=True, text=True)
    try:
        d = json.loads(stats.read_text())
        out.update(evaluations=d["evaluations"], nontrivial=d["nontrivial"], classes=d["classes"], samples=d["samples"][:2])
        if d.get("violation"):
            payload = json.loads(Path(d["violation"]).read_text())
            out["violation"] = {"case": payload["case"], "message": payload["message"], "details": payload.get("details", {})}
    except Exception as e:  # noqa: BLE001
        out["harness"] = f"fuzz_cuts: no statistics ({type(e).__name__}: {e}); rc={r.returncode}; stderr tail: {r.stderr[-400:]}"
    if r.returncode not in (0, 77) and out["harness"] is None and out["violation"] is None:
        out["harness"] = f"fuzz_cuts: libFuzzer exited with {r.returncode}: {r.stderr[-400:]}"
    import shutil
    shutil.rmtree(work, ignore_errors=True)
    return out


def check_fuzz_case(case):
    """Replay entry point of a fuzz finding: the decoded case is a plain JSON value."""
    from fuzz.cuts_oracle import check_case

    return check_case(case)


def shared_cost_cells(tier):
    for cost in ("L2Cost", "GaussianVarCost"):
        for det in ("PELT", "MovingWindow", "SeededBinarySegmentation"):
            for n_small, n_big in ((10, 40), (8, 9), (12, 60)):
                yield {"cost": cost, "detector": det, "n_small": n_small, "n_big": n_big}


def check_shared_cost(case):
    """A local anomaly score is fitted on a short series; a detector that holds the same cost object is then run
    on a longer one (and refits the cost). Cuts beyond the local score's own fitted data must still be rejected."""
    from checks import common as K
    from skchange.anomaly_scores import LocalAnomalyScore

    cost = K.build({"cls": case["cost"]})
    ns, nb = case["n_small"], case["n_big"]
    las = LocalAnomalyScore(cost).fit(fixed_data(ns, 1))
    key = {"PELT": "cost", "MovingWindow": "change_score", "SeededBinarySegmentation": "change_score"}[case["detector"]]
    extra = {"MovingWindow": {"bandwidth": 3}, "PELT": {"min_segment_length": 2}, "SeededBinarySegmentation": {"min_segment_length": 2}}[case["detector"]]
    with sut("detector sharing the cost object"):
        K.registry()[case["detector"]](**{key: cost}, **extra).fit(fixed_data(nb, 1)).predict(fixed_data(nb, 1))
    n_checked = 0
    for cut in ([0, 2, 5, ns + 1], [0, 3, 6, nb], [1, 4, ns, ns + 3], [-1, 2, 5, 7]):
        if cut[-1] <= ns and cut[0] >= 0:
            continue
        outcome, out, err = evaluate_outcome(las, np.asarray([cut], dtype=np.int64))
        n_checked += 1
        if outcome != "ValueError":
            raise Violation(f"cut outside the scorer's fitted data gave {outcome} instead of ValueError after a detector "
                            "refitted the shared cost on longer data", cut=cut, n_fitted=ns, n_refit=nb, cost=case["cost"],
                            detector=case["detector"], value=np.asarray(out).tolist() if outcome == "value" else None)
    return {"nontrivial": True, "weight": n_checked, "classes": [f"det={case['detector']}"]}


# ------------------------------------------------------------------ after a documented error


def after_error_cells(tier):
    """Objects that have just raised the documented not-positive-definite error (a flat-lined channel) are used again:
    directly, after a detector run that failed inside its algorithm with the user's own cost object, after a refit."""
    for scorer in ("GaussianCovCost", "ChangeScore(GaussianCovCost)", "LocalAnomalyScore(GaussianCovCost)", "Saving(GaussianCovCost)"):
        for route in ("evaluate_raised", "evaluate_raised_then_refit", "detector_run_raised", "detector_run_raised_then_refit"):
            for n in (24, 40):
                yield {"scorer": scorer, "route": route, "n": n, "p": 2}


def refit_failed_cells(tier):
    for name in ("L2Cost(fixed)", "GaussianVarCost(fixed)", "GaussianCovCost(fixed)", "Saving(L2Cost)", "LocalAnomalyScore(L2Cost)"):
        for n_old, n_new in ((6, 12), (12, 6), (8, 8)):
            yield {"scorer": name, "n_old": n_old, "n_new": n_new}


def check_refit_failed(case):
    """A re-fit that raises (fixed parameter of the wrong length for the new data; for scorers without such a parameter, data
    with a missing value) must not leave a scorer that checks cuts against one data set and scores another."""
    from skchange.anomaly_scores import LocalAnomalyScore, Saving
    from skchange.costs import GaussianCovCost, GaussianVarCost, L2Cost

    name, n_old, n_new = case["scorer"], case["n_old"], case["n_new"]
    old = fixed_data(n_old, 2)
    make = {"L2Cost(fixed)": lambda: L2Cost(param=np.zeros(2)), "GaussianVarCost(fixed)": lambda: GaussianVarCost(param=(np.zeros(2), np.ones(2))),
            "GaussianCovCost(fixed)": lambda: GaussianCovCost(param=(np.zeros(2), np.eye(2))),
            "Saving(L2Cost)": lambda: Saving(L2Cost(param=np.zeros(2))), "LocalAnomalyScore(L2Cost)": lambda: LocalAnomalyScore(L2Cost(param=np.zeros(2)))}[name]
    scorer = make().fit(old)
    k = scorer.expected_cut_entries
    try:
        scorer.fit(fixed_data(n_new, 3))  # three columns: the fixed parameter of length 2 no longer fits
        failed = False
    except ValueError:
        failed = True
    if not failed:
        return {"nontrivial": False, "classes": ["refit_did_not_fail"]}
    fresh = make().fit(old)
    n_checked = 0
    for cut in itertools.product(sorted({0, 1, 3, n_old - 1, n_old, n_old + 1, n_new - 1, n_new, n_new + 2}), repeat=k):
        arr = np.asarray([cut], dtype=np.int64)
        outcome, out, err = evaluate_outcome(scorer, arr)
        ref_outcome, ref_out, _ = evaluate_outcome(fresh, arr)
        n_checked += 1
        if ref_outcome != "value":
            if outcome != "ValueError":
                raise Violation(f"after a re-fit that raised, a cut that is invalid for the data of the last successful fit gave {outcome} "
                                "instead of ValueError", scorer=name, cut=list(cut), rows_last_successful_fit=n_old, rows_rejected_fit=n_new,
                                value=np.asarray(out).tolist() if outcome == "value" else None)
        elif outcome == "value":
            if not np.allclose(np.asarray(out), np.asarray(ref_out), rtol=1e-9, atol=1e-9):
                raise Violation("after a re-fit that raised, a valid cut is scored differently from a scorer fitted on the same data",
                                scorer=name, cut=list(cut), got=np.asarray(out).tolist(), expected=np.asarray(ref_out).tolist())
        elif outcome != "ValueError":
            raise Violation(f"after a re-fit that raised, a valid cut gave {outcome} (ValueError - not fitted - or the value expected)",
                            scorer=name, cut=list(cut))
    return {"nontrivial": True, "weight": n_checked, "classes": [f"scorer={name}"]}


def check_after_error(case):
    from skchange.anomaly_detectors import CAPA, CircularBinarySegmentation
    from skchange.change_detectors import PELT, MovingWindow, SeededBinarySegmentation

    name, n, p, route = case["scorer"], case["n"], case["p"], case["route"]
    k = width(name)
    good = fixed_data(n, p)
    bad = good.copy()
    bad[n // 3: n // 3 + 8, 1] = 20.0  # one channel flat-lines for 8 samples: singular sample covariance there
    a = n // 3
    raising = {2: [a, a + 6], 3: [a, a + 3, a + 6], 4: [0, a + 1, a + 7, n]}[k]  # for k = 4 the *inner* part is flat
    if k == 4 and n % 16 == 8:
        # ... or the channel saturates on both sides of a burst: only the pooled *surroundings* are singular
        bad[a: a + 10, 1] = 20.0
        bad[a + 3: a + 7, 1] = good[a + 3: a + 7, 1]
        raising = [a, a + 3, a + 7, a + 10]
    scorer = build_scorer(name)
    provoked = "no"
    if route.startswith("evaluate_raised"):
        scorer.fit(bad)
        out = evaluate_outcome(scorer, np.asarray([raising], dtype=np.int64))
        provoked = out[0]
        if route.endswith("refit"):
            scorer.fit(good)
    else:
        # the user's scorer object inside a detector whose run hits the flat stretch
        kind = SCORERS[name][0]
        try:
            if kind == "cost":
                det = PELT(scorer, min_segment_length=3)
            elif kind == "change":
                det = MovingWindow(scorer, bandwidth=3)
            elif kind == "local":
                det = CircularBinarySegmentation(scorer, min_segment_length=3, max_interval_length=12)
            else:
                det = CAPA(scorer, min_segment_length=3, max_segment_length=10)
            det.fit(bad).predict(bad)
        except RuntimeError as e:
            provoked = "RuntimeError" if "positive definite" in str(e) else f"RuntimeError({e})"
        except ValueError as e:
            provoked = f"ValueError({str(e)[:60]})"
        scorer.fit(good if route.endswith("refit") else bad)
    fitted_on = good if route.endswith("refit") or route == "evaluate_raised_then_refit" else bad
    # now the box predicate on a sample of tuples: invalid cuts raise ValueError, valid cuts on healthy stretches are scored
    n_checked = 0
    for cut in itertools.product((-1, 0, 2, n // 2, n - 3, n, n + 2), repeat=k):
        valid = is_valid(name, p, n, cut)
        outcome, out, err = evaluate_outcome(scorer, np.asarray([cut], dtype=np.int64))
        n_checked += 1
        if not valid:
            if outcome != "ValueError":
                raise Violation(f"after an earlier call raised the documented error, an invalid cut gave {outcome} instead of ValueError",
                                scorer=name, route=route, cut=list(cut), earlier=provoked,
                                value=np.asarray(out).tolist() if outcome == "value" else None)
            continue
        if fitted_on is good:
            want = expected_value(name, good, cut)
            if outcome != "value":
                raise Violation(f"after an earlier call raised the documented error, a valid cut on healthy data gave {outcome}", scorer=name,
                                route=route, cut=list(cut), earlier=provoked, error=err[:200])
            if want is not None and not np.all(np.abs(np.asarray(out)[0] - want) <= 1e-6 * (1 + np.abs(want))):
                raise Violation("after an earlier call raised the documented error, a valid cut is not scored according to the definition",
                                scorer=name, route=route, cut=list(cut), got=np.asarray(out)[0].tolist(), expected=np.asarray(want).tolist())
        elif outcome not in ("value", "RuntimeError"):
            raise Violation(f"after an earlier call raised the documented error, a valid cut gave {outcome}", scorer=name, route=route,
                            cut=list(cut), earlier=provoked, error=err[:200])
    return {"nontrivial": provoked == "RuntimeError", "weight": n_checked, "classes": [f"route={route}", f"earlier={provoked[:12]}"]}


def long_narrow_cells(tier):
    for name in ("CUSUM", "L2Cost", "ChangeScore(L2Cost)", "L2Saving", "GaussianVarCost", "LocalAnomalyScore(L2Cost)"):
        for n in ((100_000,) if tier == "quick" else (60_000, 100_000, 1_000_000)):
            yield {"scorer": name, "n": n}


def check_long_narrow(case):
    """Valid cuts on a series of 10^5..10^6 samples, given as int32 / uint32 / int64 / uint64: products of interval lengths
    exceed 2^31 - every dtype must give the value of the int64 cuts, and that value the definition."""
    name, n = case["scorer"], case["n"]
    k = width(name)
    rng = np.random.Generator(np.random.PCG64(n + len(name)))
    X = rng.standard_normal((n, 1))
    X[n // 2:] += 0.05
    scorer = build_scorer(name).fit(X)
    rows = {2: [[0, n // 2], [0, n], [n // 10, n - 7]], 3: [[0, n // 2, n], [0, 50_000, n], [7, n // 3, n - 5]],
            4: [[0, n // 3, n // 2, n], [5, 50_000, 50_010, n - 1]]}[k]
    base = np.asarray(rows, dtype=np.int64)
    want = np.asarray(scorer.evaluate(base), dtype=float)
    for dt in (np.int32, np.uint32, np.uint64, np.longlong):
        outcome, out, err = evaluate_outcome(scorer, base.astype(dt))
        if outcome != "value" or not np.allclose(np.asarray(out, dtype=float), want, rtol=1e-9, atol=1e-9, equal_nan=False):
            raise Violation(f"valid cuts on a long series given as {np.dtype(dt).name} are treated differently from the same int64 cuts",
                            scorer=name, n=n, outcome=outcome, int64=want.tolist(), other=np.asarray(out).tolist() if outcome == "value" else err[:200])
    for r, w in zip(rows, want):
        d = expected_value(name, X, r)
        if d is not None and not np.all(np.abs(w - d) <= 1e-6 * (1 + np.abs(d)) + 1e-9 * n):
            raise Violation("cut on a long series is not scored according to the definition", scorer=name, cut=r, got=w.tolist(),
                            expected=np.asarray(d).tolist())
    return {"nontrivial": True, "classes": [f"scorer={name}", f"n={n}"]}


def big_batch_cells(tier):
    for name in ("L2Cost", "GaussianVarCost", "L2Saving", "CUSUM", "LocalAnomalyScore(L2Cost)"):
        for where in ("last", "after_65536", "first", "none"):
            yield {"scorer": name, "where": where}


def check_big_batch(case):
    """One evaluate call with ~80000 rows (all admissible intervals of a 400-sample series, as np.triu_indices gives them, or all
    splits of the whole series repeated): with one invalid row in it - the last row, a row after position 65536, the first row -
    the call must raise ValueError; without, every row must equal the same cut evaluated on its own small batch."""
    name, where = case["scorer"], case["where"]
    k = width(name)
    n = 400
    rng = np.random.Generator(np.random.PCG64(97 + len(name)))
    X = rng.standard_normal((n, 1))
    scorer = build_scorer(name).fit(X)
    ms = min_size(name, 1)
    a, b = np.triu_indices(n + 1, k=ms)
    if k == 2:
        cuts = np.column_stack((a, b))
    elif k == 3:
        keep = b - a >= 2 * ms
        cuts = np.column_stack((a[keep], (a[keep] + b[keep]) // 2, b[keep]))
    else:
        keep = b - a >= 2 * ms + 2
        cuts = np.column_stack((a[keep], a[keep] + 1, b[keep] - 1, b[keep]))
        cuts = cuts[cuts[:, 2] - cuts[:, 1] >= ms]
    cuts = cuts.astype(np.int64)
    m = len(cuts)
    if m <= 70_000:
        raise RuntimeError(f"harness: batch too small ({m})")
    if where != "none":
        bad = {2: [300, 200], 3: [100, 200, 200], 4: [10, 50, 40, 90]}[k]  # in range, but not increasing
        pos = {"last": m - 1, "after_65536": 65536 + 11, "first": 0}[where]
        cuts = cuts.copy()
        cuts[pos] = bad
        outcome, out, err = evaluate_outcome(scorer, cuts)
        if outcome != "ValueError":
            raise Violation("an invalid row inside a batch of ~80000 cuts was evaluated silently (or raised another error)", scorer=name,
                            position=int(pos), rows=int(m), row=bad, outcome=outcome)
        return {"nontrivial": True, "classes": [f"scorer={name}", f"invalid_row={where}"]}
    outcome, out, err = evaluate_outcome(scorer, cuts)
    if outcome != "value":
        raise Violation("a valid batch of ~80000 cuts was rejected", scorer=name, rows=int(m), outcome=outcome, error=err[:200])
    out = np.asarray(out, dtype=float)
    probe = np.unique(np.r_[0, 1, 8191, 8192, 16383, 16384, 65535, 65536, 65537, m - 1, np.arange(0, m, 997)])
    alone = np.asarray(scorer.evaluate(cuts[probe]), dtype=float)
    if out.shape[0] != m or not np.allclose(out[probe], alone, rtol=1e-9, atol=1e-9):
        j = int(np.argmax(np.abs(out[probe] - alone).sum(axis=1)))
        raise Violation("a cut inside a batch of ~80000 cuts is scored differently from the same cut in a small batch", scorer=name,
                        cut=cuts[probe[j]].tolist(), in_big_batch=out[probe[j]].tolist(), alone=alone[j].tolist())
    return {"nontrivial": True, "classes": [f"scorer={name}", "valid_big_batch"]}


FACETS = [
    Facet(name="big_batches", kind="enumerate", enumerate=big_batch_cells, check=check_big_batch, exhaustive=True, time_limit=300,
          rule=("five scorers, ONE evaluate call with 70000-80000 rows (all admissible intervals of a 400-sample series): with one in-range but "
                "non-increasing row as the last row / after position 65536 / as the first row the call must raise ValueError; the valid batch must be "
                "accepted and ~100 probed rows (incl. positions 8191-8192, 16383-16384, 65535-65537, the last) must equal the same cuts evaluated in a small batch; "
                "every cell non-trivial"),
          shards_quick=10, shards_thorough=10),
    Facet(name="long_series_cut_dtypes", kind="enumerate", enumerate=long_narrow_cells, check=check_long_narrow, exhaustive=True, time_limit=300,
          rule=("six scorers on a seeded series of 100000 samples (thorough: 60000 .. 10^6): valid cuts over tens of thousands of samples given as "
                "int32 / uint32 / uint64 / long long must give the value of the int64 cuts, which must match the definition; every cell non-trivial"),
          shards_quick=6, shards_thorough=9),
    Facet(name="after_an_error", kind="enumerate", enumerate=after_error_cells, check=check_after_error, exhaustive=True,
          rule=("covariance-based scorers (cost, change score, local score, saving) that have just raised the documented not-positive-definite error "
                "on a flat-lined channel - in a direct evaluate, or inside PELT / MovingWindow / CircularBinSeg / CAPA running on the user's own scorer "
                "object - optionally refitted on healthy data, then 7^k cuts around 0..n: invalid cuts must still raise ValueError, valid cuts on "
                "healthy data must be scored by the definition; non-trivial = the earlier call did raise the documented error"),
          shards_quick=8, shards_thorough=8),
    Facet(name="after_a_failed_refit", kind="enumerate", enumerate=refit_failed_cells, check=check_refit_failed, exhaustive=True,
          rule=("five scorers with a fixed parameter for two columns fitted on 6-12 rows, re-fitted on three-column data of another length (raises ValueError), "
                "then 9^k cuts around both lengths: cuts that are invalid for the data of the last successful fit must raise ValueError (a not-fitted "
                "error counts), valid ones raise it too or are scored as by a fresh scorer on those data; every cell non-trivial"),
          shards_quick=5, shards_thorough=5),
    Facet(name="integer_box", kind="enumerate", enumerate=box_cases, check=check_box, exhaustive=True,
          rule=("every integer tuple of [-2,n+2]^k (k=2,3,4) for n in {4,5,6} (thorough: up to 8 for k<=3), p in {1,2}, 18 scorers (17 built-in configurations and a user-defined local score with its own _check_cuts); "
                "invalid => ValueError, valid => accepted and equal to the definitional value, the same tuple as uint64/uint8/int32 must behave identically; non-trivial = tuples that "
                "are strictly increasing but reach outside 0..n (each tuple visited once, so distinct by construction)"),
          shards_quick=16, shards_thorough=16, max_samples=2),
    Facet(name="malformed_arrays", check=check_malformed, strategy=malformed_cases,
          rule=("batches mixing valid and invalid rows, float / integral-float / bool / int32 / wrong-width / 0-row / 3-D "
                "arrays, nested lists, 1-D row vectors, empty list, descending rows in unsigned dtypes, rows whose difference overflows a narrow signed dtype, flat sequences holding several cuts, pandas containers (float / bool rejected, int64 accepted), "
                "timedelta64 / datetime64 arrays (rejected), np.matrix / MaskedArray / long long / Fortran-ordered / strided / read-only arrays of valid cuts (accepted and scored), a mask hiding an out-of-range entry (rejected); every case is non-trivial"),
          n_quick=600, n_thorough=6000, shards_quick=4, shards_thorough=8),
    Facet(name="shared_cost_refit", kind="enumerate", enumerate=shared_cost_cells, check=check_shared_cost, exhaustive=True,
          rule=("LocalAnomalyScore(cost) fitted on n_small samples, then PELT / MovingWindow / SeededBinSeg holding the same cost "
                "object run on n_big > n_small samples; cuts reaching beyond n_small (or below 0) must still raise ValueError; "
                "18 cells x up to 4 cuts, every cell non-trivial"),
          shards_quick=2, shards_thorough=2),
    Facet(name="fuzz_cuts", kind="external", external=fuzz_cuts_campaign, check=check_fuzz_case,
          rule=("coverage-guided fuzzing (atheris / libFuzzer, coverage of the skchange package) of evaluate's cuts argument: bytes "
                "are decoded into scorer x n x p x container {ndarray, list, tuple rows, DataFrame, Series, flat} x dtype {8 integer "
                "kinds, float32/64, bool, object} x shape (0-3 rows, wrong width, 3-D, ragged) x values (around 0..n, dtype extremes); "
                "the C13 oracle runs inside the target; non-trivial = an integer array with >= 1 row"),
          n_quick=40000, n_thorough=400000, shards_quick=4, shards_thorough=16),
]

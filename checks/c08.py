"""C08 - moving window: symmetric two-sided scores and peak-of-run detections."""

import numpy as np
from hypothesis import strategies as st

from checks import common as K
from checks.c07 import oracle_scorer_spec
from framework.core import Facet, Violation, sut
from oracles import reference as ref
from oracles import scores as OS
from strategies import data as D

PROPERTY_ID = "C08"
TECHNIQUE = "Hypothesis-generated settings/scorers/data vs. window-score and peak-of-run model (independent scorer instance + definitional values); time-reversal metamorphic relation with a margin rule"
ASSUMPTIONS = [
    "scores are compared with an independent scorer instance evaluated on (t-b, t, t+b) at 1e-9 relative, and for CUSUM / L2 with the definitional value computed from the rows at the prefix-sum error bound",
    "reversal relation: continuous scores within the error model; changepoints only where every score differs from the threshold and every run maximum is unique by more than the margin",
    "thresholds >= 0 or tuned; a tuned threshold rounded below 0 is excluded from the peak model (counted)",
]

SCORERS = [None, {"cls": "CUSUM"}, {"cls": "L2Cost"}, {"cls": "ChangeScore", "cost": {"cls": "L2Cost"}},
           {"cls": "WeightedCUSUM", "weights": [0.0, 2.0, -1.0]}, {"cls": "ChangeScore", "cost": {"cls": "TrendPenalisedL2Cost", "weight": 0.5}},
           {"cls": "GaussianVarCost"}, "function", "table", {"cls": "SecondMomentChangeScore"},
           {"cls": "WelchChangeScore"},
           # a cost with a fixed (known) mean: the change score is then 0 up to rounding, whatever the data
           {"cls": "L2Cost", "param": 0.5}, {"cls": "ChangeScore", "cost": {"cls": "L2Cost", "param": 0.5}}]


@st.composite
def cases(draw, tier):
    sc = draw(st.sampled_from(SCORERS))
    p = draw(st.integers(1, 3))
    bulk = None  # the bulk draws (table, data) come last: see strategies/data.py
    unit = 1.0
    if sc == "table":
        bw = draw(st.integers(1, 3))
        n = draw(st.integers(2 * bw, 12))
        bulk = "table"
        sc = {"cls": "TableChangeScore", "table": None}
        X = [[0.0] * p for _ in range(n)]
    else:
        ms = 1 if sc == "function" else K.scorer_min_size(sc, p)
        # integer function scores give long exceedance runs: bandwidths up to 16, i.e. min_detection_interval up to 7
        bw = draw(st.integers(ms, ms + (15 if sc == "function" else 7)))
        nmax = 50 if tier == "quick" else 80
        n = D.weighted(draw, [(7, st.integers(2 * bw, max(2 * bw, nmax))), (2, st.integers(2 * bw, 2 * bw + 3)), (1, st.just(2 * bw))])
        if sc == "function":
            sc = {"cls": "FunctionChangeScore", "key": draw(st.integers(0, 1000)), "modulus": draw(st.sampled_from([2, 3, 4])),
                  "offset": draw(st.sampled_from([0, 0, 1, 2])), "ncols": draw(st.sampled_from([1, 1, 2, 3]))}
            X = [[0.0] * p for _ in range(n)]
        else:
            bulk = "matrix"
            unit = draw(st.sampled_from([1.0, 1.0, 1.0, 1e-3, 1e-6, 1e3]))
            if isinstance(sc, dict) and sc["cls"].startswith("SecondMoment") and draw(st.integers(0, 2)) == 0:
                unit = "level_9e9"  # readings of a 9.19 GHz standard: a huge level, which this user score depends on
    mdi = draw(st.integers(1, int(max(1, bw / 2 - 1))))
    scale = draw(st.sampled_from([0.3, 1.0, 0.0, 2.0, None]))
    if isinstance(sc, dict) and sc["cls"] in ("TableChangeScore", "FunctionChangeScore") and scale is not None:
        scale = draw(st.sampled_from([0.2, 0.0, 0.05, 0.4, 0.8]))
    if isinstance(sc, dict) and sc["cls"] == "WelchChangeScore" and scale is None:
        scale = 1.0  # (a threshold tuned on undefined scores is itself undefined)
    level = draw(K.level_strategy)
    want_int64 = draw(st.booleans())
    n_train = draw(st.sampled_from([None, None, "shorter", "longer", "same_buffer", "fewer_columns", "more_columns"]))
    history = draw(st.sampled_from(K.HISTORIES))
    dup_col = draw(st.integers(0, 5)) == 0  # a channel stored twice (two identical columns): the score still sums over all columns
    if bulk == "table":
        m = (n + 1) ** 3
        flat = draw(st.lists(st.integers(-1, 3), min_size=m, max_size=m))
        sc["table"] = np.asarray(flat).reshape(n + 1, n + 1, n + 1).tolist()
    elif bulk == "matrix":
        X, _ = draw(D.structured_matrix(n, p, boundary_positions=(bw, n - bw)))
        if unit == "level_9e9":
            X = [[v + 9.19e9 for v in row] for row in X]
        elif unit != 1.0:
            X = [[v * unit for v in row] for row in X]
        if dup_col and p >= 2:
            X = [[row[0]] + list(row[:-1]) for row in X]
    integral = all(float(v).is_integer() for row in X for v in row)
    return {"params": {"change_score": sc, "bandwidth": bw, "threshold_scale": scale, "level": level,
                       "min_detection_interval": mdi}, "X": X,
            "as_int64": integral and want_int64,
            "n_train": n_train, "history": history}


def model_scores(params, X):
    n = len(X)
    b = params["bandwidth"]
    oracle = K.build(oracle_scorer_spec(params["change_score"])).fit(X)
    ts = np.arange(b, n - b + 1)
    cuts = np.column_stack((ts - b, ts, ts + b))
    vals = np.asarray(oracle.evaluate(cuts)).sum(axis=1)
    out = np.zeros(n)
    out[ts] = vals
    return out


def check(case):
    params = case["params"]
    X = np.asarray(case["X"], dtype=float)
    n, p = X.shape
    b = params["bandwidth"]
    Xin = X.astype(np.int64) if case.get("as_int64") else X  # integer-valued data may arrive as an integer array
    from checks.c07 import training_data
    Xtrain = training_data(Xin, case.get("n_train"), 2 * b, params["change_score"])
    if case.get("n_train") == "same_buffer":
        Xtrain = (Xtrain.astype(Xin.dtype) if Xin.dtype.kind == "i" else Xtrain).copy()
    history = case.get("history") if case.get("n_train") != "same_buffer" else None
    if K.rejects_other_width(lambda: K.build(K.detector_spec("MovingWindow", params)), Xtrain, Xin):
        return {"nontrivial": False, "classes": ["other_number_of_columns_rejected"]}
    with sut("MovingWindow.fit/transform_scores/predict"):
        spec_ = K.detector_spec("MovingWindow", params)
        det = K.build_with_history(spec_, Xtrain, history)
        if history == "scorer_prefit_wide" and not K.prefit_scorer_wide(det, Xtrain):
            history = None
        det.fit(Xtrain)
        if case.get("n_train") == "same_buffer":
            Xtrain[:] = Xin  # the buffer the detector was fitted on is refilled in place with the new data
            Xin = Xtrain
        if history in ("used_buffer_array", "used_buffer_frame"):
            Xin = K.used_buffer(det, Xin, history.endswith("frame"))
        elif history and history.startswith("predicted_on"):
            K.related_predict(det, Xin, history)
        scores = det.transform_scores(Xin)
        y = det.predict(Xin)
        thr = float(det.threshold_)
    s = np.asarray(scores, dtype=float).reshape(-1)
    if len(s) != n:
        raise Violation("scores do not have one entry per sample", got=len(s), n=n)
    want = model_scores(params, X)
    tol = 1e-9 * (np.abs(np.nan_to_num(want)) + K.score_magnitude(params["change_score"], X, 2 * b))
    # an undefined (NaN / inf) column score makes the column sum undefined: the same positions must be undefined in both
    undefined = ~np.isfinite(want)
    off = (np.isfinite(s) == undefined) | (~undefined & (np.abs(np.nan_to_num(s) - np.nan_to_num(want)) > tol))
    if np.any(off):
        t = int(np.argmax(off))
        raise Violation("score at t is not the change score between X[t-b:t] and X[t:t+b] (0 outside [b, n-b])",
                        t=t, bandwidth=b, n=n, reported=float(s[t]), expected=float(want[t]))
    sname = params["change_score"]["cls"] if params["change_score"] else "default"
    # definitional values for the mean-change scores
    if sname in ("default", "CUSUM", "L2Cost") or (sname == "ChangeScore" and params["change_score"]["cost"]["cls"] == "L2Cost"):
        M = D.max_abs(case["X"])
        for t in range(b, n - b + 1):
            if sname in ("default", "CUSUM"):
                d = float(OS.cusum_value(X, t - b, t, t + b).sum())
                tol_d = 8 * (n + 1) ** 2 * ref.EPS * max(M, 1e-300) + 1e-9 * (abs(d) + K.score_magnitude({"cls": "CUSUM"}, X, 2 * b))
            else:
                fixed = (params["change_score"].get("cost") or params["change_score"]).get("param")
                d = float(OS.change_score_value("L2Cost", None if fixed is None else {"mean": fixed}, X, t - b, t, t + b).sum())
                tol_d = 4 * p * ref.error_bound(n, M + abs(fixed or 0.0)) + \
                    1e-9 * (abs(d) + K.score_magnitude({"cls": "L2Cost", "param": fixed}, X, 2 * b))
            if abs(s[t] - d) > tol_d:
                raise Violation("score differs from the definitional two-sided window statistic computed from the rows",
                                t=t, bandwidth=b, reported=float(s[t]), definition=d)
    cpts = [int(v) for v in y["ilocs"].tolist()]
    classes = [f"scorer={sname}"]
    if thr < 0:
        return {"nontrivial": False, "classes": classes + ["negative_tuned_threshold_excluded"]}
    # peak-of-run model on the reported scores
    runs = [r for r in ref.mw_runs(s, thr)]
    long_runs = [r for r in runs if r[1] - r[0] >= params["min_detection_interval"]]
    if len(cpts) != len(long_runs):
        raise Violation("number of changepoints differs from the number of exceedance runs of at least min_detection_interval",
                        changepoints=cpts, runs=[list(r) for r in runs], mdi=params["min_detection_interval"], threshold=thr)
    for c, (a, e) in zip(cpts, long_runs):
        if not (a <= c < e) or s[c] < s[a:e].max():
            raise Violation("changepoint is not a position of the maximum score within its exceedance run",
                            changepoint=c, run=[a, e], scores=s[a:e].tolist())
    if b == 1:
        classes.append("bw=1")
    if n == 2 * b:
        classes.append("n=2bw")
    if len(long_runs) < len(runs):
        classes.append("short_run_dropped")
    if any(np.sum(s[a:e] == s[a:e].max()) > 1 for a, e in long_runs):
        classes.append("equal_maxima_in_run")
    if params["threshold_scale"] is None:
        classes.append("tuned")
    if case.get("as_int64"):
        classes.append("int64_input")
    if len(Xtrain) != n:
        classes.append("fitted_on_other_length")
    if Xtrain.shape[1] != p:
        classes.append("fitted_on_other_number_of_columns")
    if p >= 2 and np.array_equal(X[:, 0], X[:, 1]) and np.ptp(X[:, 0]) > 0:
        classes.append("duplicated_column")
    if history:
        classes.append(f"history={history}")
    if case.get("n_train") == "same_buffer":
        classes.append("buffer_refilled_after_fit")
    if cpts:
        classes.append("has_changepoint")
    return {"nontrivial": bool(cpts), "classes": classes}


# ------------------------------------------------------------------ reversal


@st.composite
def reversal_cases(draw, tier):
    sc = draw(st.sampled_from([None, {"cls": "CUSUM"}, {"cls": "L2Cost"}, {"cls": "ChangeScore", "cost": {"cls": "L2Cost"}}]))
    p = draw(st.integers(1, 3))
    bw = draw(st.integers(1, 8))
    n = draw(st.integers(2 * bw, 60))
    mdi = draw(st.integers(1, int(max(1, bw / 2 - 1))))
    params = {"change_score": sc, "bandwidth": bw, "threshold_scale": draw(st.sampled_from([0.5, 1.0, 0.1, 2.0, None])),
              "level": draw(st.sampled_from([0.1, 0.3, 0.01])), "min_detection_interval": mdi}
    X, _ = draw(D.structured_matrix(n, p, exact=False, min_noise_scale=1e-2, boundary_positions=(bw, n - bw)))  # bulk data last
    return {"params": params, "X": X}


def check_reversal(case):
    params = case["params"]
    X = np.asarray(case["X"], dtype=float)
    n, p = X.shape
    b = params["bandwidth"]
    Xr = X[::-1].copy()
    with sut("MovingWindow on X and on reversed X"):
        d1 = K.build(K.detector_spec("MovingWindow", params)).fit(X)
        s1 = np.asarray(d1.transform_scores(X), dtype=float).reshape(-1)
        c1 = [int(v) for v in d1.predict(X)["ilocs"].tolist()]
        d2 = K.build(K.detector_spec("MovingWindow", params)).fit(Xr)
        s2 = np.asarray(d2.transform_scores(Xr), dtype=float).reshape(-1)
        c2 = [int(v) for v in d2.predict(Xr)["ilocs"].tolist()]
    M = max(D.max_abs(case["X"]), 1e-300)
    sname = params["change_score"]["cls"] if params["change_score"] else "default"
    if sname in ("default", "CUSUM"):
        tol = 16 * p * (n + 1) ** 2 * ref.EPS * M
    else:
        tol = 8 * p * ref.error_bound(n, M)
    for t in range(0, n):
        mirrored = s2[n - t] if 1 <= n - t <= n - 1 else 0.0
        own = s1[t] if t >= 1 else 0.0
        if t == 0:
            continue
        if abs(own - mirrored) > tol + 1e-9 * (1 + abs(own)):
            raise Violation("reversing the series does not map the score at t to n-t", t=t, n=n, bandwidth=b,
                            score=float(own), mirrored=float(mirrored))
    thr1, thr2 = float(d1.threshold_), float(d2.threshold_)
    delta = 1e-7 * (1 + float(np.abs(s1).max())) + tol
    margin_ok = abs(thr1 - thr2) <= delta and thr1 >= 0 and np.all(np.abs(s1[b:n - b + 1] - thr1) > 2 * delta)
    if margin_ok:
        for a, e in ref.mw_runs(s1, thr1):
            seg = np.sort(s1[a:e])[::-1]
            if len(seg) > 1 and seg[0] - seg[1] <= 2 * delta:
                margin_ok = False
    classes = [f"scorer={sname}"]
    if not margin_ok:
        return {"nontrivial": False, "classes": classes + ["margin_not_satisfied"]}
    if sorted(n - c for c in c2) != c1:
        raise Violation("reversing the series does not map changepoints t to n-t", original=c1, reversed=c2, n=n,
                        bandwidth=b)
    if c1:
        classes.append("has_changepoint")
    return {"nontrivial": bool(c1), "classes": classes}


# ------------------------------------------------------------------ prescribed score curves


@st.composite
def profile_cases(draw, tier):
    """The score curve is prescribed (user-defined ProfileChangeScore): exceedance runs of chosen lengths whose peak sits
    at the first, last or an inner position, separated by gaps of 1-3 sub-threshold positions, for bandwidths up to 16
    (min_detection_interval up to 7). The threshold is placed at 1.5 between the integer levels."""
    bw = draw(st.integers(4, 16))
    mdi = draw(st.integers(1, int(max(1, bw / 2 - 1))))
    profile = []
    for _ in range(draw(st.integers(2, 7))):
        gap = draw(st.integers(1, 3))
        profile += [float(draw(st.integers(0, 1))) for _ in range(gap)]
        length = draw(st.sampled_from([1, 2, 3, mdi, mdi, max(1, mdi - 1), mdi + 1, 8]))
        body = draw(st.sampled_from([2.0, 3.0]))
        where = draw(st.sampled_from(["first", "last", "inner", "flat", "two_equal"]))
        run = [body] * length
        if where == "first":
            run[0] = 5.0
        elif where == "last":
            run[-1] = 5.0
        elif where == "inner":
            run[draw(st.integers(0, length - 1))] = 5.0
        elif where == "two_equal":
            run[0] = run[-1] = 5.0
        profile += run
    profile += [0.0] * draw(st.integers(0, 3))
    n = 2 * bw + len(profile) - 1
    full = [0.0] * bw + profile + [0.0] * (n + 1 - bw - len(profile))
    return {"params": {"change_score": {"cls": "ProfileChangeScore", "profile": full}, "bandwidth": bw, "threshold_scale": None,
                       "level": draw(st.sampled_from([0.01, 0.1])), "min_detection_interval": mdi},
            "n": n, "target_threshold": 1.5}


def check_profile(case):
    params = dict(case["params"])
    n = case["n"]
    base = float(K.registry()["MovingWindow"].get_default_threshold(n, 1, params["bandwidth"], params["level"]))
    params["threshold_scale"] = case["target_threshold"] / base
    info = check({"params": params, "X": np.zeros((n, 1)), "as_int64": False, "n_train": None, "history": None})
    info["classes"] = [c for c in info["classes"] if not c.startswith("scorer=")] + [f"mdi={min(params['min_detection_interval'], 4)}"]
    return info


def wide_window_cells(tier):
    """Bandwidths of several hundred samples, where min_detection_interval may be 256 and more (it is bounded by bandwidth / 2):
    prescribed score curves with exceedance runs of min_detection_interval - 1, exactly min_detection_interval, + 1 and > 2 x it."""
    for bw, mdi in ([(520, 256), (520, 259), (600, 255), (1100, 513)] + ([(520, 257), (2100, 1024), (700, 300)] if tier != "quick" else [])):
        yield {"bandwidth": bw, "min_detection_interval": mdi}


def check_wide_window(case):
    bw, mdi = case["bandwidth"], case["min_detection_interval"]
    profile = []
    for length, where in ((mdi + 1, "inner"), (mdi - 1, "first"), (mdi, "last"), (2 * mdi + 5, "first"), (mdi, "two_equal")):
        profile += [1.0, 0.0, 1.0]
        run = [2.0] * length
        if where == "inner":
            run[length // 3] = 5.0
        elif where == "first":
            run[0] = 5.0
        elif where == "last":
            run[-1] = 5.0
        else:
            run[0] = run[-1] = 5.0
        profile += run
    profile += [0.0, 0.0]
    n = 2 * bw + len(profile) - 1
    full = [0.0] * bw + profile + [0.0] * (n + 1 - bw - len(profile))
    info = check_profile({"params": {"change_score": {"cls": "ProfileChangeScore", "profile": full}, "bandwidth": bw, "threshold_scale": None,
                                     "level": 0.01, "min_detection_interval": mdi}, "n": n, "target_threshold": 1.5})
    info["classes"] = list(info["classes"]) + [f"bandwidth={bw}"]
    return info


# ------------------------------------------------------------------ default settings on realistic series


def default_cells(tier):
    """The detector with its DEFAULT hyper-parameters (optionally one of them changed) on realistic series of 100-400 samples
    (strategies.data.realistic_series; deterministic function of the stored seed)."""
    base = {"change_score": None, "bandwidth": 30, "threshold_scale": 2.0, "level": 0.01, "min_detection_interval": 1}
    variants = ({}, {"threshold_scale": None}, {"bandwidth": 10}, {"min_detection_interval": 5}, {"threshold_scale": 1.0},
                {"change_score": {"cls": "GaussianVarCost"}})
    for seed in range(8 if tier == "quick" else 24):
        for n in ((100, 260) if tier == "quick" else (61, 100, 180, 260, 400)):
            for v in variants[: 2 if tier == "quick" else 6]:
                yield {"seed": 23000 + seed, "n": n + seed, "p": 1 + seed % 2, "params": dict(base, **v)}


def check_default(case):
    X, kind = D.realistic_series(case["seed"], case["n"], case["p"])
    info = check({"params": case["params"], "X": X, "as_int64": False, "n_train": None, "history": None})
    info["classes"] = list(info["classes"]) + [f"data={kind}"]
    return info


# ------------------------------------------------------------------ very long series


def long_cells(tier):
    """Series with 2^15..2^17 scores per column and in total (lengths around powers of two, where implementations
    that work block-wise or with narrow index types change behaviour). The data are a deterministic function of the
    cell: unit noise from numpy's PCG64 seeded with the cell's `seed` (stored in the case, so the case replays
    exactly; 10^5 floats are not drawn through Hypothesis) plus level shifts placed at and next to multiples of 2^k / p."""
    shapes = [(65536 + 45, 1), (70001, 1), (32768 + 41, 2), (21846 + 40, 3), (16384 + 47, 4)]
    if tier != "quick":
        shapes += [(131072 + 43, 1), (65536 + 45, 2), (43700, 3), (100003, 1), (26300, 5)]
    for i, (n, p) in enumerate(shapes):
        for b, sc in ((20, {"cls": "CUSUM"}), (3, {"cls": "L2Cost"})) if tier != "quick" or i % 2 == 0 else ((7, None),):
            yield {"n": n, "p": p, "seed": 1000 + i, "params": {"change_score": sc, "bandwidth": b, "threshold_scale": 1.0,
                                                                  "level": 0.01, "min_detection_interval": 1}}


def check_long(case):
    n, p, b = case["n"], case["p"], case["params"]["bandwidth"]
    rng = np.random.Generator(np.random.PCG64(case["seed"]))
    X = rng.uniform(-1.0, 1.0, size=(n, p))
    block = 65536 // p
    for k, pos in enumerate(sorted({block // 2, block - 1, block, block + b - 1, block + b, block + b + 1, 2 * block + b, n - 3 * b})):
        if b <= pos <= n - b:
            X[pos:, k % p] += 2.5 if k % 2 == 0 else -2.0
    info = check({"params": case["params"], "X": X, "as_int64": False, "n_train": None})
    info["classes"] = list(info.get("classes", [])) + [f"n*p>={(n * p) // 65536}x2^16"]
    return info


FACETS = [
    Facet(name="scores_and_peaks", check=check, strategy=cases,
          rule=("bandwidth from the scorer's minimum size up to +7, n in [2bw,80], admissible min_detection_interval, threshold "
                "scales {0,.3,1,2,None}; scorers CUSUM / L2 / GaussianVar / user subclasses on structured data (also int64, small / large units) and integer "
                "Table/Function change scores (long exceedance runs with equal maxima); detector optionally fitted on other data (shorter / longer / the same buffer refilled afterwards) and optionally with a past (scorer pre-fitted on wider data; earlier predict on the caller's array / frame, then refilled in place); "
                "non-trivial = >= 1 changepoint"),
          n_quick=800, n_thorough=12000, shards_quick=8, shards_thorough=16),
    Facet(name="time_reversal", check=check_reversal, strategy=reversal_cases,
          rule=("CUSUM / L2 scorers on float structured data, X and X reversed; scores compared within the prefix-sum error model; "
                "changepoints compared only under the margin rule; non-trivial = margin satisfied and >= 1 changepoint"),
          n_quick=480, n_thorough=6000, shards_quick=8, shards_thorough=16),
    Facet(name="score_profiles", check=check_profile, strategy=profile_cases,
          rule=("prescribed score curves (user-defined ProfileChangeScore): 2-7 exceedance runs of lengths around min_detection_interval whose "
                "peak is the first, last or an inner position (or two equal maxima), separated by 1-3 sub-threshold positions; bandwidth 4..16, "
                "min_detection_interval 1..7, threshold placed between the integer levels; peak-of-run model; non-trivial = >= 1 changepoint"),
          n_quick=400, n_thorough=6000, shards_quick=8, shards_thorough=16),
    Facet(name="wide_windows", kind="enumerate", enumerate=wide_window_cells, check=check_wide_window, exhaustive=True, time_limit=300,
          rule=("bandwidths 520-1100 (thorough: 2100) with min_detection_interval 255 / 256 / 259 / 513 (thorough: 1024): prescribed score curves "
                "(user-defined ProfileChangeScore) with exceedance runs of min_detection_interval - 1, exactly min_detection_interval, + 1 and more "
                "than twice it, peaks first / last / inner / two equal; same peak-of-run model; non-trivial = >= 1 changepoint"),
          shards_quick=4, shards_thorough=7, max_samples=1),
    Facet(name="default_settings", kind="enumerate", enumerate=default_cells, check=check_default, exhaustive=True, time_limit=300,
          rule=("MovingWindow with its default hyper-parameters (CUSUM, bandwidth 30, scale 2, level 0.01, min_detection_interval 1; variants: tuned threshold, "
                "bandwidth 10, min_detection_interval 5, scale 1, GaussianVar cost) on realistic series of 61-400 samples (seeded); same score and "
                "peak-of-run models; 32 cells (thorough: 720), non-trivial = >= 1 changepoint"),
          shards_quick=16, shards_thorough=16, max_samples=1),
    Facet(name="long_series", kind="enumerate", enumerate=long_cells, check=check_long, exhaustive=True, time_limit=240,
          rule=("series with n p between 2^16 and 2^17 (n 16431..131115, p 1..5): seeded unit noise with level shifts at and next to "
                "multiples of 2^16 / p; every score compared with the definition, changepoints with the peak model; 5 cells (thorough: 20), "
                "every cell non-trivial"),
          shards_quick=5, shards_thorough=16, max_samples=1),
]

"""Shared pieces of the detector checks: JSON specs -> real objects, hyper-parameter
strategies over the documented domains, the well-formedness predicate of C04."""

import numpy as np
from hypothesis import strategies as st

from framework.core import Violation
from strategies import data as D

DETECTORS = ["PELT", "MovingWindow", "SeededBinarySegmentation", "CAPA", "MVCAPA",
             "CircularBinarySegmentation", "StatThresholdAnomaliser"]


# ------------------------------------------------------------------ spec -> object


def registry():
    from skchange import anomaly_detectors as AD
    from skchange import anomaly_scores as AS
    from skchange import change_detectors as CD
    from skchange import change_scores as CS
    from skchange import costs as C
    from userdefs import scorers as U

    reg = {}
    for mod in (C, CS, AS, CD, AD):
        for name in dir(mod):
            obj = getattr(mod, name)
            if isinstance(obj, type):
                reg[name] = obj
    for name in ("TableCost", "TableSaving", "TableChangeScore", "TableLocalAnomalyScore", "SupervisedChangeDetector", "L1Cost", "TrendPenalisedL2Cost", "MemoisingAbsCost", "WeightedCUSUM",
                 "FixedChangeDetector", "IndexLabelChangeDetector", "FunctionChangeScore", "FunctionLocalAnomalyScore",
                 "SecondMomentChangeScore", "SecondMomentLocalScore", "DirectLocalMeanScore", "ProfileChangeScore", "WelchChangeScore", "ModalL1Cost", "SeriesScaledLocalScore"):
        reg[name] = getattr(U, name)
    return reg


def stat_range(x):
    return float(np.max(x) - np.min(x))


def stat_second(x):
    return float(np.sort(np.asarray(x))[min(1, len(x) - 1)])


def stat_first(x):  # positional access: the documented argument is the segment's values (an ndarray)
    return float(x[0])


def stat_last(x):
    return float(x[-1])


def stat_method_std(x):  # ndarray.std has ddof=0 (a pandas object would use ddof=1)
    return float(x.std())


def stat_sample_std(x):  # undefined (NaN) for a one-sample segment: neither below nor above any bound
    import warnings

    with warnings.catch_warnings():
        warnings.simplefilter("ignore")
        return float(np.std(x, ddof=1))


def stat_lag1_autocorr(x):  # 0 / 0 = NaN on a flat-lining stretch
    import warnings

    x = np.asarray(x, dtype=float)
    d = x - x.mean()
    with warnings.catch_warnings():
        warnings.simplefilter("ignore")
        with np.errstate(all="ignore"):
            return float(np.sum(d[1:] * d[:-1]) / np.sum(d * d)) if len(x) > 1 else float("nan")


def stat_roughness(x):  # order-aware: mean absolute first difference along the (only) axis of the 1-D values
    return float(np.mean(np.abs(np.diff(x)))) if len(x) > 1 else 0.0


def stat_iqr(x):  # sorting along the last axis
    s_ = np.sort(x)
    return float(s_[(3 * len(s_)) // 4] - s_[len(s_) // 4])


def stat_log_var(x):  # -inf on a flat-lined stretch: below any finite lower bound
    with np.errstate(all="ignore"):
        return float(np.log(np.var(x)))


def stat_inv_std(x):  # +inf on a flat-lined stretch: above any finite upper bound
    with np.errstate(all="ignore"):
        return float(np.float64(1.0) / np.std(x))


CALLABLES = {
    "log_var": stat_log_var,
    "inv_std": stat_inv_std,
    "sample_std": stat_sample_std,
    "lag1_autocorr": stat_lag1_autocorr,
    "roughness": stat_roughness,
    "iqr": stat_iqr,
    "first": stat_first,
    "last": stat_last,
    "method_std": stat_method_std,
    "np.mean": np.mean,
    "np.median": np.median,
    "np.max": np.max,
    "np.min": np.min,
    "range": stat_range,
    "second_smallest": stat_second,
}


def build(spec):
    """Recursively build objects from a JSON spec."""
    if isinstance(spec, dict):
        if "cls" in spec:
            cls = registry()[spec["cls"]]
            kwargs = {k: build(v) for k, v in spec.items() if k != "cls"}
            return cls(**kwargs)
        if "float" in spec:  # non-finite numbers are written as text: JSON has no NaN / infinity
            return float(spec["float"])
        if "tuple" in spec:
            return tuple(build(x) for x in spec["tuple"])
        if "array" in spec:
            return np.asarray(spec["array"], dtype=float)
        if "callable" in spec:
            return CALLABLES[spec["callable"]]
        if "penalty" in spec and "wrap" in spec["penalty"]:
            family, factor = spec["penalty"]["wrap"], float(spec["penalty"]["factor"])

            def wrapped(n, p, k, scale=1.0, _f=family, _c=factor):
                """A user penalty built from a built-in one; it edits the arrays it got back in place (harmless: they are the user's)."""
                from skchange.anomaly_detectors import mvcapa as M

                alpha, betas = getattr(M, f"{_f}_mvcapa_penalty")(n, p, k, scale)
                betas *= _c
                return alpha * _c, betas

            return wrapped
        if "penalty" in spec:
            alpha = float(spec["penalty"]["alpha"])
            betas = np.asarray(spec["penalty"]["betas"], dtype=float)

            per_param = bool(spec["penalty"].get("per_param"))  # per-component terms grow with the parameters per variable

            def pen(n, p, k, scale=1.0, _a=alpha, _b=betas, _pp=per_param):
                return _a * scale, _b.copy() * scale * (k if _pp else 1)

            return pen
        return {k: build(v) for k, v in spec.items()}
    return spec


def scorer_min_size(spec, p):
    """Documented minimum size of a scorer spec (None = the detector default)."""
    if spec is None:
        return 1
    cls = spec["cls"]
    if cls in ("L2Cost", "CUSUM", "L2Saving", "L1Cost", "TrendPenalisedL2Cost", "MemoisingAbsCost", "WeightedCUSUM",
               "SecondMomentChangeScore", "SecondMomentLocalScore", "ModalL1Cost", "SeriesScaledLocalScore"):
        return 1
    if cls == "GaussianVarCost":
        return 2
    if cls == "GaussianCovCost":
        return p + 1
    if cls in ("ChangeScore", "LocalAnomalyScore"):
        return scorer_min_size(spec["cost"], p)
    if cls == "Saving":
        return scorer_min_size(spec["baseline_cost"], p)
    if cls.startswith("Table") or cls.startswith("Function"):
        return spec.get("msize", 1)
    if cls == "ProfileChangeScore":
        return 1
    if cls == "WelchChangeScore":
        return 2
    raise ValueError(cls)


def score_magnitude(spec, X, length, default="CUSUM"):
    """Natural magnitude of the cost terms behind a score on an interval of the given length: the rounding
    error of a score computed in another batch is relative to this, not to the score itself (which may be
    tiny, e.g. for data in small units)."""
    import numpy as np

    X = np.asarray(X, dtype=float)
    p = X.shape[1]
    M = float(np.max(np.abs(X))) if X.size else 0.0
    inner = spec
    while isinstance(inner, dict) and ("cost" in inner or "baseline_cost" in inner):
        inner = inner.get("cost", inner.get("baseline_cost"))
    cls = default if inner is None else inner["cls"]
    if cls.startswith(("Gaussian", "Table", "Function", "Profile", "Welch", "SeriesScaled")):
        return 1.0 + (length if cls.startswith("Gaussian") else 0.0)
    if cls in ("CUSUM", "WeightedCUSUM"):
        return p * (length ** 0.5) * M * (max(abs(float(w)) for w in inner.get("weights", [1.0])) if isinstance(inner, dict) else 1.0)
    if cls in ("L1Cost", "ModalL1Cost"):
        return p * length * M * float(inner.get("scale", 1.0))
    if cls.startswith("SecondMoment"):
        # (the reference evaluates the very same user code on the same data; 1e-3 keeps the comparison meaningful for data on
        # a huge level, where M^2 is ten orders of magnitude above the score)
        return 1e-3 * p * (length ** 0.5) * M * M
    if isinstance(inner, dict) and isinstance(inner.get("param"), (int, float)):
        M += abs(float(inner["param"]))  # deviations from a fixed mean
    return p * length * M * M  # squared-error costs


def is_multivariate_scorer(spec):
    if spec is None:
        return False
    cls = spec["cls"]
    if cls == "GaussianCovCost":
        return True
    for k in ("cost", "baseline_cost"):
        if k in spec:
            return is_multivariate_scorer(spec[k])
    return False


# ------------------------------------------------------------------ strategies

COSTS_OPT = [{"cls": "L2Cost"}, {"cls": "GaussianVarCost"}, {"cls": "GaussianCovCost"}]
CHANGE_SCORES = [None, {"cls": "CUSUM"}, {"cls": "L2Cost"}, {"cls": "ChangeScore", "cost": {"cls": "L2Cost"}},
                 {"cls": "GaussianVarCost"}, {"cls": "ChangeScore", "cost": {"cls": "GaussianVarCost"}},
                 {"cls": "GaussianCovCost"}]
LOCAL_SCORES = [None, {"cls": "L2Cost"}, {"cls": "GaussianVarCost"},
                {"cls": "LocalAnomalyScore", "cost": {"cls": "L2Cost"}}, {"cls": "GaussianCovCost"}]
SAVINGS = [None, {"cls": "L2Saving"}, {"cls": "L2Cost", "param": 0.0}, {"cls": "L2Cost", "param": 0.5},
           {"cls": "Saving", "baseline_cost": {"cls": "L2Cost", "param": 0.0}},
           {"cls": "Saving", "baseline_cost": {"cls": "GaussianVarCost", "param": {"tuple": [0.0, 1.0]}}},
           {"cls": "GaussianVarCost", "param": {"tuple": [0.0, 1.0]}}]
SAVINGS_MV = SAVINGS + [{"cls": "Saving", "baseline_cost": {"cls": "GaussianCovCost", "param": {"tuple": [0.0, 1.0]}}}]
POINT_SAVINGS = [None, {"cls": "L2Saving"}, {"cls": "L2Cost", "param": 0.0}, {"cls": "L2Cost", "param": 0.5}]

scale_strategy = st.one_of(st.sampled_from([0.0, 0.3, 1.0, 2.0]), st.floats(0.0, 3.0, allow_nan=False))
tuned_scale_strategy = st.one_of(st.none(), scale_strategy, scale_strategy)
level_strategy = st.one_of(st.sampled_from([1e-8, 0.01, 0.1, 0.4]), st.floats(1e-8, 0.4, allow_nan=False))
growth_strategy = st.one_of(st.sampled_from([1.01, 1.5, 2.0]), st.floats(1.01, 2.0, allow_nan=False))


@st.composite
def detector_params(draw, det, p, max_msl=5, max_bw=6, allow_cov=True):
    """Hyper-parameters inside the documented domain of detector `det` for p columns.
    Returns (params dict of JSON specs, n_min)."""
    def pick(options):
        opts = [o for o in options if allow_cov or not is_multivariate_scorer(o)]
        return draw(st.sampled_from(opts))

    if det == "PELT":
        cost = pick([None] + COSTS_OPT)
        ms = scorer_min_size(cost, p)
        msl = draw(st.integers(max(1, ms), max(1, ms) + max_msl - 1))
        return {"cost": cost, "penalty_scale": draw(scale_strategy), "min_segment_length": msl}, 2 * msl
    if det == "MovingWindow":
        cs = pick(CHANGE_SCORES)
        ms = scorer_min_size(cs, p)
        bw = draw(st.integers(max(1, ms), max(1, ms) + max_bw - 1))
        mdi_max = int(max(1, bw / 2 - 1))
        return {"change_score": cs, "bandwidth": bw, "threshold_scale": draw(tuned_scale_strategy),
                "level": draw(level_strategy),
                "min_detection_interval": draw(st.integers(1, mdi_max))}, 2 * bw
    if det in ("SeededBinarySegmentation", "CircularBinarySegmentation"):
        sc = pick(CHANGE_SCORES if det.startswith("Seeded") else LOCAL_SCORES)
        ms = scorer_min_size(sc, p)
        msl = draw(st.integers(max(1, ms), max(1, ms) + max_msl - 1))
        mil = D.weighted(draw, [(2, st.just(2 * msl)), (5, st.integers(2 * msl, 2 * msl + 20)), (2, st.sampled_from([100, 200, 1000]))])
        key = "change_score" if det.startswith("Seeded") else "anomaly_score"
        return {key: sc, "threshold_scale": draw(tuned_scale_strategy), "level": draw(level_strategy),
                "min_segment_length": msl, "max_interval_length": mil,
                "growth_factor": draw(growth_strategy)}, 2 * msl
    if det in ("CAPA", "MVCAPA"):
        coll = pick(SAVINGS_MV if det == "CAPA" else SAVINGS)
        ms = scorer_min_size(coll, p)
        msl = draw(st.integers(max(2, ms), max(2, ms) + max_msl - 1))
        maxl = D.weighted(draw, [(2, st.just(msl)), (5, st.integers(msl, msl + 20)), (3, st.sampled_from([100, 1000]))])
        params = {"collective_saving": coll, "point_saving": pick(POINT_SAVINGS),
                  "collective_penalty_scale": draw(scale_strategy), "point_penalty_scale": draw(scale_strategy),
                  "min_segment_length": msl, "max_segment_length": maxl,
                  "ignore_point_anomalies": draw(st.booleans())}
        if det == "MVCAPA":
            fams = ["dense", "sparse", "combined"] + (["intermediate"] if p >= 2 else [])
            # also user penalty callables (equal betas, so that they fit any number of columns); a lenient one
            # detects weak anomalies in which no single column exceeds the sparse penalty
            lenient = {"penalty": {"alpha": draw(st.sampled_from([1.0, 0.5, 3.0])), "betas": [draw(st.sampled_from([0.0, 0.2]))] * max(p, 1)}}
            params["collective_penalty"] = draw(st.sampled_from(fams + [lenient]))
            params["point_penalty"] = draw(st.sampled_from(fams + [lenient]))
        return params, msl
    if det == "StatThresholdAnomaliser":
        inner = draw(st.sampled_from(["PELT", "MovingWindow", "SeededBinarySegmentation"]))
        ip, n_min = draw(detector_params(inner, 1, max_msl=3, max_bw=4, allow_cov=allow_cov))
        lo = draw(st.one_of(st.sampled_from([-1.0, 0.0, -0.5]), st.floats(-5, 5, allow_nan=False)))
        hi = lo + draw(st.one_of(st.sampled_from([0.0, 1.0, 2.0]), st.floats(0, 6, allow_nan=False)))
        return {"change_detector": dict(cls=inner, **ip),
                "stat": {"callable": draw(st.sampled_from(["np.mean", "np.median", "np.max", "range", "first", "last", "method_std", "sample_std", "roughness", "iqr"]))},
                "stat_lower": lo, "stat_upper": hi}, n_min
    raise ValueError(det)


def detector_spec(det, params):
    return dict(cls=det, **params)


# ------------------------------------------------------------------ objects with a past (C02, C03, C07-C09)

HISTORIES = [None, "used_buffer_array", "used_buffer_frame", "scorer_prefit_wide", None,
             # the same fitted detector has just predicted on *other objects* holding closely related data: the rows in another
             # order (reversed, rotated), or the same series with a block of interior rows revised (recalibration, imputed gap)
             "predicted_on_reversed", "predicted_on_rotated", "predicted_on_revised",
             # the detector was constructed with other settings, used on a series of the same length and re-configured with set_params
             "reconfigured",
             # the scorer object handed to the detector was configured differently when the detector was constructed and was set
             # to its final configuration afterwards, through the user's own handle (scorer.set_params)
             "scorer_handle_reconfigured"]


def reconfigured(spec, X):
    """The detector of `spec`, but with a past: constructed with other values of its scalar hyper-parameters, used on data
    of the same length (X rotated), then re-configured to `spec` with set_params - the scan loop of a user trying settings."""
    import numpy as np

    alt = dict(spec)
    for key, change in (("bandwidth", 2), ("min_segment_length", 1), ("max_interval_length", 7), ("max_segment_length", 3),
                        ("min_detection_interval", 0)):
        if isinstance(alt.get(key), int):
            alt[key] = alt[key] + change if key != "min_detection_interval" else 1
    if "growth_factor" in alt:
        alt["growth_factor"] = 2.0 if alt["growth_factor"] != 2.0 else 1.5
    for key in ("threshold_scale", "penalty_scale", "collective_penalty_scale", "point_penalty_scale"):
        if isinstance(alt.get(key), (int, float)):
            alt[key] = alt[key] + 0.5
    changed = {k_: spec[k_] for k_ in alt if alt[k_] != spec.get(k_) and not isinstance(spec.get(k_), dict)}
    try:
        det = build(alt)
    except ValueError:
        return build(spec)
    other = np.roll(np.asarray(X), max(1, len(X) // 3), axis=0)
    try:
        det.fit(other)
        det.predict(other)
    except (ValueError, RuntimeError):
        pass
    det.set_params(**{k_: build(v_) for k_, v_ in changed.items()})
    return det


SCORER_KEY = {"PELT": "cost", "MovingWindow": "change_score", "SeededBinarySegmentation": "change_score",
              "CircularBinarySegmentation": "anomaly_score", "CAPA": "collective_saving", "MVCAPA": "collective_saving"}
_ALT_PARAM = {"L2Cost": 1.5, "GaussianVarCost": (0.5, 2.0), "GaussianCovCost": (0.5, 2.0)}


def detour_handle(target):
    """For a freshly built scorer `target`: (handle, finish, applicable). `handle` is an object of the same class in another
    valid configuration (another fixed parameter of a built-in cost, another inner cost of a ChangeScore / LocalAnomalyScore /
    Saving); `finish()` re-configures it to the configuration of `target` through handle.set_params - to be called after the
    detector was constructed around `handle`. get_params() of the detector then shows the final configuration."""
    name = type(target).__name__
    params = target.get_params(deep=False)
    alt = None
    if name in _ALT_PARAM:
        alt = {"param": _ALT_PARAM[name]}
    elif name in ("ChangeScore", "LocalAnomalyScore", "Saving"):
        key = "baseline_cost" if name == "Saving" else "cost"
        inner = params[key]
        if type(inner).__name__ in _ALT_PARAM:
            alt = {key: type(inner)(param=_ALT_PARAM[type(inner).__name__])}
        elif name != "Saving":
            from skchange.costs import L2Cost

            alt = {key: L2Cost()}
    if alt is None:
        return target, (lambda: None), False
    handle = type(target)(**{**params, **alt})
    return handle, (lambda: handle.set_params(**{k_: params[k_] for k_ in alt})), True


def build_with_history(spec, X, history):
    """The detector of `spec`; for the construction-time histories with that past."""
    if history == "reconfigured":
        return reconfigured(spec, X)
    key = SCORER_KEY.get(spec["cls"])
    if history != "scorer_handle_reconfigured" or spec.get(key) is None:
        return build(spec)
    handle, finish, _ = detour_handle(build(spec[key]))
    det = registry()[spec["cls"]](**{k_: build(v_) for k_, v_ in spec.items() if k_ not in ("cls", key)}, **{key: handle})
    finish()
    return det


def rejects_other_width(make_detector, Xtrain, Xpred):
    """True when a detector fitted on Xtrain refuses data with another number of columns with ValueError. The pinned tree
    accepts such data (detections are relative to the fitted threshold_ / penalty_, which is what the checks then assert); a
    stricter input validation would be a legitimate change, after which nothing is claimed about such a call."""
    import numpy as np

    if np.asarray(Xtrain).shape[1] == np.asarray(Xpred).shape[1]:
        return False
    try:
        make_detector().fit(Xtrain).predict(Xpred)
    except ValueError:
        return True
    except Exception:  # noqa: BLE001 - anything else is left to the check itself
        return False
    return False


def related_predict(det, X, history):
    """Lets the fitted `det` predict on a new object with data related to X (see HISTORIES); failures of that earlier
    call with the documented not-positive-definite error are part of life."""
    import numpy as np

    Xr = np.asarray(X)
    if history == "predicted_on_reversed":
        other = Xr[::-1].copy()
    elif history == "predicted_on_rotated":
        other = np.roll(Xr, max(1, len(Xr) // 3), axis=0)
    else:
        other = Xr.copy()
        if len(Xr) % 2:
            a = max(1, len(Xr) // 2 - 1)  # a block of interior rows was different (recalibration)
            other[a:a + max(1, len(Xr) // 8)] = other[a:a + max(1, len(Xr) // 8)] * -0.5 + (3 if Xr.dtype.kind in "iu" else 3.25)
        else:
            r_ = int(np.argmax(np.abs(Xr.astype(float)).reshape(len(Xr), -1).max(axis=1)))  # one reading inside the strongest event was
            other[r_] = 0                                                                     # different (a removed glitch)
    try:
        det.predict(other)
        if hasattr(det, "transform_scores") and type(det).__name__ in ("PELT", "MovingWindow", "CAPA", "MVCAPA"):
            det.transform_scores(other)
    except RuntimeError as e:
        if "positive definite" not in str(e):
            raise


def other_contents(X):
    """Other data of the same shape and dtype (what a preallocated buffer held before)."""
    import numpy as np

    return X[::-1].copy() if X.dtype.kind in "iu" else X[::-1] * 0.75 + 0.5


def used_buffer(det, X, frame):
    """A caller-owned buffer (array or DataFrame) on which the fitted `det` has already predicted while it held other
    data, and which was then refilled in place with X. Outputs for it must describe X."""
    import pandas as pd

    other = other_contents(X)
    buf = pd.DataFrame(other) if frame else other
    try:
        det.predict(buf)
    except RuntimeError as e:  # the earlier contents may be degenerate for a covariance cost: that call failed, life goes on
        if "positive definite" not in str(e):
            raise
    if frame:
        buf.iloc[:, :] = X
    else:
        buf[:] = X
    return buf


def prefit_scorer_wide(det, X):
    """The scorer object(s) the detector holds were used before on data with two more columns (a covariance
    cost then remembers a larger minimum size). Returns True if some scorer was pre-fitted."""
    import numpy as np

    n = len(X)
    extra = np.column_stack([(((i + 1) * 0.6180339887498949) % 1.0) - 0.5 for i in range(n)] +
                            [(((i + 1) * 0.7548776662466927) % 1.0) - 0.5 for i in range(n)]).reshape(2, n).T
    wide = np.hstack([np.asarray(X, dtype=float), extra])
    done = False
    for key, obj in det.get_params(deep=False).items():
        if hasattr(obj, "evaluate") and hasattr(obj, "fit"):
            try:
                obj.fit(wide)
                done = True
            except Exception:  # noqa: BLE001 - a scorer that cannot take wider data simply has no such past
                pass
    return done


# ------------------------------------------------------------------ sparse output access


def sparse_events(y):
    """(kind, events): kind 'changepoints' -> list[int]; 'anomalies' -> list[(a,b)]."""
    import pandas as pd

    if not isinstance(y, pd.DataFrame) or "ilocs" not in y.columns:
        raise Violation("predict did not return a DataFrame with an 'ilocs' column", type=type(y).__name__)
    if isinstance(y["ilocs"].dtype, pd.IntervalDtype):
        arr = y["ilocs"].array
        return "anomalies", [(int(a), int(b)) for a, b in zip(arr.left, arr.right)]
    return "changepoints", [int(v) for v in y["ilocs"].tolist()]


# ------------------------------------------------------------------ C04 predicate


def check_wellformed(det, params, n, p, y, fitted=None):
    """Validity predicate of C04, written from the property text. Raises Violation."""
    import pandas as pd

    if not isinstance(y, pd.DataFrame):
        raise Violation("predict did not return a DataFrame", type=type(y).__name__)
    K = len(y)
    if list(y.index) != list(range(K)):
        raise Violation("predict's index is not the range 0..K-1", index=str(y.index))
    if "ilocs" not in y.columns:
        raise Violation("predict has no 'ilocs' column", columns=list(map(str, y.columns)))
    if det in ("PELT", "MovingWindow", "SeededBinarySegmentation"):
        if not np.issubdtype(y["ilocs"].dtype, np.integer):
            raise Violation("changepoints are not integers", dtype=str(y["ilocs"].dtype))
        cpts = [int(v) for v in y["ilocs"].tolist()]
        if any(b <= a for a, b in zip(cpts[:-1], cpts[1:])):
            raise Violation("changepoints are not strictly increasing", changepoints=cpts)
        if any(c < 1 or c > n - 1 for c in cpts):
            raise Violation("changepoint outside [1, n-1]", changepoints=cpts, n=n)
        if det == "MovingWindow":
            bw = params["bandwidth"]
            if any(c < bw or c > n - bw for c in cpts):
                raise Violation("moving-window changepoint outside [bandwidth, n-bandwidth]", changepoints=cpts,
                                n=n, bandwidth=bw)
        else:
            msl = params["min_segment_length"]
            bounds = [0] + cpts + [n]
            if any(b - a < msl for a, b in zip(bounds[:-1], bounds[1:])):
                raise Violation("a segment is shorter than min_segment_length", changepoints=cpts, n=n, msl=msl)
        return {"events": cpts}
    # anomaly detectors
    if not isinstance(y["ilocs"].dtype, pd.IntervalDtype):
        raise Violation("anomalies are not an interval column", dtype=str(y["ilocs"].dtype))
    arr = y["ilocs"].array
    if arr.closed != "left":
        raise Violation("anomaly intervals are not left-closed", closed=arr.closed)
    if not (np.issubdtype(arr.left.dtype, np.integer) and np.issubdtype(arr.right.dtype, np.integer)):
        raise Violation("anomaly interval bounds are not integers", dtype=str(arr.left.dtype))
    ev = [(int(a), int(b)) for a, b in zip(arr.left, arr.right)]
    if "labels" not in y.columns or [int(v) for v in y["labels"].tolist()] != list(range(1, K + 1)):
        raise Violation("anomaly labels are not 1..K", labels=y["labels"].tolist() if "labels" in y.columns else None)
    prev = 0
    for a, b in ev:
        if not (0 <= a < b <= n):
            raise Violation("anomaly interval is empty or outside [0, n]", anomaly=[a, b], n=n, anomalies=ev)
        if a < prev:
            raise Violation("anomalies are not sorted and pairwise disjoint", anomalies=ev)
        prev = b
    if det in ("CAPA", "MVCAPA"):
        msl, maxl = params["min_segment_length"], params["max_segment_length"]
        for a, b in ev:
            L = b - a
            if L != 1 and not (msl <= L <= maxl):
                raise Violation("collective anomaly length outside [min_segment_length, max_segment_length]",
                                anomaly=[a, b], msl=msl, maxl=maxl)
            if L == 1 and params.get("ignore_point_anomalies") and msl > 1:
                raise Violation("point anomaly reported although ignore_point_anomalies is set", anomaly=[a, b])
    if det == "CircularBinarySegmentation":
        msl = params["min_segment_length"]
        for a, b in ev:
            if b - a < msl or not (0 < a and b < n):
                raise Violation("circular-binseg anomaly shorter than min_segment_length or not strictly inside the data",
                                anomaly=[a, b], msl=msl, n=n)
    if det == "MVCAPA":
        if "icolumns" not in y.columns:
            raise Violation("MVCAPA output has no 'icolumns' column")
        for (a, b), cols in zip(ev, y["icolumns"].tolist()):
            cols = [int(c) for c in np.asarray(cols).reshape(-1)]
            if not cols or len(set(cols)) != len(cols) or any(c < 0 or c >= p for c in cols):
                raise Violation("affected columns are empty, repeated or out of range", anomaly=[a, b], icolumns=cols, p=p)
    return {"events": ev}

"""C06 - scores derived from costs equal their defining cost differences."""

import numpy as np
from hypothesis import strategies as st

from checks import c01
from framework.core import Facet, Violation, sut
from oracles import reference as ref
from strategies import data as D

PROPERTY_ID = "C06"
TECHNIQUE = "Hypothesis-generated data/cuts/parameters; algebraic identities against fresh cost instances, twin implementations, inequalities with an error model"
ASSUMPTIONS = [
    "identities are checked against the same cost class evaluated on a fresh instance (cost values themselves are C01's business)",
    "inequalities are asserted only where every involved slice has variances / covariance eigenvalues above 1e-8 x scale^2 (property: well above the variance floor); skipped cases are counted",
]

COSTS = ["L2Cost", "GaussianVarCost", "GaussianCovCost", "L1Cost", "TrendL2", "MemoAbs", "ModalL1"]


def make_cost(name, param=None, extra=None):
    """`extra`: value of the user cost's additional hyper-parameter (ignored by built-in costs)."""
    if name in ("L1Cost", "ModalL1"):
        from userdefs.scorers import L1Cost, ModalL1Cost

        p = None if param is None else param["mean"]
        return (L1Cost if name == "L1Cost" else ModalL1Cost)(p if p is None or not isinstance(p, list) else list(p), 1.0 if extra is None else extra)
    if name == "MemoAbs":  # user cost that memoises and returns its cached arrays
        from userdefs.scorers import MemoisingAbsCost

        return MemoisingAbsCost(None if param is None else float(np.asarray(param["mean"], dtype=float).reshape(-1)[0]))
    if name == "TrendL2":  # user cost that subclasses the built-in L2Cost and overrides its evaluation
        from userdefs.scorers import TrendPenalisedL2Cost

        m = None if param is None else param["mean"]
        m = m if m is None or not isinstance(m, list) else np.asarray(m, dtype=float)
        return TrendPenalisedL2Cost(m, 0.5 if extra is None else extra)
    return c01.build_cost(name, param)


def cost_min_size(name, p):
    return 1 if name in ("L1Cost", "TrendL2", "MemoAbs", "ModalL1") else c01.min_size_of(name, p)


def to_container(X, container, int64=False):
    import pandas as pd

    if int64:
        X = X.astype(np.int64)

    if container == "DataFrame":
        return pd.DataFrame(X, columns=[f"c{j}" for j in range(X.shape[1])])
    return X


@st.composite
def cut3(draw, n, ms):
    s = draw(st.integers(0, n - 2 * ms))
    k = draw(st.integers(s + ms, n - ms))
    e = draw(st.integers(k + ms, n))
    return [s, k, e]


@st.composite
def cut4(draw, n, ms):
    """s < a < b < e <= n with inner length >= ms and surroundings >= ms in total (by construction)."""
    lmin = ms + max(ms, 2)
    L = draw(st.integers(lmin, n))
    s = draw(st.integers(0, n - L))
    m = draw(st.integers(ms, L - max(ms, 2)))
    left = draw(st.integers(1, L - m - 1))
    a = s + left
    return [s, a, a + m, s + L]


def n_min_for(kind, ms):
    if kind == "local":
        return max(2 * ms, ms + 2)
    if kind == "change":
        return 2 * ms
    return ms


@st.composite
def base_case(draw, tier, kind, costs=COSTS, param_mode="none"):
    cost = draw(st.sampled_from(costs))
    p = draw(st.integers(1, 4 if cost != "GaussianCovCost" else 2))
    ms = cost_min_size(cost, p)
    nmin = n_min_for(kind, ms)
    nmax = 30 if tier == "quick" else 80
    n = D.weighted(draw, [(2, st.integers(nmin, nmin + 3)), (6, st.integers(nmin, 20)), (2, st.integers(nmin, nmax))])
    k = draw(st.integers(1, 8))
    if kind == "change":
        cuts = [draw(cut3(n, ms)) for _ in range(k)]
    elif kind == "local":
        cuts = [draw(cut4(n, ms)) for _ in range(min(k, 4))]
    else:
        cuts = draw(c01.intervals(n, ms, max_batch=8))
    case = {"cost": cost, "cuts": cuts, "container": draw(st.sampled_from(["ndarray", "DataFrame"])),
            "extra": draw(st.sampled_from([2.5, 1.0, 0.5])) if cost in ("L1Cost", "TrendL2", "ModalL1") else None}
    # fixed parameter of the cost (drawn before the bulk data, see strategies/data.py)
    case["param"] = None
    if param_mode == "always" or (param_mode == "sometimes" and draw(st.integers(0, 2)) == 0):
        if cost == "MemoAbs":
            case["param"] = {"mean": draw(st.floats(-5, 5, allow_nan=False))}
        elif cost in ("L1Cost", "TrendL2", "ModalL1"):
            case["param"] = {"mean": draw(st.one_of(st.floats(-5, 5, allow_nan=False),
                                                    st.lists(st.floats(-5, 5, allow_nan=False), min_size=p, max_size=p)))}
        else:
            case["param"] = draw(c01.fixed_param(cost, p))
    # integer-valued data of the size of byte / event counts (2e7 .. 4e8), handed over as an int64 array or frame
    counts = cost in ("L2Cost", "L1Cost", "TrendL2", "MemoAbs", "ModalL1") and draw(st.integers(0, 7)) == 0
    if counts:
        X = draw(D.exact_matrix(n, p, dyadic=False))
        case["X"] = [[(v + 10) * 2e7 for v in row] for row in X]
        case["counts_int64"] = True
    else:
        case["X"] = draw(D.any_matrix(n, p))  # bulk data last (see strategies/data.py)
    return case


def evaluate_or_none(scorer, cuts):
    """Row-wise evaluation; None where the documented not-PD error is raised."""
    out = []
    for c in cuts:
        try:
            out.append(np.asarray(scorer.evaluate(np.asarray([c], dtype=np.int64)))[0])
        except RuntimeError as e:
            if "positive definite" not in str(e):
                raise
            out.append(None)
    return out


def compare_rows(what, got, want_rows, cuts, scale_rows):
    for i, (w, sc) in enumerate(zip(want_rows, scale_rows)):
        if w is None:
            continue
        tol = 1e-9 * (1.0 + sc)
        if got[i] is None or np.asarray(got[i]).shape != np.asarray(w).shape:
            raise Violation(f"{what}: wrong output shape", cut=cuts[i], got=None if got[i] is None else np.asarray(got[i]).tolist())
        if not np.all(np.abs(np.asarray(got[i]) - w) <= tol):
            raise Violation(f"{what} differs from its defining cost difference", cut=cuts[i],
                            got=np.asarray(got[i]).tolist(), expected=np.asarray(w).tolist())


# ------------------------------------------------------------------ change score


@st.composite
def change_cases(draw, tier):
    return draw(base_case(tier, "change", param_mode="sometimes"))


def check_change(case):
    from skchange.change_scores import ChangeScore

    X = np.asarray(case["X"], dtype=float)
    cuts = case["cuts"]
    Xc = to_container(X, case["container"], case.get("counts_int64", False))
    fresh = make_cost(case["cost"], case["param"], case.get("extra")).fit(X)
    with sut("ChangeScore(cost).fit"):
        sc = ChangeScore(make_cost(case["cost"], case["param"], case.get("extra"))).fit(Xc)
    want, scales = [], []
    for s, k, e in cuts:
        parts = evaluate_or_none(fresh, [[s, e], [s, k], [k, e]])
        if any(x is None for x in parts):
            want.append(None)
            scales.append(0.0)
        else:
            want.append(parts[0] - parts[1] - parts[2])
            scales.append(float(max(np.abs(x).max() for x in parts)))
    got = []
    for i, c in enumerate(cuts):
        try:
            with sut("ChangeScore.evaluate", allowed=(RuntimeError,)):
                got.append(np.asarray(sc.evaluate(np.asarray([c], dtype=np.int64)))[0])
        except RuntimeError as e:
            if want[i] is None and "positive definite" in str(e):
                got.append(None)
                continue
            raise Violation(f"ChangeScore raised although the cost scores all three intervals: {e}", cut=c)
    compare_rows("ChangeScore(cost)", got, want, cuts, scales)
    if all(w is not None for w in want):
        # the same cuts evaluated once more (as one batch, twice) must give the same values again
        with sut("ChangeScore(cost): repeated evaluation"):
            first = np.array(sc.evaluate(np.asarray(cuts, dtype=np.int64)), dtype=float)
            again = np.asarray(sc.evaluate(np.asarray(cuts, dtype=np.int64)), dtype=float)
        compare_rows("ChangeScore(cost) (evaluated again)", list(again), want, cuts, scales)
        compare_rows("ChangeScore(cost) (first result after a second evaluation)", list(first), want, cuts, scales)
    # batch evaluation equals row-wise evaluation
    if all(w is not None for w in want):
        with sut("ChangeScore.evaluate(batch)"):
            batch = np.asarray(sc.evaluate(np.asarray(cuts, dtype=np.int64)))
        for i in range(len(cuts)):
            if not np.allclose(batch[i], got[i], rtol=1e-12, atol=1e-12 * (1 + scales[i])):
                raise Violation("ChangeScore row depends on the batch", cut=cuts[i])
    nt = any(w is not None and (c[0] > 0 or c[2] < len(X)) and not np.all(X[c[0]:c[2]] == X[c[0]]) for w, c in zip(want, cuts))
    return {"nontrivial": nt, "classes": [f"cost={case['cost']}", "fixed" if case["param"] else "optimal",
                                          case["container"]]}


# ------------------------------------------------------------------ saving


@st.composite
def saving_cases(draw, tier):
    return draw(base_case(tier, "saving", param_mode="always"))


def check_saving(case):
    from skchange.anomaly_scores import Saving

    X = np.asarray(case["X"], dtype=float)
    cuts = case["cuts"]
    Xc = to_container(X, case["container"], case.get("counts_int64", False))
    base = make_cost(case["cost"], case["param"], case.get("extra")).fit(X)
    opt = make_cost(case["cost"], None, case.get("extra")).fit(X)
    with sut("Saving(cost).fit"):
        sv = Saving(make_cost(case["cost"], case["param"], case.get("extra"))).fit(Xc)
    b_rows = evaluate_or_none(base, cuts)
    o_rows = evaluate_or_none(opt, cuts)
    want = [None if (b is None or o is None) else b - o for b, o in zip(b_rows, o_rows)]
    scales = [0.0 if w is None else float(max(np.abs(b).max(), np.abs(o).max())) for w, b, o in zip(want, b_rows, o_rows)]
    got = []
    for i, c in enumerate(cuts):
        try:
            with sut("Saving.evaluate", allowed=(RuntimeError,)):
                got.append(np.asarray(sv.evaluate(np.asarray([c], dtype=np.int64)))[0])
        except RuntimeError as e:
            if want[i] is None and "positive definite" in str(e):
                got.append(None)
                continue
            raise Violation(f"Saving raised although both costs score the interval: {e}", cut=c)
    compare_rows("Saving(cost)", got, want, cuts, scales)
    if all(w is not None for w in want):
        # the same cuts evaluated once more (as one batch, twice) must give the same values again
        with sut("Saving(cost): repeated evaluation"):
            first = np.array(sv.evaluate(np.asarray(cuts, dtype=np.int64)), dtype=float)
            again = np.asarray(sv.evaluate(np.asarray(cuts, dtype=np.int64)), dtype=float)
        compare_rows("Saving(cost) (evaluated again)", list(again), want, cuts, scales)
        compare_rows("Saving(cost) (first result after a second evaluation)", list(first), want, cuts, scales)
    nt = any(w is not None and (c[0] > 0 or c[1] < len(X)) and not np.all(X[c[0]:c[1]] == X[c[0]]) for w, c in zip(want, cuts))
    return {"nontrivial": nt, "classes": [f"cost={case['cost']}", case["container"]]}


# ------------------------------------------------------------------ local anomaly score


@st.composite
def local_cases(draw, tier):
    # the definition C(s,e) - C(a,b) - C(pooled surroundings) holds for any cost, also one with a fixed parameter
    return draw(base_case(tier, "local", param_mode="sometimes"))


def check_local(case):
    from skchange.anomaly_scores import LocalAnomalyScore

    X = np.asarray(case["X"], dtype=float)
    cuts = case["cuts"]
    Xc = to_container(X, case["container"], case.get("counts_int64", False))
    fresh = make_cost(case["cost"], case.get("param"), case.get("extra")).fit(X)
    with sut("LocalAnomalyScore(cost).fit"):
        sc = LocalAnomalyScore(make_cost(case["cost"], case.get("param"), case.get("extra"))).fit(Xc)
    want, scales = [], []
    for s, a, b, e in cuts:
        parts = evaluate_or_none(fresh, [[s, e], [a, b]])
        pooled = np.concatenate((X[s:a], X[b:e]))
        pc = make_cost(case["cost"], case.get("param"), case.get("extra")).fit(pooled)
        parts += evaluate_or_none(pc, [[0, len(pooled)]])
        if any(x is None for x in parts):
            want.append(None)
            scales.append(0.0)
        else:
            want.append(parts[0] - parts[1] - parts[2])
            scales.append(float(max(np.abs(x).max() for x in parts)))
    got = []
    for i, c in enumerate(cuts):
        try:
            with sut("LocalAnomalyScore.evaluate", allowed=(RuntimeError,)):
                got.append(np.asarray(sc.evaluate(np.asarray([c], dtype=np.int64)))[0])
        except RuntimeError as e:
            if want[i] is None and "positive definite" in str(e):
                got.append(None)
                continue
            raise Violation(f"LocalAnomalyScore raised although the cost scores all parts: {e}", cut=c)
    compare_rows("LocalAnomalyScore(cost)", got, want, cuts, scales)
    if all(w is not None for w in want):
        # the same cuts evaluated once more (as one batch, twice) must give the same values again
        with sut("LocalAnomalyScore(cost): repeated evaluation"):
            first = np.array(sc.evaluate(np.asarray(cuts, dtype=np.int64)), dtype=float)
            again = np.asarray(sc.evaluate(np.asarray(cuts, dtype=np.int64)), dtype=float)
        compare_rows("LocalAnomalyScore(cost) (evaluated again)", list(again), want, cuts, scales)
        compare_rows("LocalAnomalyScore(cost) (first result after a second evaluation)", list(first), want, cuts, scales)
    if all(w is not None for w in want):
        with sut("LocalAnomalyScore.evaluate(batch)"):
            batch = np.asarray(sc.evaluate(np.asarray(cuts, dtype=np.int64)))
        for i in range(len(cuts)):
            if not np.allclose(batch[i], got[i], rtol=1e-12, atol=1e-12 * (1 + scales[i])):
                raise Violation("LocalAnomalyScore row depends on the batch", cut=cuts[i])
    nt = any(w is not None and not np.all(X[c[0]:c[3]] == X[c[0]]) for w, c in zip(want, cuts))
    return {"nontrivial": nt, "classes": [f"cost={case['cost']}", case["container"], "mode=" + ("fixed" if case.get("param") else "optimal")] +
            (["int64_counts"] if case.get("counts_int64") else [])}


# ------------------------------------------------------------------ direct twins


@st.composite
def twin_cases(draw, tier):
    which = draw(st.sampled_from(["cusum", "l2saving"]))
    case = draw(base_case(tier, "change" if which == "cusum" else "saving", costs=["L2Cost"]))
    case["which"] = which
    return case


def check_twin(case):
    from skchange.anomaly_scores import L2Saving, Saving
    from skchange.change_scores import CUSUM, ChangeScore
    from skchange.costs import L2Cost

    X = np.asarray(case["X"], dtype=float)
    n = len(X)
    cuts = np.asarray(case["cuts"], dtype=np.int64)
    Xc = to_container(X, case["container"], case.get("counts_int64", False))
    B = ref.error_bound(n, D.max_abs(case["X"]))
    with sut("twin scorers fit/evaluate"):
        if case["which"] == "cusum":
            a = np.asarray(CUSUM().fit(Xc).evaluate(cuts)) ** 2
            b = np.asarray(ChangeScore(L2Cost()).fit(Xc).evaluate(cuts))
            # definitional value: RSS(s,e) - RSS(s,k) - RSS(k,e)
            d = np.array([ref.l2_cost_direct(X[s:e]) - ref.l2_cost_direct(X[s:k]) - ref.l2_cost_direct(X[k:e])
                          for s, k, e in cuts])
        else:
            a = np.asarray(L2Saving().fit(Xc).evaluate(cuts))
            b = np.asarray(Saving(L2Cost(0.0)).fit(Xc).evaluate(cuts))
            d = np.array([ref.l2_cost_direct(X[s:e], 0.0) - ref.l2_cost_direct(X[s:e]) for s, e in cuts])
    if a.shape != b.shape or a.shape != d.shape:
        raise Violation("twin scorers return different shapes", direct=list(a.shape), from_cost=list(b.shape))
    tol = 4 * B + 1e-9 * (1 + np.abs(d))
    if np.any(np.abs(a - b) > tol):
        i = int(np.argmax(np.abs(a - b).max(axis=1)))
        raise Violation(f"direct score and its cost-based twin disagree ({case['which']})", cut=cuts[i].tolist(),
                        direct=a[i].tolist(), from_cost=b[i].tolist())
    if np.any(np.abs(a - d) > tol):
        i = int(np.argmax(np.abs(a - d).max(axis=1)))
        raise Violation(f"direct score differs from its definition ({case['which']})", cut=cuts[i].tolist(),
                        direct=a[i].tolist(), definition=d[i].tolist())
    nt = any(not np.all(X[c[0]:c[-1]] == X[c[0]]) and (c[0] > 0 or c[-1] < n) for c in cuts)
    return {"nontrivial": nt, "classes": [f"which={case['which']}", case["container"]]}


# ------------------------------------------------------------------ inequalities


@st.composite
def inequality_cases(draw, tier):
    cost = draw(st.sampled_from(["L2Cost", "GaussianVarCost", "GaussianCovCost"]))
    p = draw(st.integers(1, 3 if cost != "GaussianCovCost" else 2))
    ms = cost_min_size(cost, p)
    nmax = 30 if tier == "quick" else 80
    n = D.weighted(draw, [(3, st.integers(2 * ms, 2 * ms + 6)), (5, st.integers(2 * ms, nmax))])
    cuts = [draw(cut3(n, ms)) for _ in range(draw(st.integers(1, 6)))]
    param = draw(c01.fixed_param(cost, p))
    X, _ = draw(D.structured_matrix(n, p, exact=False, min_noise_scale=1e-2))  # bulk data last (see strategies/data.py)
    return {"cost": cost, "X": X, "cuts": cuts, "param": param}


def slice_guard(cost, X, s, e):
    """Smallest variance (or covariance eigenvalue) of the slice relative to scale^2."""
    rows = X[s:e].astype(np.longdouble)
    c = rows - rows.mean(axis=0)
    if cost == "GaussianCovCost":
        cov = (c.T @ c / len(rows)).astype(float)
        return float(np.linalg.eigvalsh(cov).min())
    return float((c ** 2).mean(axis=0).min())


def check_inequalities(case):
    from skchange.anomaly_scores import Saving
    from skchange.change_scores import ChangeScore

    cost = case["cost"]
    X = np.asarray(case["X"], dtype=float)
    n = len(X)
    M = max(D.max_abs(case["X"]), 1e-12)
    B = ref.error_bound(n, max(M, float(np.max(np.abs(np.asarray(case["param"]["mean"], dtype=float))))))
    cuts = np.asarray(case["cuts"], dtype=np.int64)
    classes = [f"cost={cost}"]
    guards = []
    for s, k, e in cuts:
        guards += [slice_guard(cost, X, s, e), slice_guard(cost, X, s, k), slice_guard(cost, X, k, e)]
    vmin = min(guards)
    # "well above the variance floor": relative to the data's magnitude AND to the library's absolute floor of 1e-16
    if cost != "L2Cost" and (vmin < 1e-8 * M * M or vmin < 1e-10):
        return {"nontrivial": False, "classes": classes + ["near_degenerate_skipped"]}
    tol_abs = 8 * B if cost == "L2Cost" else 8 * n * B / vmin
    with sut("scorers fit/evaluate"):
        cs = np.asarray(ChangeScore(make_cost(cost)).fit(X).evaluate(cuts))
        full = cuts[:, [0, 2]]
        sv = np.asarray(Saving(make_cost(cost, case["param"])).fit(X).evaluate(full))
        c_opt = np.asarray(make_cost(cost).fit(X).evaluate(full))
        c_fix = np.asarray(make_cost(cost, case["param"]).fit(X).evaluate(full))
        left = np.asarray(make_cost(cost).fit(X).evaluate(cuts[:, [0, 1]]))
        right = np.asarray(make_cost(cost).fit(X).evaluate(cuts[:, [1, 2]]))
    scale = 1 + max(np.abs(c_opt).max(), np.abs(c_fix).max(), np.abs(left).max(), np.abs(right).max())
    tol = tol_abs + 1e-9 * scale
    if np.any(cs < -tol):
        i = int(np.argmin(cs.min(axis=1)))
        raise Violation("change score is negative beyond rounding", cost=cost, cut=cuts[i].tolist(), value=cs[i].tolist())
    if np.any(sv < -tol):
        i = int(np.argmin(sv.min(axis=1)))
        raise Violation("saving is negative beyond rounding", cost=cost, cut=full[i].tolist(), value=sv[i].tolist(),
                        param=case["param"])
    if np.any(c_opt > c_fix + tol):
        i = int(np.argmax((c_opt - c_fix).max(axis=1)))
        raise Violation("optimal-parameter cost exceeds the cost at a fixed parameter", cost=cost, cut=full[i].tolist(),
                        optimal=c_opt[i].tolist(), fixed=c_fix[i].tolist(), param=case["param"])
    if np.any(left + right > c_opt + tol):
        i = int(np.argmax((left + right - c_opt).max(axis=1)))
        raise Violation("splitting an interval increased the optimal-parameter cost", cost=cost, cut=cuts[i].tolist())
    return {"nontrivial": True, "classes": classes}


# ------------------------------------------------------------------ same buffer, new contents


@st.composite
def refill_cases(draw, tier):
    from checks.c11 import scorer_cases

    container, same_object = draw(st.sampled_from(["ndarray", "DataFrame"])), draw(st.booleans())  # before the bulk data
    case = draw(scorer_cases(tier))
    n, p = len(case["X"]), len(case["X"][0])
    case["X2"] = draw(D.exact_matrix(n, p, dyadic=False)) if case["integral"] else draw(D.generic_matrix(n, p))
    case["container"] = container
    case["same_object"] = same_object
    return case


def check_refill(case):
    """fit(buffer), the caller refills the buffer in place, fit again: the scores must describe the new contents
    (differential against a scorer fitted on a fresh array with the same numbers)."""
    import pandas as pd
    from checks import common as K

    spec = case["scorer"]
    X1, X2 = np.asarray(case["X"], dtype=float), np.asarray(case["X2"], dtype=float)
    cuts = np.asarray(case["cuts"], dtype=np.int64)
    buf = pd.DataFrame(X1.copy()) if case["container"] == "DataFrame" else X1.copy()
    try:
        with sut("scorer fit / refill / fit / evaluate", allowed=(RuntimeError,)):
            want = np.asarray(K.build(spec).fit(X2.copy()).evaluate(cuts))
            s1 = K.build(spec).fit(buf)
            try:
                s1.evaluate(cuts)
            except RuntimeError:
                pass
            if isinstance(buf, pd.DataFrame):
                buf.iloc[:, :] = X2
            else:
                buf[:] = X2
            s2 = (s1 if case["same_object"] else K.build(spec)).fit(buf)
            got = np.asarray(s2.evaluate(cuts))
    except RuntimeError as e:
        if "positive definite" in str(e):
            return {"nontrivial": False, "classes": ["not_pd_error"]}
        raise
    mag = K.score_magnitude(spec, np.vstack([X1, X2]), len(X1))
    if want.shape != got.shape or not np.allclose(want, got, rtol=1e-9, atol=1e-9 * (1 + np.abs(want).max() + mag)):
        raise Violation("after the fitted buffer was refilled in place and fitted again, the scores do not describe its "
                        "current contents", scorer=spec, container=case["container"], same_object=case["same_object"],
                        expected=want.tolist(), got=got.tolist())
    return {"nontrivial": not np.array_equal(X1, X2), "classes": [f"scorer={spec['cls']}", f"container={case['container']}"]}


# ------------------------------------------------------------------ converters


@st.composite
def converter_cases(draw, tier):
    return {"scorer": draw(st.sampled_from(["CUSUM", "ChangeScore", "L2Saving", "Saving", "LocalAnomalyScore",
                                            "L2Cost", "GaussianVarCost", "L1Cost", "fixedL2"])),
            "converter": draw(st.sampled_from(["to_change_score", "to_saving", "to_local_anomaly_score"])),
            "X": draw(D.exact_matrix(draw(st.integers(6, 10)), draw(st.integers(1, 2))))}


def check_converter(case):
    from skchange import anomaly_scores as A
    from skchange import change_scores as C
    from skchange.costs import GaussianVarCost, L2Cost
    from userdefs.scorers import L1Cost

    X = np.asarray(case["X"], dtype=float)
    n = len(X)
    mk = {"CUSUM": C.CUSUM, "ChangeScore": lambda: C.ChangeScore(L2Cost()), "L2Saving": A.L2Saving,
          "Saving": lambda: A.Saving(L2Cost(0.0)), "LocalAnomalyScore": lambda: A.LocalAnomalyScore(L2Cost()),
          "L2Cost": L2Cost, "GaussianVarCost": GaussianVarCost, "L1Cost": L1Cost, "fixedL2": lambda: L2Cost(0.5)}
    obj = mk[case["scorer"]]()
    conv = {"to_change_score": (C.to_change_score, C.BaseChangeScore, C.ChangeScore),
            "to_saving": (A.to_saving, A.BaseSaving, A.Saving),
            "to_local_anomaly_score": (A.to_local_anomaly_score, A.BaseLocalAnomalyScore, A.LocalAnomalyScore)}
    fn, base, wrapper = conv[case["converter"]]
    from skchange.costs import BaseCost

    is_cost = isinstance(obj, BaseCost)
    is_same_kind = isinstance(obj, base)
    try:
        with sut(case["converter"], allowed=(ValueError,)):
            out = fn(obj)
    except ValueError:
        if is_same_kind or (is_cost and not (case["converter"] == "to_saving" and obj.param is None)):
            raise Violation("converter rejected a compatible scorer", scorer=case["scorer"], converter=case["converter"])
        return {"nontrivial": True, "classes": ["rejected_incompatible"]}
    if is_same_kind:
        if out is not obj:
            raise Violation("converter did not pass an existing score through unchanged", scorer=case["scorer"])
        return {"nontrivial": True, "classes": ["passed_through"]}
    if not is_cost:
        raise Violation("converter accepted an incompatible scorer", scorer=case["scorer"], converter=case["converter"])
    if not isinstance(out, wrapper):
        raise Violation("converter did not wrap the cost in the cost-based adapter", got=type(out).__name__)
    # the wrapped object evaluates like the adapter built by hand
    cuts = {"to_change_score": [[0, n // 2, n]], "to_saving": [[1, n]], "to_local_anomaly_score": [[0, 2, n - 2, n]]}
    c = np.asarray(cuts[case["converter"]])
    with sut("converted scorer fit/evaluate"):
        v1 = np.asarray(out.fit(X).evaluate(c))
        v2 = np.asarray(wrapper(mk[case["scorer"]]()).fit(X).evaluate(c))
    if not np.allclose(v1, v2, rtol=1e-12, atol=1e-12):
        raise Violation("converted scorer evaluates differently from the adapter", scorer=case["scorer"])
    return {"nontrivial": True, "classes": ["wrapped_cost"]}


# ------------------------------------------------------------------ very long series


def huge_cells(tier):
    """Series of 3.4 to 8 million samples: interval lengths whose products (n n_left n_right ~ 4e19) leave the int64 range,
    sums over millions of terms. Data = seeded unit noise around a level with one shift (numpy PCG64, seed stored)."""
    cells = [(3_400_000, 1, 0.0), (5_000_000, 1, 100.0), (60_000, 3, 2.0)]  # (the last: intervals > 2^14 rows, columns on different levels)
    if tier != "quick":
        cells += [(8_000_000, 1, 0.0), (4_200_000, 2, -3.0)]
    for i, (n, p, level) in enumerate(cells):
        yield {"n": n, "p": p, "level": level, "seed": 6000 + i}
    # the other axis: several hundred channels (beyond 2^8 / 2^9 / 2^10 columns) on a short series, with a shift in the LAST 40
    # channels only (an implementation that processes columns in blocks and mishandles the last block scores them wrongly)
    for j, (n, p) in enumerate([(60, 300), (48, 257), (40, 520)] + ([(30, 1030), (64, 256), (50, 513)] if tier != "quick" else [])):
        yield {"n": n, "p": p, "level": 0.5, "seed": 6100 + j, "wide": True}


def check_huge(case):
    from skchange.anomaly_scores import L2Saving, LocalAnomalyScore, Saving
    from skchange.change_scores import CUSUM, ChangeScore
    from skchange.costs import L2Cost

    n, p = case["n"], case["p"]
    rng = np.random.Generator(np.random.PCG64(case["seed"]))
    X = rng.standard_normal((n, p)) + case["level"] * (1 + np.arange(p))  # every column on its own level
    X[n // 2:] += 0.01
    if case.get("wide"):
        X[n // 2:, -40:] += 3.0
    # cuts: the whole series and other multi-million intervals, split in the middle, near the ends and at random places
    cuts3 = [[0, n // 2, n], [0, 10, n], [0, n - 10, n], [7, n // 3, n - 5], [n // 10, n // 2 + 1234, n - n // 10],
             [0, min(1_700_000, n // 2), min(3_399_000, n - 1000)], [1000, 2000, 3000]]
    cuts3 += [sorted(int(v) for v in rng.choice(n + 1, size=3, replace=False)) for _ in range(8)]
    cuts3 = [c for c in cuts3 if 0 <= c[0] < c[1] < c[2] <= n]
    cuts3 = np.asarray(cuts3, dtype=np.int64)
    S1 = np.concatenate((np.zeros((1, p), dtype=np.longdouble), np.cumsum(X.astype(np.longdouble), axis=0)))
    S2 = np.concatenate((np.zeros((1, p), dtype=np.longdouble), np.cumsum(X.astype(np.longdouble) ** 2, axis=0)))

    def rss(a, b):  # definitional residual sum of squares from long-double prefix sums
        m = b - a
        return (S2[b] - S2[a]) - (S1[b] - S1[a]) ** 2 / m

    with sut("scorers on a series of several million samples"):
        cus = np.asarray(CUSUM().fit(X).evaluate(cuts3), dtype=float) ** 2
        chg = np.asarray(ChangeScore(L2Cost()).fit(X).evaluate(cuts3), dtype=float)
        cuts2 = cuts3[:, [0, 2]]
        sav = np.asarray(L2Saving().fit(X).evaluate(cuts2), dtype=float)
        sav2 = np.asarray(Saving(L2Cost(0.0)).fit(X).evaluate(cuts2), dtype=float)
        cuts4 = np.asarray([[c[0], c[0] + (c[1] - c[0]) // 2 + 1, c[1], c[2]] for c in cuts3 if c[1] - c[0] >= 4 and c[2] > c[1]],
                           dtype=np.int64)
        loc = np.asarray(LocalAnomalyScore(L2Cost()).fit(X).evaluate(cuts4), dtype=float)
    d_chg = np.array([rss(s, e) - rss(s, k) - rss(k, e) for s, k, e in cuts3], dtype=float)
    d_sav = np.array([(S1[e] - S1[s]) ** 2 / (e - s) for s, e in cuts2], dtype=float)
    # rounding of float64 prefix sums over n terms of magnitude M^2: n eps n M^2 is the worst case, sqrt(n) typical
    M2 = float(np.abs(X).max()) ** 2
    tol = 64 * np.finfo(float).eps * n * M2 * np.sqrt(n)
    for name, got, want in (("CUSUM^2", cus, d_chg), ("ChangeScore(L2Cost)", chg, d_chg), ("L2Saving", sav, d_sav),
                            ("Saving(L2Cost(0))", sav2, d_sav)):
        if got.shape != want.shape or not np.all(np.isfinite(got)) or np.any(np.abs(got - want) > tol):
            i = int(np.argmax(~np.isfinite(got).all(axis=1) | (np.abs(got - want).max(axis=1) > tol))) if got.shape == want.shape else 0
            raise Violation(f"{name} differs from its definition on a very long (or very wide) series", n=n, cut=cuts3[i].tolist(),
                            got=np.asarray(got[i]).tolist(), definition=np.asarray(want[i]).tolist(), tolerance=tol)
    d_loc = np.array([rss(s, e) - rss(a, b) - ((S2[a] - S2[s] + S2[e] - S2[b]) - (S1[a] - S1[s] + S1[e] - S1[b]) ** 2 / ((a - s) + (e - b)))
                      for s, a, b, e in cuts4], dtype=float)
    if not np.all(np.isfinite(loc)) or np.any(np.abs(loc - d_loc) > tol):
        raise Violation("LocalAnomalyScore(L2Cost) differs from its definition on a very long (or very wide) series", n=n, tolerance=tol)
    return {"nontrivial": True, "classes": [f"n>={n // 1_000_000}e6", f"p={p}"] + (["wide"] if case.get("wide") else [])}


def wide_fixed_cells(tier):
    """Savings and cost inequalities for a covariance cost with a *fixed* covariance on 32..128 channels in millivolt / kilo units
    (determinants far outside the float range, every matrix perfectly conditioned). Seeded data."""
    for i, (p_, unit) in enumerate([(64, 1e-3), (32, 1e-3), (100, 40.0), (128, 0.01)] + ([(160, 1e-3), (64, 1e3)] if tier != "quick" else [])):
        yield {"p": p_, "unit": unit, "seed": 33000 + i}


def check_wide_fixed(case):
    from skchange.anomaly_scores import Saving
    from skchange.costs import GaussianCovCost

    p_, unit = case["p"], case["unit"]
    n = 4 * p_
    rng = np.random.Generator(np.random.PCG64(case["seed"]))
    X = rng.standard_normal((n, p_)) * unit
    X[n // 2:] += 0.5 * unit
    cuts = np.array([[0, n], [0, 2 * p_ + 3], [n - 2 * p_ - 5, n]])
    with sut("GaussianCovCost with a fixed covariance on wide data"):
        fixed = np.asarray(GaussianCovCost(param=(0.0, unit * unit)).fit(X).evaluate(cuts), dtype=float)
        opt = np.asarray(GaussianCovCost().fit(X).evaluate(cuts), dtype=float)
        sav = np.asarray(Saving(GaussianCovCost(param=(0.0, unit * unit))).fit(X).evaluate(cuts), dtype=float)
    if not (np.all(np.isfinite(fixed)) and np.all(np.isfinite(opt)) and np.all(np.isfinite(sav))):
        raise Violation("a cost or saving on well-conditioned wide data is not finite", p=p_, unit=unit, fixed=fixed.ravel().tolist(),
                        saving=sav.ravel().tolist())
    tol = 1e-9 * (1 + np.abs(fixed) + np.abs(opt))
    if np.any(np.abs(sav - (fixed - opt)) > tol):
        raise Violation("Saving(cost_theta) differs from C_theta - C_opt on wide data", p=p_, unit=unit)
    if np.any(sav < -tol) or np.any(opt > fixed + tol):
        raise Violation("the optimal-parameter cost exceeds the cost at a fixed parameter (negative saving) on wide data", p=p_, unit=unit,
                        saving=sav.ravel().tolist())
    # the fixed-parameter cost against its definition: n p log(2 pi v) + sum x^2 / v for covariance v I, mean 0
    v = unit * unit
    want = np.array([(e - s) * p_ * np.log(2 * np.pi * v) + float((X[s:e] ** 2).sum()) / v for s, e in cuts])
    if np.any(np.abs(fixed.ravel() - want) > 1e-9 * (1 + np.abs(want))):
        raise Violation("fixed-covariance cost differs from its definition on wide data", p=p_, unit=unit, got=fixed.ravel().tolist(),
                        expected=want.tolist())
    return {"nontrivial": True, "classes": [f"p={p_}", f"unit={unit:g}"]}


FACETS = [
    Facet(name="change_score_identity", check=check_change, strategy=change_cases,
          rule=("ChangeScore(cost) for L2/GaussianVar/GaussianCov/user L1Cost (optimal and fixed parameter), admissible "
                "3-point cuts, ndarray or DataFrame input; compared with C(s,e)-C(s,k)-C(k,e) from a fresh cost; "
                "non-trivial = proper sub-interval with non-constant rows"),
          n_quick=800, n_thorough=12000, shards_quick=8),
    Facet(name="saving_identity", check=check_saving, strategy=saving_cases,
          rule=("Saving(cost_theta) for the four costs with generated fixed parameters; compared with C_theta - C_opt; "
                "non-trivial as above"),
          n_quick=800, n_thorough=12000, shards_quick=8),
    Facet(name="local_anomaly_score_identity", check=check_local, strategy=local_cases,
          rule=("LocalAnomalyScore(cost), admissible 4-point cuts; compared with C(s,e)-C(a,b)-C(pooled surroundings) where "
                "the pooled cost comes from a fresh instance fitted on the concatenated rows; non-trivial = non-constant rows"),
          n_quick=600, n_thorough=8000, shards_quick=8),
    Facet(name="direct_twins", check=check_twin, strategy=twin_cases,
          rule=("CUSUM^2 vs ChangeScore(L2Cost) and L2Saving vs Saving(L2Cost(0)) and both vs the definitional RSS "
                "differences in long double (tolerance 4B); non-trivial = proper sub-interval, non-constant rows"),
          n_quick=800, n_thorough=12000, shards_quick=8),
    Facet(name="inequalities", check=check_inequalities, strategy=inequality_cases,
          rule=("structured float data with noise scale >= 1e-2: change score >= 0, saving >= 0, C_opt <= C_theta, "
                "C(s,e) >= C(s,k)+C(k,e) up to the error model; non-trivial = not skipped as near-degenerate"),
          n_quick=800, n_thorough=12000, shards_quick=8),
    Facet(name="refilled_buffer", check=check_refill, strategy=refill_cases,
          rule=("15 scorer configurations (costs, change scores, savings, local anomaly scores): fit on a buffer, the caller "
                "overwrites it in place, fit again with the same or a new scorer object, evaluate; compared with a scorer fitted "
                "on a fresh array holding the new numbers; non-trivial = the contents changed"),
          n_quick=400, n_thorough=6000, shards_quick=4),
    Facet(name="converters", check=check_converter, strategy=converter_cases,
          rule=("to_change_score / to_saving / to_local_anomaly_score applied to every scorer kind: same kind is passed "
                "through (identity), costs are wrapped and evaluate like the adapter, everything else raises ValueError"),
          n_quick=150, n_thorough=1000, shards_quick=2, shards_thorough=4),
    Facet(name="wide_fixed_covariance", kind="enumerate", enumerate=wide_fixed_cells, check=check_wide_fixed, exhaustive=True, time_limit=300,
          rule=("GaussianCovCost with a fixed scalar covariance on 32-128 channels (thorough: 160) in units 1e-3 / 0.01 / 40 (n = 4p, seeded): finite values, "
                "Saving == C_theta - C_opt >= 0, C_theta equal to its closed form; every cell non-trivial"),
          shards_quick=4, shards_thorough=6, max_samples=1),
    Facet(name="huge_series", kind="enumerate", enumerate=huge_cells, check=check_huge, exhaustive=True, time_limit=600,
          rule=("series of 3.4 and 5 million samples (thorough: up to 8 million, p up to 2; seeded noise around levels 0 / 100 with one small "
                "shift): CUSUM^2, ChangeScore(L2Cost), L2Saving, Saving(L2Cost(0)) and LocalAnomalyScore(L2Cost) on multi-million-sample "
                "intervals (products of the three lengths beyond the int64 range) against long-double definitional values; and the other axis: 257 / 300 / 520 "
                "channels (thorough: up to 1030) on 30-64 samples with a shift in the last 40 channels only; every cell non-trivial"),
          shards_quick=3, shards_thorough=6, max_samples=1),
]

"""C04 - detections are well-formed and respect the configured length limits."""

import numpy as np
from hypothesis import strategies as st

from checks import common as K
from framework.core import Facet, Violation, sut
from strategies import data as D

PROPERTY_ID = "C04"
TECHNIQUE = "Hypothesis-generated detectors x hyper-parameters x data; validity predicate over the sparse output written from the property text"
ASSUMPTIONS = [
    "hyper-parameters are generated inside the documented domains only; data are finite and of admissible length",
    "the predicate is asserted whatever the sign of the fitted threshold_ (a tuned threshold is negative when the scores of quiet stretches are rounding noise, D30 / D35)",
    "the documented not-positive-definite RuntimeError is an accepted outcome for multivariate Gaussian scorers",
]


@st.composite
def cases(draw, tier, det):
    p = 1 if det == "StatThresholdAnomaliser" else draw(st.integers(1, 4))
    params, n_min = draw(K.detector_params(det, p))
    nmax = 40 if tier == "quick" else 90
    if det == "CircularBinarySegmentation":
        nmax = 24 if tier == "quick" else 40
    n = D.weighted(draw, [(2, st.just(n_min)), (2, st.integers(n_min, n_min + 3)),
                          (6, st.integers(n_min, max(n_min, nmax)))])
    bw = params.get("bandwidth", params.get("min_segment_length", 1))
    kind = draw(st.sampled_from(["structured", "structured", "structured", "any"]))
    # structural choices first, bulk data last (see strategies/data.py)
    case = {"detector": det, "params": params, "X": None,
            "container": draw(st.sampled_from(["ndarray", "DataFrame", "DataFrame"])),
            "index": draw(D.index_spec(D.INDEX_KINDS + D.REPEAT_INDEX_KINDS)), "columns": draw(st.sampled_from(D.COLUMN_KINDS)),
            # afterwards, on the same fitted detector: predict on a shorter series - either a new object, or the caller's
            # own frame shortened in place - or on the same buffer refilled with other values
            # ... or on a longer recording: the series, two copies of it on a far higher level, the series again (an event
            # twice as long as the training series, i.e. longer than any admissible maximum length close to n)
            "second": draw(st.sampled_from([None, "shrink_inplace", "predict_shorter", "refill", None, "predict_longer"])),
            "n2_pick": draw(st.integers(0, 1000)), "drop": draw(st.sampled_from(["tail", "head"]))}
    # CAPA / MVCAPA: a maximum length right at the length of the series (n - 1, n, n + 1), and data far from the zero baseline
    # (a whole-series anomaly is then optimal)
    if det == "MovingWindow" and params["threshold_scale"] is not None and draw(st.integers(0, 4)) == 0:
        # a significance level close to 1 (accepted: the documented domain is level > 0): for n close to 2 * bandwidth the
        # default threshold is then negative (D30)
        params["level"] = draw(st.sampled_from([0.999, 0.9999, 0.99999, 0.995, 1e-17, 1e-300]))  # (and levels below 2^-53: infinite threshold)
    if det in ("SeededBinarySegmentation", "CircularBinarySegmentation") and draw(st.integers(0, 3)) == 0:
        # a tuned threshold at a generous level on readings far from zero (1e6 + noise of 1e-3): the scores of quiet stretches are
        # rounding noise of either sign and the tuned quantile comes out negative - not a rounding artefact of 1e-18 but -1e-3 (D35)
        params["threshold_scale"] = None
        params["level"] = draw(st.sampled_from([0.5, 0.9, 0.99, 0.7]))
        case["level"] = draw(st.sampled_from([1e6, 3e4, 1e6, 0.0]))
        case["unit"] = draw(st.sampled_from([1e-3, 1.0, 1e-3]))
        if det == "CircularBinarySegmentation" and draw(st.booleans()) and K.scorer_min_size(params.get("anomaly_score"), p) <= 1:
            # min_segment_length 1: the candidates of length 2 cannot hold an anomaly strictly inside them
            params["min_segment_length"] = 1
            n_min = 2
    if det in ("CAPA", "MVCAPA"):
        at_n = draw(st.sampled_from([None, None, None, -1, 0, 1]))
        if at_n is not None and n + at_n >= params["min_segment_length"]:
            params["max_segment_length"] = n + at_n
        case["level"] = draw(st.sampled_from([0.0, 0.0, 0.0, 5.0, -40.0]))
    if case["second"] == "shrink_inplace":
        case["container"] = "DataFrame"
        if case["index"]["kind"] in D.REPEAT_INDEX_KINDS:  # rows are dropped by label: labels must be unique
            case["index"] = {"kind": "datetime_h", "start": case["index"]["start"]}
    if kind == "any":
        case["X"] = draw(D.any_matrix(n, p))
    else:
        case["X"], _ = draw(D.structured_matrix(n, p, boundary_positions=(0, 1, bw - 1, bw, n - bw, n - 1)))
    if case.get("level") or case.get("unit"):
        case["X"] = [[v * case.get("unit", 1.0) + case.get("level", 0.0) for v in row] for row in case["X"]]
    if case["second"] == "refill":
        case["X2"] = draw(D.any_matrix(n, p))
    case["n_min"] = n_min
    return case


def to_container(case, X):
    import pandas as pd

    if case.get("container", "ndarray") == "ndarray":
        return np.array(X, dtype=float)
    cols = D.column_labels(case["columns"], X.shape[1])
    return pd.DataFrame(np.array(X, dtype=float), index=D.build_index(case["index"], len(X)),
                        columns=pd.RangeIndex(X.shape[1]) if case["columns"] == "default" else cols)


def run_detector(case):
    """fit + predict (+ a second predict on the same detector). Returns (detector, y, outcome, (y2, n2) or None)."""
    det = K.build(K.detector_spec(case["detector"], case["params"]))
    X = np.asarray(case["X"], dtype=float)
    n = len(X)
    obj = to_container(case, X)
    second = case.get("second")
    n_min = case.get("n_min", n)
    n2 = n_min + case.get("n2_pick", 0) % (n - n_min) if n > n_min else None
    later = None
    try:
        with sut(f"{case['detector']}.fit/predict", allowed=(RuntimeError,)):
            det.fit(obj)
            y = det.predict(obj)
            if second == "refill":
                X2 = np.asarray(case["X2"], dtype=float)
                if isinstance(obj, np.ndarray):
                    obj[:] = X2
                else:
                    obj.iloc[:, :] = X2
                later = (det.predict(obj), n)
            elif second == "predict_longer":
                lift = 10.0 * (1.0 + float(np.abs(X).max()))
                longer = np.vstack([X, X + lift, X[::-1] + lift, X])
                later = (det.predict(to_container(case, longer)), 4 * n)
            elif second == "predict_shorter" and n2 is not None:
                part = X[:n2] if case["drop"] == "tail" else X[n - n2:]
                later = (det.predict(to_container(case, part)), n2)
            elif second == "shrink_inplace" and n2 is not None and not isinstance(obj, np.ndarray) and obj.index.is_unique:
                rows = np.arange(n2, n) if case["drop"] == "tail" else np.arange(0, n - n2)
                obj.drop(index=obj.index[rows], inplace=True)  # the caller shortens their own frame
                later = (det.predict(obj), n2)
    except RuntimeError as e:
        if "positive definite" in str(e):
            return det, None, "not_pd", None
        raise Violation(f"unexpected RuntimeError: {e}")
    return det, y, "ok", later


def check(case):
    name, params = case["detector"], case["params"]
    X = np.asarray(case["X"], dtype=float)
    n, p = X.shape
    det, y, outcome, later = run_detector(case)
    classes = []
    if outcome == "not_pd":
        scorer_specs = [v for v in params.values() if isinstance(v, dict) and "cls" in v]
        if name == "StatThresholdAnomaliser":
            scorer_specs = [v for v in params["change_detector"].values() if isinstance(v, dict) and "cls" in v]
        if not any(K.is_multivariate_scorer(s) for s in scorer_specs):
            raise Violation("not-positive-definite error raised without a multivariate Gaussian scorer")
        return {"nontrivial": False, "classes": ["not_pd_error_accepted"]}
    thr = getattr(det, "threshold_", None)
    if name == "StatThresholdAnomaliser":
        thr = getattr(det.change_detector_, "threshold_", None)
    if thr is not None and thr < 0:
        classes.append("negative_threshold")
    info = K.check_wellformed(name, params, n, p, y)
    ev = info["events"]
    if later is not None:
        try:
            K.check_wellformed(name, params, later[1], p, later[0])
        except Violation as v:
            raise Violation(f"second predict on the same detector ({case['second']}, n = {later[1]}): {v.message}", **v.details)
        classes.append(f"second={case['second']}")
    if case.get("container") == "DataFrame":
        classes.append(f"index={case['index']['kind']}")
    if ev:
        classes.append("has_detection")
    if n == (2 * params.get("bandwidth", 0) or 0) or n == 2 * params.get("min_segment_length", -1) or \
            (name in ("CAPA", "MVCAPA") and n == params["min_segment_length"]):
        classes.append("n_at_minimum")
    if ev and isinstance(ev[0], tuple):
        if any(b - a == 1 for a, b in ev):
            classes.append("point_anomaly")
        if any(e1[1] == e2[0] for e1, e2 in zip(ev[:-1], ev[1:])):
            classes.append("adjacent_events")
        if ev[0][0] == 0 or ev[-1][1] == n:
            classes.append("touches_end")
    elif ev:
        lim = params.get("bandwidth", params.get("min_segment_length", 1))
        if ev[0] == lim or ev[-1] == n - lim:
            classes.append("first_or_last_admissible_position")
    if params.get("threshold_scale", 0) is None:
        classes.append("tuned_threshold")
    return {"nontrivial": bool(ev), "classes": classes}


def default_cells(tier):
    """Every detector with its DEFAULT hyper-parameters (optionally one changed) on realistic series of 100-400 samples
    (strategies.data.realistic_series; deterministic function of the stored seed), as array or as a frame with a time index."""
    variants = {
        "PELT": [{}, {"min_segment_length": 10}], "MovingWindow": [{}, {"threshold_scale": None}, {"min_detection_interval": 10}],
        "SeededBinarySegmentation": [{}, {"threshold_scale": None, "level": 0.01}], "CAPA": [{}, {"max_segment_length": 30}],
        "MVCAPA": [{}, {"max_segment_length": 30}, {"collective_penalty": "sparse"}],
        "CircularBinarySegmentation": [{"max_interval_length": 100}, {"max_interval_length": 100, "threshold_scale": None, "level": 0.01}],
        "StatThresholdAnomaliser": [{"change_detector": {"cls": "PELT"}}, {"change_detector": {"cls": "MovingWindow"}, "stat_lower": -0.5, "stat_upper": 0.5}],
    }
    # candidate intervals of more than 256 samples (implementations that search coarse-to-fine only beyond some size): seeded and
    # circular binary segmentation with max_interval_length >= n on 300-460 samples with bursts shorter than min_segment_length and
    # events in the first / last samples
    for i, seed in enumerate((25004, 25006, 25012, 25014, 25020, 25022) if tier == "quick" else tuple(25004 + 2 * j for j in range(24))):
        yield {"detector": "SeededBinarySegmentation", "params": {"max_interval_length": 1000}, "seed": seed, "n": 300 + 40 * (i % 5), "p": 1 + i % 2,
               "frame": False, "kind": ("ends_strong", "burst_short", None)[i % 3]}
        if i < (2 if tier == "quick" else 8):
            yield {"detector": "CircularBinarySegmentation", "params": {}, "seed": seed, "n": 290 + 10 * i, "p": 1, "frame": False,
                   "kind": ("burst_short", "ends_strong")[i % 2]}
    # a day of 1 Hz data with a start-up transient (groups of hundreds of thousands of (candidate, split) pairs per call: implementations
    # that batch beyond some size)
    for i, n in enumerate((100_000,) if tier == "quick" else (100_000, 93_000, 131_072)):
        yield {"detector": "SeededBinarySegmentation", "params": {}, "seed": 25101 + i, "n": n, "p": 1, "frame": False, "kind": "ends_strong"}
    # tens of thousands of detections on one series (segment counters in narrow integer types): a square wave of period 4 segmented
    # by a bandwidth-1 moving window inside StatThresholdAnomaliser - every pair of samples its own flagged segment (n / 2 segments)
    for n in ((70_000,) if tier == "quick" else (70_000, 33_000, 140_000)):
        yield {"detector": "StatThresholdAnomaliser", "seed": 25200, "n": n, "p": 1, "frame": False, "kind": "square_wave",
               "params": {"change_detector": {"cls": "MovingWindow", "bandwidth": 1, "threshold_scale": 0.1}, "stat_lower": -0.5, "stat_upper": 0.5}}
    # readings far from zero with tiny noise (1e6 + 1e-3 N(0,1)) and a tuned threshold at a generous level: the scores of quiet
    # stretches are rounding noise of either sign, the tuned quantile is negative (D35)
    for i, (lv, n, mil) in enumerate((lv, n, mil) for lv in (0.5, 0.9, 0.99) for n in (19, 30) for mil in (4, 10)):
        for det in ("CircularBinarySegmentation", "SeededBinarySegmentation"):
            yield {"detector": det, "seed": 25300 + i, "n": n, "p": 1, "frame": i % 2 == 1, "kind": "offset_noise",
                   "params": {"min_segment_length": 1, "threshold_scale": None, "level": lv, "max_interval_length": mil}}
    for det, vs in variants.items():
        for seed in range(8 if tier == "quick" else 32):
            for v in vs:
                n = (100, 150, 230, 400)[seed % 4] + seed
                yield {"detector": det, "params": v, "seed": 25000 + seed, "n": min(n, 160) if det == "CircularBinarySegmentation" else n,
                       "p": 1 if det == "StatThresholdAnomaliser" else 1 + seed % 3, "frame": seed % 2 == 1}


def check_default(case):
    import pandas as pd

    if case.get("kind") == "square_wave":
        rng = np.random.Generator(np.random.PCG64(case["seed"]))
        X, kind = (np.where(np.arange(case["n"]) % 4 < 2, 1.0, -1.0) + 0.01 * rng.standard_normal(case["n"])).reshape(-1, 1), "square_wave"
    elif case.get("kind") == "offset_noise":
        X, kind = 1e6 + 1e-3 * np.random.Generator(np.random.PCG64(case["seed"])).standard_normal((case["n"], case["p"])), "offset_noise"
    else:
        X, kind = D.realistic_series(case["seed"], case["n"], case["p"], case.get("kind"))
    if case["detector"] in ("CAPA", "MVCAPA"):
        X = X - np.median(X, axis=0)
    full = K.build(K.detector_spec(case["detector"], case["params"])).get_params(deep=False)
    params = {k: v for k, v in full.items() if isinstance(v, (int, float, str, bool)) or v is None}
    sub = {"detector": case["detector"], "params": dict(params, **case["params"]), "X": X, "container": "DataFrame" if case["frame"] else "ndarray",
           "index": {"kind": "datetime_h", "start": "2024-02-28"}, "columns": "strings", "second": None}
    info = check(sub)
    info["classes"] = list(info.get("classes", [])) + [f"data={kind}", f"det={case['detector']}"]
    return info


def make_facet(det, nq, nt):
    return Facet(
        name=det, check=check, strategy=lambda tier, d=det: cases(tier, d),
        rule=(f"{det}: hyper-parameters over the documented domain (boundary values included), scorers admissible for the "
              "setting, data = structured signals (shifts/spikes/bumps at the first/last admissible positions), exact / "
              "generic / constant families, n from the documented minimum; input as ndarray or DataFrame (9 index kinds incl. repeated time "
              "stamps, 8 column-label kinds); optionally a second predict on the same fitted detector (frame shortened in place, shorter new "
              "object, buffer refilled in place), held to the same predicate; non-trivial = at least one detection"),
        n_quick=nq, n_thorough=nt, shards_quick=4, shards_thorough=8)


FACETS = [
    make_facet("PELT", 320, 5000),
    make_facet("MovingWindow", 320, 5000),
    make_facet("SeededBinarySegmentation", 320, 5000),
    make_facet("CAPA", 320, 5000),
    make_facet("MVCAPA", 320, 5000),
    make_facet("CircularBinarySegmentation", 200, 2500),
    make_facet("StatThresholdAnomaliser", 320, 5000),
    Facet(name="default_settings", kind="enumerate", enumerate=default_cells, check=check_default, exhaustive=True, time_limit=300,
          rule=("all seven detectors with their default hyper-parameters (1-2 variants each) on realistic series of 100-430 samples, p 1..3 (shifts + "
                "seasonal / trend / rounded / bursts / plateau / end events / variance change; seeded), as array or as frame with an hourly index; same "
                "well-formedness predicate; 128 cells (thorough: 512), non-trivial = at least one detection"),
          shards_quick=16, shards_thorough=16, max_samples=1),
]

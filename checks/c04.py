"""C04 - detections are well-formed and respect the configured length limits."""

import numpy as np
from hypothesis import strategies as st

from checks import common as K
from framework.core import Facet, Violation, sut
from strategies import data as D

PROPERTY_ID = "C04"
TECHNIQUE = "Hypothesis-generated detectors x hyper-parameters x data; validity predicate over the sparse output written from the property text"
ASSUMPTIONS = [
    "hyper-parameters are generated inside the documented domains only; data are finite and of admissible length",
    "threshold detectors: the predicate is asserted only when the fitted threshold_ is >= 0 (a tuned threshold can be rounded below 0 on exactly constant data; C07-C09 define detections for thresholds >= 0)",
    "the documented not-positive-definite RuntimeError is an accepted outcome for multivariate Gaussian scorers",
]


@st.composite
def cases(draw, tier, det):
    p = 1 if det == "StatThresholdAnomaliser" else draw(st.integers(1, 4))
    params, n_min = draw(K.detector_params(det, p))
    nmax = 40 if tier == "quick" else 90
    if det == "CircularBinarySegmentation":
        nmax = 24 if tier == "quick" else 40
    n = D.weighted(draw, [(2, st.just(n_min)), (2, st.integers(n_min, n_min + 3)),
                          (6, st.integers(n_min, max(n_min, nmax)))])
    bw = params.get("bandwidth", params.get("min_segment_length", 1))
    kind = draw(st.sampled_from(["structured", "structured", "structured", "any"]))
    if kind == "any":
        X = draw(D.any_matrix(n, p))
    else:
        X, _ = draw(D.structured_matrix(n, p, boundary_positions=(0, 1, bw - 1, bw, n - bw, n - 1)))
    return {"detector": det, "params": params, "X": X}


def run_detector(case):
    """fit + predict. Returns (detector, y, outcome)."""
    det = K.build(K.detector_spec(case["detector"], case["params"]))
    X = np.asarray(case["X"], dtype=float)
    try:
        with sut(f"{case['detector']}.fit/predict", allowed=(RuntimeError,)):
            det.fit(X)
            y = det.predict(X)
    except RuntimeError as e:
        if "positive definite" in str(e):
            return det, None, "not_pd"
        raise Violation(f"unexpected RuntimeError: {e}")
    return det, y, "ok"


def check(case):
    name, params = case["detector"], case["params"]
    X = np.asarray(case["X"], dtype=float)
    n, p = X.shape
    det, y, outcome = run_detector(case)
    classes = []
    if outcome == "not_pd":
        scorer_specs = [v for v in params.values() if isinstance(v, dict) and "cls" in v]
        if name == "StatThresholdAnomaliser":
            scorer_specs = [v for v in params["change_detector"].values() if isinstance(v, dict) and "cls" in v]
        if not any(K.is_multivariate_scorer(s) for s in scorer_specs):
            raise Violation("not-positive-definite error raised without a multivariate Gaussian scorer")
        return {"nontrivial": False, "classes": ["not_pd_error_accepted"]}
    thr = getattr(det, "threshold_", None)
    if name == "StatThresholdAnomaliser":
        thr = getattr(det.change_detector_, "threshold_", None)
    if thr is not None and thr < 0:
        return {"nontrivial": False, "classes": ["negative_tuned_threshold_excluded"]}
    info = K.check_wellformed(name, params, n, p, y)
    ev = info["events"]
    if ev:
        classes.append("has_detection")
    if n == (2 * params.get("bandwidth", 0) or 0) or n == 2 * params.get("min_segment_length", -1) or \
            (name in ("CAPA", "MVCAPA") and n == params["min_segment_length"]):
        classes.append("n_at_minimum")
    if ev and isinstance(ev[0], tuple):
        if any(b - a == 1 for a, b in ev):
            classes.append("point_anomaly")
        if any(e1[1] == e2[0] for e1, e2 in zip(ev[:-1], ev[1:])):
            classes.append("adjacent_events")
        if ev[0][0] == 0 or ev[-1][1] == n:
            classes.append("touches_end")
    elif ev:
        lim = params.get("bandwidth", params.get("min_segment_length", 1))
        if ev[0] == lim or ev[-1] == n - lim:
            classes.append("first_or_last_admissible_position")
    if params.get("threshold_scale", 0) is None:
        classes.append("tuned_threshold")
    return {"nontrivial": bool(ev), "classes": classes}


def make_facet(det, nq, nt):
    return Facet(
        name=det, check=check, strategy=lambda tier, d=det: cases(tier, d),
        rule=(f"{det}: hyper-parameters over the documented domain (boundary values included), scorers admissible for the "
              "setting, data = structured signals (shifts/spikes/bumps at the first/last admissible positions), exact / "
              "generic / constant families, n from the documented minimum; non-trivial = at least one detection"),
        n_quick=nq, n_thorough=nt, shards_quick=4, shards_thorough=8)


FACETS = [
    make_facet("PELT", 320, 5000),
    make_facet("MovingWindow", 320, 5000),
    make_facet("SeededBinarySegmentation", 320, 5000),
    make_facet("CAPA", 320, 5000),
    make_facet("MVCAPA", 320, 5000),
    make_facet("CircularBinarySegmentation", 200, 2500),
    make_facet("StatThresholdAnomaliser", 320, 5000),
]

"""C10 - results depend only on hyper-parameters, training data and the input (histories)."""

import copy

import numpy as np
from hypothesis import strategies as st
from hypothesis.stateful import RuleBasedStateMachine, initialize, precondition, rule

from checks import common as K
from checks.c11 import sparse_signature
from framework.core import Facet, Violation, run_case, sut
from strategies import data as D

PROPERTY_ID = "C10"
TECHNIQUE = "Hypothesis rule-based state machine over construct / clone / set_params / fit / update / predict / transform / transform_scores / evaluate with shared scorer instances; model-based differential oracle against a freshly built object fitted on the model's training data; invariants on hyper-parameters and caller data"
ASSUMPTIONS = [
    "shared scorer instances are shared between detectors only (the property names sharing one cost object between several detectors)",
    "set_params updates are generated so that the resulting configuration is valid (checked by a trial construction); set_params resets the fitted state (sktime semantics), which the model mirrors",
    "update uses pandas data whose index continues the training index, repeats its last 1-2 labels (the new rows win) or - a late chunk - lies before / between the rows seen so far; the reference is fit on one row per label (latest delivery wins) in label order",
    "outputs are compared at 1e-12 relative; exceptions must have the same class in the real and in the history-free execution",
    "the history-free execution receives the very same data objects as the real one (not copies): a deep copy can change the memory layout, hence the summation order and the last bits, hence the tie-breaking on exactly tied scores; mutation of the caller's data is detected by the pristine-copy invariant instead",
    "objects whose re-fit (or update) raised are retired from the comparison - detectors and stand-alone scorers alike: what they return afterwards is not defined by the property",
    "change / local-anomaly detectors whose cost has a fixed parameter have identically zero scores (additive cost): their detections are rounding noise, so only threshold and scores are compared (1e-9 x scale)",
]

N_DET_SLOTS = 4
N_SCORER_SLOTS = 3
N_SHARED = 2

SHARED_COSTS = [{"cls": "L2Cost"}, {"cls": "GaussianVarCost"}, {"cls": "L2Cost", "param": 0.0}, {"cls": "L1Cost"},
                {"cls": "L1Cost", "scale": 2.5},
                # min_size of this one depends on the data it was last fitted on (p + 1)
                {"cls": "GaussianCovCost"}, {"cls": "GaussianCovCost", "param": {"tuple": [0.0, 1.0]}},
                {"cls": "GaussianVarCost", "param": {"tuple": [0.0, 1.0]}}]
SCORER_SPECS = [{"cls": "L2Cost"}, {"cls": "L2Cost", "param": 0.5}, {"cls": "GaussianVarCost"}, {"cls": "CUSUM"},
                {"cls": "ChangeScore", "cost": {"cls": "L2Cost"}}, {"cls": "ChangeScore", "cost": {"cls": "GaussianVarCost"}},
                {"cls": "L2Saving"}, {"cls": "Saving", "baseline_cost": {"cls": "L2Cost", "param": 0.0}},
                {"cls": "LocalAnomalyScore", "cost": {"cls": "L2Cost"}},
                {"cls": "LocalAnomalyScore", "cost": {"cls": "GaussianVarCost"}},
                {"cls": "GaussianCovCost"}, {"cls": "ChangeScore", "cost": {"cls": "GaussianCovCost"}},
                {"cls": "Saving", "baseline_cost": {"cls": "GaussianCovCost", "param": {"tuple": [0.0, 1.0]}}},
                {"cls": "LocalAnomalyScore", "cost": {"cls": "GaussianCovCost"}},
                # fixed parameters given as arrays (the caller's own objects): a nearly singular but valid covariance
                # (two redundant sensors), per-column means / variances
                {"cls": "GaussianCovCost", "param": {"tuple": [{"array": [0.0, 0.0]}, {"array": [[1.0, 1.0 - 1e-13], [1.0 - 1e-13, 1.0]]}]}},
                {"cls": "Saving", "baseline_cost": {"cls": "GaussianCovCost", "param": {"tuple": [{"array": [0.5, -0.5]}, {"array": [[2.0, 2.0], [2.0, 2.0 + 4e-12]]}]}}},
                {"cls": "GaussianVarCost", "param": {"tuple": [{"array": [0.0, 1.0]}, {"array": [1.0, 1e-9]}]}},
                {"cls": "L2Cost", "param": {"array": [0.5, -1.5, 2.0]}},
                # a user-defined cost with a hyper-parameter of its own (`scale`) inside the three wrappers: nested set_params must
                # reach every private copy a wrapper keeps (D22 LocalAnomalyScore, D32 Saving)
                {"cls": "Saving", "baseline_cost": {"cls": "L1Cost", "param": 0.5, "scale": 2.0}},
                {"cls": "LocalAnomalyScore", "cost": {"cls": "L1Cost", "scale": 2.0}},
                {"cls": "ChangeScore", "cost": {"cls": "L1Cost", "scale": 2.0}}]
SHARE_KEY = {"PELT": "cost", "MovingWindow": "change_score", "SeededBinarySegmentation": "change_score",
             "CircularBinarySegmentation": "anomaly_score", "CAPA": "collective_saving", "MVCAPA": "collective_saving",
             "StatThresholdAnomaliser": "change_detector"}  # (the object an anomaliser shares is a detector: facet shared_wrapped_detector only)


def describe(obj):
    """Hyper-parameters of an object as a nested plain value (for deep comparison)."""
    from skbase.base import BaseObject

    if isinstance(obj, BaseObject):
        return {"cls": type(obj).__name__, **{k: describe(v) for k, v in sorted(obj.get_params(deep=False).items())}}
    if isinstance(obj, np.ndarray):
        return {"array": obj.tolist(), "dtype": str(obj.dtype)}
    if isinstance(obj, tuple):
        return {"tuple": [describe(v) for v in obj]}
    if isinstance(obj, list):
        return [describe(v) for v in obj]
    if isinstance(obj, dict):
        return {k: describe(v) for k, v in obj.items()}
    if callable(obj):
        return {"callable": getattr(obj, "__name__", repr(obj))}
    if isinstance(obj, (np.integer,)):
        return int(obj)
    if isinstance(obj, (np.floating,)):
        return float(obj)
    return obj


def outcome_of(fn):
    """Run fn; return ('ok', value) or ('error', exception class name)."""
    try:
        return "ok", fn()
    except Exception as e:  # noqa: BLE001 - the class of the exception is the observed outcome
        return "error", type(e).__name__


def frames_equal(a, b):
    import pandas as pd

    if isinstance(a, dict) or isinstance(b, dict):
        return a == b
    if isinstance(a, (pd.DataFrame, pd.Series)):
        if not isinstance(b, type(a)) or a.shape != b.shape or not a.index.equals(b.index):
            return False
        av, bv = np.asarray(a, dtype=float), np.asarray(b, dtype=float)
        return bool(np.allclose(av, bv, rtol=1e-12, atol=1e-12 * (1 + np.abs(av).max() if av.size else 1), equal_nan=True))
    av, bv = np.asarray(a, dtype=float), np.asarray(b, dtype=float)
    return av.shape == bv.shape and bool(np.allclose(av, bv, rtol=1e-12, atol=1e-12 * (1 + (np.abs(av).max() if av.size else 0)), equal_nan=True))


class Interpreter:
    """Executes an op list against real objects and against the history-free model."""

    def __init__(self, datasets, index_name=None, index_start=0, int64_datasets=False):
        import pandas as pd

        self.data = []
        self.pristine = []
        off = index_start  # the first chunk's first label (0, or a cycle counter that started long ago)
        for i, X in enumerate(datasets):
            arr = np.asarray(X, dtype=float)
            if int64_datasets and np.all(arr == np.round(arr)):
                arr = arr.astype(np.int64)  # whole-numbered chunks may arrive as integers, between fractional ones
            # a new chunk may repeat the last 0..2 index labels of the previous one (update = combine_first:
            # the new values win on shared labels); the overlap is a deterministic function of the position
            overlap = min((0, 1, 0, 2, 1)[i % 5], len(arr) - 1, off - index_start)
            off -= overlap
            df = pd.DataFrame(arr, index=pd.RangeIndex(off, off + len(arr), name=index_name),
                              columns=[f"c{j}" for j in range(arr.shape[1])])
            off += len(arr)
            self.data.append(df)
            self.pristine.append(df.copy(deep=True))
        self.shared = {}       # id -> real shared cost object
        self.shared_spec = {}  # id -> spec
        self.det = {}          # slot -> real detector
        self.det_model = {}    # slot -> {"spec":..., "share": (key, id) | None, "train": [data ids], "fitted": bool}
        self.sc = {}
        self.sc_model = {}     # slot -> {"spec":..., "train": data id | None}
        self.stats = {"outputs": 0, "datasets_per_object": {}, "shared_touch": set(), "refits": 0, "updates": 0,
                      "errors_matched": 0}

    # ---- building fresh objects from the model
    def fresh_detector(self, m):
        spec = copy.deepcopy(m["spec"])
        if m["share"]:
            key, sid = m["share"]
            spec[key] = copy.deepcopy(self.shared_spec[sid])
        return K.build(spec)

    def real_spec(self, m):
        return self.fresh_detector(m)

    def training_frame(self, m):
        import pandas as pd

        if len(m["train"]) == 1:
            return self.data[m["train"][0]]  # the very same object the real detector saw (see ASSUMPTIONS on memory layout)
        # "the old and the new data combined", written out: one row per index label, the latest delivery of a label wins,
        # rows in label order (whatever order the chunks arrived in)
        rows = {}
        for d in m["train"]:
            df = self.data[d]
            for label, row in zip(df.index.tolist(), df.to_numpy(dtype=float)):
                rows[label] = row
        labels = sorted(rows)
        first = self.data[m["train"][0]]
        return pd.DataFrame(np.vstack([rows[k] for k in labels]), index=pd.Index(labels, name=first.index.name), columns=first.columns)

    # ---- invariants
    def check_invariants(self, where):
        self.check_held_outputs(where)
        for i, (df, ref_) in enumerate(zip(self.data, self.pristine)):
            if not df.equals(ref_) or not D.same_index(df.index, ref_.index) or list(df.dtypes) != list(ref_.dtypes) \
                    or list(df.columns) != list(ref_.columns):
                raise Violation(f"the caller's data (dataset {i}) was modified", after=where)
        for slot, obj in self.det.items():
            want = describe(self.fresh_detector(self.det_model[slot]))
            got = describe(obj)
            if want != got:
                raise Violation("hyper-parameters of a detector differ from its specification", slot=slot, after=where,
                                got=got, expected=want)
        for slot, obj in self.sc.items():
            want = describe(K.build(self.sc_model[slot]["spec"]))
            if want != describe(obj):
                raise Violation("hyper-parameters of a scorer differ from its specification", slot=slot, after=where,
                                got=describe(obj), expected=want)

    # ---- ops
    def step(self, op):
        kind = op["op"]
        getattr(self, "op_" + kind)(op)
        self.check_invariants(op)

    def op_new_shared(self, op):
        if op["id"] in self.shared:
            return  # a shared object is created once; detectors keep referring to it
        self.shared[op["id"]] = K.build(op["spec"])
        self.shared_spec[op["id"]] = copy.deepcopy(op["spec"])

    def op_shared_set_params(self, op):
        """The caller re-configures a shared object (a cost, or the change detector wrapped by an anomaliser) through their OWN
        handle. Objects built around it are not reset by that; what they return before being fitted or updated again is not
        defined by the property (they are marked stale and only fit / update are applied to them), but the next fit / update
        must behave like a freshly built object with the current hyper-parameters."""
        sid = op["id"]
        if sid not in self.shared:
            return
        new_shared = copy.deepcopy(self.shared_spec[sid])
        new_shared.update(copy.deepcopy(op["params"]))
        saved = self.shared_spec[sid]
        self.shared_spec[sid] = new_shared
        try:
            K.build(new_shared)
            for other in self.det_model.values():
                if other["share"] and other["share"][1] == sid:
                    self.fresh_detector(other)
        except Exception:  # noqa: BLE001 - only configurations that are valid for every holder
            self.shared_spec[sid] = saved
            return
        with sut("set_params on a shared object through the caller's own handle"):
            self.shared[sid].set_params(**{k: K.build(v) for k, v in op["params"].items()})
        for mm in self.det_model.values():
            if mm["share"] and mm["share"][1] == sid and mm["fitted"]:
                mm["stale"] = True
        self.stats["handle_reconfigured"] = self.stats.get("handle_reconfigured", 0) + 1

    def op_new_detector(self, op):
        spec = copy.deepcopy(op["spec"])
        share = None
        if op.get("share") is not None and op["share"] in self.shared:
            key = SHARE_KEY[spec["cls"]]
            share = (key, op["share"])
        m = {"spec": spec, "share": share, "train": [], "fitted": False}
        with sut("constructing a detector"):
            if share:
                kwargs = {k: K.build(v) for k, v in spec.items() if k not in ("cls", share[0])}
                kwargs[share[0]] = self.shared[share[1]]
                obj = K.registry()[spec["cls"]](**kwargs)
            else:
                obj = K.build(spec)
        self.det[op["slot"]] = obj
        self.det_model[op["slot"]] = m

    def op_clone(self, op):
        if op["src"] not in self.det:
            return
        m = self.det_model[op["src"]]
        with sut("clone"):
            obj = self.det[op["src"]].clone()
        spec = copy.deepcopy(m["spec"])
        if m["share"]:
            spec[m["share"][0]] = copy.deepcopy(self.shared_spec[m["share"][1]])  # clone does not share
        self.det[op["dst"]] = obj
        self.det_model[op["dst"]] = {"spec": spec, "share": None, "train": [], "fitted": False}

    def op_set_params(self, op):
        if op["slot"] not in self.det:
            return
        m = self.det_model[op["slot"]]
        new_spec = copy.deepcopy(m["spec"])
        new_shared = None
        flat = {}
        for k, v in op["params"].items():
            if "__" in k:
                outer, inner = k.split("__", 1)
                if m["share"] and m["share"][0] == outer:
                    new_shared = copy.deepcopy(self.shared_spec[m["share"][1]])
                    new_shared[inner] = v
                elif isinstance(new_spec.get(outer), dict) and "cls" in new_spec[outer]:
                    new_spec[outer][inner] = v
                else:
                    return  # no such nested object: op not applicable
            else:
                if m["share"] and m["share"][0] == k:
                    return
                new_spec[k] = v
            flat[k] = K.build(v)
        # only configurations that are valid by construction - for this detector and, when a shared
        # cost is modified, for every other detector that holds it
        trial_m = dict(m, spec=new_spec)
        try:
            if new_shared is not None:
                sid = m["share"][1]
                saved = self.shared_spec[sid]
                self.shared_spec[sid] = new_shared
                try:
                    self.fresh_detector(trial_m)
                    for other in self.det_model.values():
                        if other is not m and other["share"] and other["share"][1] == sid:
                            self.fresh_detector(other)
                finally:
                    self.shared_spec[sid] = saved
            else:
                self.fresh_detector(trial_m)
        except Exception:  # noqa: BLE001
            return
        with sut("set_params"):
            self.det[op["slot"]].set_params(**flat)
        m["spec"] = new_spec
        if new_shared is not None:
            sid = m["share"][1]
            self.shared_spec[sid] = new_shared
            # sktime's set_params resets only the object it is called on. Other detectors holding the
            # same cost keep a fitted state that was computed under the old parameter; what they
            # return before being re-fitted is not defined by the property, so they are retired.
            for other_slot in [s_ for s_, mm in self.det_model.items()
                               if mm is not m and mm["share"] and mm["share"][1] == sid and mm["fitted"]]:
                self._retire(other_slot)
        m["fitted"] = False
        m["train"] = []

    def _touch(self, slot, d):
        self.stats["datasets_per_object"].setdefault(("det", slot), set()).add(d)
        m = self.det_model[slot]
        if m["share"]:
            self.stats["shared_touch"].add((m["share"][1], slot))

    def op_fit(self, op):
        if op["slot"] not in self.det:
            return
        m = self.det_model[op["slot"]]
        real = outcome_of(lambda: self.det[op["slot"]].fit(self.data[op["data"]]))
        fresh = outcome_of(lambda: self.fresh_detector(m).fit(self.data[op["data"]]))
        self._same_outcome("fit", op, real, fresh, compare_value=False)
        if m["fitted"]:
            self.stats["refits"] += 1
        if real[0] == "ok":
            m["fitted"] = True
            m["stale"] = False
            m["train"] = [op["data"]]
        elif m["fitted"]:
            # a failed re-fit leaves an object whose state the documentation does not define: retire it
            self._retire(op["slot"])
            return
        self._touch(op["slot"], op["data"])

    def op_update(self, op):
        if op["slot"] not in self.det:
            return
        m = self.det_model[op["slot"]]
        d = op["data"]
        if m["fitted"] and (not m["train"] or d in m["train"] or self.data[d].shape[1] != self.data[m["train"][0]].shape[1]):
            return  # a chunk with the same columns that was not delivered yet: after the known rows, or late (before / between them)
        real = outcome_of(lambda: self.det[op["slot"]].update(self.data[d]))

        def fresh_run():
            mm = dict(m, train=m["train"] + [d])
            if not m["fitted"]:
                return self.fresh_detector(m).update(self.data[d])
            return self.fresh_detector(m).fit(self.training_frame(mm))

        fresh = outcome_of(fresh_run)
        self._same_outcome("update", op, real, fresh, compare_value=False)
        if real[0] == "ok" and m["fitted"]:
            self.stats["late_updates"] = self.stats.get("late_updates", 0) + (d < max(m["train"]))
            m["train"] = m["train"] + [d]
            self.stats["updates"] += 1
            if m.get("stale"):
                self.stats["updated_after_handle_reconfiguration"] = self.stats.get("updated_after_handle_reconfiguration", 0) + 1
            m["stale"] = False
        elif real[0] != "ok" and m["fitted"]:
            self._retire(op["slot"])
            return
        self._touch(op["slot"], d)

    def _retire(self, slot):
        self.det.pop(slot, None)
        self.det_model.pop(slot, None)
        self.stats["retired"] = self.stats.get("retired", 0) + 1

    def _fresh_fitted(self, m):
        obj = self.fresh_detector(m)
        if m["fitted"]:
            obj.fit(self.training_frame(m))
        return obj

    def _is_degenerate(self, m):
        """A change / local-anomaly detector whose cost has a *fixed* parameter: the cost is additive, so
        every change score is mathematically 0 and every segmentation ties. Detections are then decided
        by rounding noise (which depends e.g. on the memory layout of a copied frame), so only the
        continuous quantities (threshold, scores) are compared, within a tolerance."""
        spec = m["spec"]
        if spec["cls"] in ("CAPA", "MVCAPA", "StatThresholdAnomaliser"):
            return False
        key = SHARE_KEY.get(spec["cls"])
        sc = self.shared_spec[m["share"][1]] if m["share"] else spec.get(key)
        while isinstance(sc, dict) and "cost" in sc:
            sc = sc["cost"]
        return isinstance(sc, dict) and sc.get("param") is not None

    def _output_op(self, method, op):
        if op["slot"] not in self.det:
            return
        m = self.det_model[op["slot"]]
        if m.get("stale"):
            return
        X = self.data[op["data"]]
        degenerate = self._is_degenerate(m)

        raw = {}

        def run(det, data):
            y = getattr(det, method)(data)
            raw[id(det)] = y
            if not degenerate:
                return sparse_signature(y) if method == "predict" else y
            # transform_scores returns the scores; predict / transform store them in `scores` during this call
            sc = y if method == "transform_scores" else getattr(det, "scores", None)
            vals = np.asarray(sc["score"] if hasattr(sc, "columns") else sc, dtype=float).reshape(-1) if sc is not None else np.zeros(0)
            thr = float(getattr(det, "threshold_", getattr(det, "penalty_", 0.0)))
            return np.concatenate(([thr], vals))

        real = outcome_of(lambda: run(self.det[op["slot"]], X))
        fresh = outcome_of(lambda: run(self._fresh_fitted(m), X))
        if degenerate and real[0] == "ok" and fresh[0] == "ok":
            a, b = real[1], fresh[1]
            scale = 1.0 + float(np.abs(X.to_numpy()).max()) ** 2 * len(X)
            if a.shape != b.shape or not np.allclose(a, b, rtol=1e-9, atol=1e-9 * scale):
                raise Violation(f"{method}: threshold / scores differ from a freshly constructed object fitted the same way",
                                op=op, real=_short(real), fresh=_short(fresh))
            self.stats["degenerate_outputs"] = self.stats.get("degenerate_outputs", 0) + 1
            self._touch(op["slot"], op["data"])
            return
        self._same_outcome(method, op, real, fresh, compare_value=True)
        self._touch(op["slot"], op["data"])
        self.stats["outputs"] += 1
        y_real = raw.get(id(self.det[op["slot"]]))
        if real[0] == "ok" and hasattr(y_real, "equals"):
            # the caller keeps the frame / series it got from predict, transform or transform_scores: later calls must not change it
            self.held_frames = (getattr(self, "held_frames", []) + [(y_real, y_real.copy(deep=True), method)])[-6:]

    def op_predict(self, op):
        self._output_op("predict", op)

    def op_transform(self, op):
        self._output_op("transform", op)

    def op_transform_scores(self, op):
        self._output_op("transform_scores", op)

    def op_fit_predict(self, op):
        """Convenience method: must equal fit followed by predict on a fresh object."""
        self._fit_then(op, "fit_predict", "predict")

    def op_fit_transform(self, op):
        self._fit_then(op, "fit_transform", "transform")

    def _fit_then(self, op, method, second):
        if op["slot"] not in self.det:
            return
        m = self.det_model[op["slot"]]
        X = self.data[op["data"]]

        def conv(y):
            return sparse_signature(y) if second == "predict" else y

        was_fitted = m["fitted"]
        real = outcome_of(lambda: conv(getattr(self.det[op["slot"]], method)(X)))
        fresh = outcome_of(lambda: conv(getattr(self.fresh_detector(m).fit(X), second)(X)))
        self._same_outcome(method, op, real, fresh, compare_value=not self._is_degenerate(m))
        if real[0] == "ok":
            m["fitted"] = True
            m["stale"] = False
            m["train"] = [op["data"]]
            self.stats["outputs"] += 1
            if was_fitted:
                self.stats["refits"] += 1
        else:
            # the fit half may or may not have succeeded before the second half raised: state unknown
            self._retire(op["slot"])
            return
        self._touch(op["slot"], op["data"])

    def op_update_predict(self, op):
        """update_predict(X) must equal update(X) followed by predict(X)."""
        if op["slot"] not in self.det:
            return
        m = self.det_model[op["slot"]]
        d = op["data"]
        if not m["fitted"] or not m["train"] or d <= max(m["train"]) or \
                self.data[d].shape[1] != self.data[m["train"][0]].shape[1]:
            return
        X = self.data[d]
        real = outcome_of(lambda: sparse_signature(self.det[op["slot"]].update_predict(X)))
        mm = dict(m, train=m["train"] + [d])
        fresh = outcome_of(lambda: sparse_signature(self.fresh_detector(m).fit(self.training_frame(mm)).predict(X)))
        self._same_outcome("update_predict", op, real, fresh, compare_value=not self._is_degenerate(m))
        if real[0] == "ok":
            m["train"] = m["train"] + [d]
            self.stats["updates"] += 1
            self.stats["outputs"] += 1
            self._touch(op["slot"], d)
        else:
            self._retire(op["slot"])

    def op_scorer_set_params(self, op):
        """Nested or top-level set_params on a stand-alone scorer (valid configurations only)."""
        if op["slot"] not in self.sc:
            return
        m = self.sc_model[op["slot"]]
        new_spec = copy.deepcopy(m["spec"])
        flat = {}
        for k, v in op["params"].items():
            if "__" in k:
                outer, inner = k.split("__", 1)
                if not (isinstance(new_spec.get(outer), dict) and "cls" in new_spec[outer]):
                    return
                new_spec[outer][inner] = v
            else:
                if k not in new_spec and k != "param":
                    return
                new_spec[k] = v
            flat[k] = K.build(v)
        try:
            K.build(new_spec)
        except Exception:  # noqa: BLE001
            return
        real = outcome_of(lambda: self.sc[op["slot"]].set_params(**flat))
        if real[0] != "ok":
            # invalid parameter name for this scorer class: nothing changed
            return
        m["spec"] = new_spec
        m["train"] = None  # set_params resets the fitted state

    def op_new_scorer(self, op):
        with sut("constructing a scorer"):
            self.sc[op["slot"]] = K.build(op["spec"])
        self.sc_model[op["slot"]] = {"spec": copy.deepcopy(op["spec"]), "train": None}

    def op_scorer_clone(self, op):
        if op["src"] not in self.sc:
            return
        with sut("scorer clone"):
            self.sc[op["dst"]] = self.sc[op["src"]].clone()
        self.sc_model[op["dst"]] = {"spec": copy.deepcopy(self.sc_model[op["src"]]["spec"]), "train": None}

    def op_scorer_fit(self, op):
        if op["slot"] not in self.sc:
            return
        m = self.sc_model[op["slot"]]
        real = outcome_of(lambda: self.sc[op["slot"]].fit(self.data[op["data"]]))
        fresh = outcome_of(lambda: K.build(m["spec"]).fit(self.data[op["data"]]))
        self._same_outcome("scorer.fit", op, real, fresh, compare_value=False)
        if real[0] == "ok":
            m["train"] = op["data"]
        elif m["train"] is not None:
            # a failed re-fit leaves an object whose state the documentation does not define (as for detectors): retire it
            self.sc.pop(op["slot"], None)
            self.sc_model.pop(op["slot"], None)
            self.stats["retired"] = self.stats.get("retired", 0) + 1
            return
        self.stats["datasets_per_object"].setdefault(("sc", op["slot"]), set()).add(op["data"])

    def op_evaluate(self, op):
        if op["slot"] not in self.sc:
            return
        m = self.sc_model[op["slot"]]
        obj = self.sc[op["slot"]]
        k = obj.expected_cut_entries
        n = len(self.data[m["train"]]) if m["train"] is not None else 10
        # cuts derived deterministically from the op's seeds: sorted positions in [0, n]
        rows = []
        for seeds in op["cuts"]:
            if seeds[0] % 3 == 0:
                # a "popular" cut (whole series, halves, thirds): different scorers are asked for the same segments
                grid = sorted({0, n // 3, n // 2, (2 * n) // 3, n})
                seeds = [grid[(seeds[1] + i) % len(grid)] for i in range(4)]
            pos = sorted(int(s) % (n + 1) for s in seeds[:k])
            for i in range(1, len(pos)):  # mostly strictly increasing; equal entries survive at the upper end
                pos[i] = min(n, max(pos[i], pos[i - 1] + 1))
            rows.append(pos)
        cuts = np.asarray(rows, dtype=np.int64)
        real = outcome_of(lambda: np.asarray(obj.evaluate(cuts)))

        def fresh_run():
            f = K.build(m["spec"])
            if m["train"] is not None:
                f.fit(self.data[m["train"]])
            return np.asarray(f.evaluate(cuts))

        fresh = outcome_of(fresh_run)
        self._same_outcome("evaluate", op, real, fresh, compare_value=True)
        self.stats["outputs"] += 1
        if real[0] == "ok" and isinstance(real[1], np.ndarray):
            # the caller keeps the array it got: whatever is called later must not change it
            self.held = (getattr(self, "held", []) + [(real[1], real[1].copy(), len(self.held_log()))])[-6:]

    def held_log(self):
        return getattr(self, "_held_counter", [])

    def check_held_outputs(self, where):
        for obj, snapshot, method in getattr(self, "held_frames", []):
            if obj.shape != snapshot.shape or not obj.equals(snapshot):
                raise Violation(f"the output returned by an earlier {method} call changed afterwards (the detector handed out a view of its own work array)",
                                after=where, returned=np.asarray(snapshot).reshape(-1).tolist()[:6], now=np.asarray(obj).reshape(-1).tolist()[:6])
        for arr, snapshot, _ in getattr(self, "held", []):
            if arr.shape != snapshot.shape or not np.array_equal(arr, snapshot, equal_nan=True):
                raise Violation("an array returned by an earlier evaluate call changed afterwards (the scorer handed out its own buffer)",
                                after=where, returned=snapshot.tolist()[:4], now=arr.tolist()[:4])

    def _same_outcome(self, what, op, real, fresh, compare_value):
        if real[0] != fresh[0] or (real[0] == "error" and real[1] != fresh[1]):
            raise Violation(f"{what}: outcome differs from a freshly constructed object fitted the same way",
                            op=op, real=_short(real), fresh=_short(fresh))
        if real[0] == "error":
            self.stats["errors_matched"] += 1
            return
        if compare_value and not frames_equal(real[1], fresh[1]):
            raise Violation(f"{what}: output differs from a freshly constructed object fitted the same way", op=op,
                            real=_short(real), fresh=_short(fresh))


def _short(outcome):
    kind, v = outcome
    if kind == "error":
        return f"error:{v}"
    if isinstance(v, dict):
        return v
    try:
        return np.asarray(v, dtype=float).reshape(-1)[:12].tolist()
    except Exception:  # noqa: BLE001
        return str(type(v))


def summarize(interp, n_ops):
    st_ = interp.stats
    multi = any(len(v) >= 2 for v in st_["datasets_per_object"].values())
    shared_objs = {}
    for sid, slot in st_["shared_touch"]:
        shared_objs.setdefault(sid, set()).add(slot)
    shared = any(len(v) >= 2 for v in shared_objs.values())
    classes = []
    if multi:
        classes.append("object_used_with_2+_datasets")
    if shared:
        classes.append("shared_scorer_touched_by_2+_detectors")
    if st_["refits"]:
        classes.append("refit")
    if st_["updates"]:
        classes.append("update")
    if st_.get("late_updates"):
        classes.append("late_update_chunk")
    if st_["errors_matched"]:
        classes.append("matched_exception")
    if st_.get("degenerate_outputs"):
        classes.append("fixed_parameter_cost_in_change_detector(continuous_comparison_only)")
    return {"nontrivial": st_["outputs"] > 0 and (multi or shared or st_["refits"] > 0 or st_["updates"] > 0),
            "classes": classes}


def check(case):
    """Replay entry point: executes a whole history."""
    interp = Interpreter(case["datasets"], case.get("index_name"), case.get("index_start", 0), case.get("int64_datasets", False))
    for op in case["ops"]:
        interp.step(op)
    return summarize(interp, len(case["ops"]))


# ------------------------------------------------------------------ the state machine


@st.composite
def dataset_pool(draw):
    pool = []
    for i in range(draw(st.integers(3, 5))):
        p = 1 if i == 0 else draw(st.sampled_from([1, 2, 2, 3]))
        n = draw(st.sampled_from([4, 7, 12, 20, 26]))
        X, _ = draw(D.structured_matrix(n, p, exact=draw(st.sampled_from([False, True, None])), max_shifts=2, max_spikes=1, max_bumps=1))
        pool.append(X)
    return pool


def make_machine(tier, api):
    class DetectorHistories(RuleBasedStateMachine):
        def __init__(self):
            super().__init__()
            self.interp = None
            self.log = []
            self.datasets = None
            self.index_name = None
            self.index_start = 0
            self.int64_datasets = False

        def case(self):
            case = {"datasets": self.datasets, "ops": list(self.log)}
            if self.index_name is not None:
                case["index_name"] = self.index_name
            if self.index_start:
                case["index_start"] = self.index_start
            if self.int64_datasets:
                case["int64_datasets"] = True
            return case

        def run(self, op):
            if api.shrink_expired():
                return  # shrink-time cap reached: let the shrinker finish with the best history so far
            self.log.append(op)
            facet = FACETS[0]
            try:
                run_case(_StepFacet(facet, self.interp, op), None)
            except Violation as v:
                api.note_failure(self.case(), v)
                raise
            except Exception as e:  # noqa: BLE001 - harness problem: reported as such, shrunk only briefly
                api.note_harness(e)
                raise

        @initialize(pool=dataset_pool(), data=st.data())
        def init(self, pool, data):
            self.datasets = pool
            self.index_name = data.draw(st.sampled_from([None, "time"]))
            self.index_start = data.draw(st.sampled_from([0, 0, 1000, 7]))
            self.int64_datasets = data.draw(st.booleans())
            self.interp = Interpreter(pool, self.index_name, self.index_start, self.int64_datasets)
            # start with some objects so that the steps are not wasted on empty slots
            for sid in range(N_SHARED):
                self.run({"op": "new_shared", "id": sid, "spec": data.draw(st.sampled_from(SHARED_COSTS))})
            for slot in range(data.draw(st.integers(2, 3))):
                self._new_detector(slot, data, data.draw(st.one_of(st.integers(0, N_SHARED - 1), st.none())))
            self.run({"op": "new_scorer", "slot": 0, "spec": data.draw(st.sampled_from(SCORER_SPECS))})

        def n_data(self):
            return len(self.datasets)

        def _new_detector(self, slot, data, share):
            det = data.draw(st.sampled_from(K.DETECTORS))
            # hyper-parameters valid for one column; on wider data a covariance-based scorer needs p + 1 samples per
            # segment, so some calls are rejected (identically by the history-free run) and the history goes on
            params, _ = data.draw(K.detector_params(det, 1, max_msl=3, max_bw=3, allow_cov=True))
            spec = K.detector_spec(det, params)
            op = {"op": "new_detector", "slot": slot, "spec": spec}
            if share is not None and det in SHARE_KEY and det != "StatThresholdAnomaliser" and share in self.interp.shared:
                sspec = self.interp.shared_spec[share]
                fixed = sspec.get("param") is not None
                ok = (fixed and (sspec["cls"] != "GaussianCovCost" or det == "CAPA") and sspec["cls"] != "L1Cost") \
                    if det in ("CAPA", "MVCAPA") else True
                if ok and K.scorer_min_size(sspec, 1) <= params.get("bandwidth", params.get("min_segment_length", 2)):
                    op["share"] = share
            self.run(op)

        def _det_slot(self, data):
            return data.draw(st.sampled_from(sorted(self.interp.det)))

        def _sc_slot(self, data):
            return data.draw(st.sampled_from(sorted(self.interp.sc)))

        @rule(slot=st.integers(0, N_DET_SLOTS - 1), data=st.data(), share=st.one_of(st.integers(0, N_SHARED - 1), st.none()))
        def new_detector(self, slot, data, share):
            self._new_detector(slot, data, share)

        @precondition(lambda self: self.interp is not None and self.interp.det)
        @rule(data=st.data(), dst=st.integers(0, N_DET_SLOTS - 1))
        def clone(self, data, dst):
            self.run({"op": "clone", "src": self._det_slot(data), "dst": dst})

        @precondition(lambda self: self.interp is not None and self.interp.det)
        @rule(data=st.data())
        def set_params(self, data):
            slot = self._det_slot(data)
            spec = self.interp.det_model[slot]["spec"]
            det = spec["cls"]
            params, _ = data.draw(K.detector_params(det, 1, max_msl=3, max_bw=3, allow_cov=True))
            scalar = {k: v for k, v in params.items() if not isinstance(v, dict) and (v is not None or k.endswith("scale"))}
            keys = data.draw(st.lists(st.sampled_from(sorted(scalar)), min_size=1, max_size=len(scalar), unique=True))
            upd = {k: scalar[k] for k in keys}
            key = SHARE_KEY.get(det)
            if key and data.draw(st.integers(0, 3)) == 0:
                upd = {f"{key}__param": data.draw(st.sampled_from([0.0, 1.5, None]))}
            self.run({"op": "set_params", "slot": slot, "params": upd})

        @precondition(lambda self: self.interp is not None and self.interp.det)
        @rule(data=st.data(), d=st.integers(0, 4))
        def fit(self, data, d):
            self.run({"op": "fit", "slot": self._det_slot(data), "data": d % self.n_data()})

        @precondition(lambda self: self.interp is not None and self.interp.det)
        @rule(data=st.data(), d=st.integers(0, 4))
        def fit_then_predict_elsewhere(self, data, d):
            slot = self._det_slot(data)
            self.run({"op": "fit", "slot": slot, "data": d % self.n_data()})
            if slot in self.interp.det:
                self.run({"op": "predict", "slot": slot, "data": data.draw(st.integers(0, 4)) % self.n_data()})

        @precondition(lambda self: self.interp is not None and any(m["fitted"] for m in self.interp.det_model.values()))
        @rule(data=st.data())
        def update(self, data):
            fitted = sorted(s_ for s_, m in self.interp.det_model.items() if m["fitted"])
            slot = data.draw(st.sampled_from(fitted))
            m = self.interp.det_model[slot]
            cands = [d for d in range(self.n_data()) if d not in m["train"]
                     and len(self.datasets[d][0]) == len(self.datasets[m["train"][0]][0])]
            later = [d for d in cands if d > max(m["train"])]
            # mostly chunks that continue the known rows; sometimes a late one (rows before or between the known ones)
            pool = later if later and data.draw(st.integers(0, 2)) else cands
            d = data.draw(st.sampled_from(pool)) if pool else data.draw(st.integers(0, self.n_data() - 1))
            self.run({"op": "update", "slot": slot, "data": d})

        @precondition(lambda self: self.interp is not None and self.interp.det)
        @rule(data=st.data(), d=st.integers(0, 4))
        def predict(self, data, d):
            self.run({"op": "predict", "slot": self._det_slot(data), "data": d % self.n_data()})

        @precondition(lambda self: self.interp is not None and self.interp.det)
        @rule(data=st.data(), d=st.integers(0, 4))
        def transform(self, data, d):
            self.run({"op": "transform", "slot": self._det_slot(data), "data": d % self.n_data()})

        @precondition(lambda self: self.interp is not None and self.interp.det)
        @rule(data=st.data(), d=st.integers(0, 4))
        def transform_scores(self, data, d):
            self.run({"op": "transform_scores", "slot": self._det_slot(data), "data": d % self.n_data()})

        @precondition(lambda self: self.interp is not None and self.interp.det)
        @rule(data=st.data(), d=st.integers(0, 4), method=st.sampled_from(["fit_predict", "fit_transform"]))
        def fit_and_output(self, data, d, method):
            self.run({"op": method, "slot": self._det_slot(data), "data": d % self.n_data()})

        @precondition(lambda self: self.interp is not None and any(m["fitted"] for m in self.interp.det_model.values()))
        @rule(data=st.data())
        def update_predict(self, data):
            fitted = sorted(s_ for s_, m in self.interp.det_model.items() if m["fitted"])
            slot = data.draw(st.sampled_from(fitted))
            m = self.interp.det_model[slot]
            later = [d for d in range(self.n_data()) if d > max(m["train"])
                     and len(self.datasets[d][0]) == len(self.datasets[m["train"][0]][0])]
            if later:
                self.run({"op": "update_predict", "slot": slot, "data": data.draw(st.sampled_from(later))})

        @precondition(lambda self: self.interp is not None and self.interp.sc)
        @rule(data=st.data(), value=st.sampled_from([0.0, 0.5, 1.5, None]))
        def scorer_set_params(self, data, value):
            slot = self._sc_slot(data)
            spec = self.interp.sc_model[slot]["spec"]
            nested = [k for k, v in spec.items() if isinstance(v, dict) and "cls" in v]
            key = f"{nested[0]}__param" if nested else "param"
            if spec["cls"] in ("CUSUM", "L2Saving"):
                return
            if nested and "scale" in spec[nested[0]] and data.draw(st.booleans()):
                # the user cost's own hyper-parameter, through the wrapper
                key, value = f"{nested[0]}__scale", data.draw(st.sampled_from([0.5, 3.0, 1.0]))
            elif nested and spec["cls"] == "Saving" and value is None:
                return  # a saving needs a fixed baseline parameter
            self.run({"op": "scorer_set_params", "slot": slot, "params": {key: value}})

        @rule(slot=st.integers(0, N_SCORER_SLOTS - 1), spec=st.sampled_from(SCORER_SPECS))
        def new_scorer(self, slot, spec):
            self.run({"op": "new_scorer", "slot": slot, "spec": spec})

        @precondition(lambda self: self.interp is not None and self.interp.sc)
        @rule(data=st.data(), dst=st.integers(0, N_SCORER_SLOTS - 1))
        def scorer_clone(self, data, dst):
            self.run({"op": "scorer_clone", "src": self._sc_slot(data), "dst": dst})

        @precondition(lambda self: self.interp is not None and self.interp.sc)
        @rule(data=st.data(), d=st.integers(0, 4))
        def scorer_fit(self, data, d):
            self.run({"op": "scorer_fit", "slot": self._sc_slot(data), "data": d % self.n_data()})

        @precondition(lambda self: self.interp is not None and self.interp.sc)
        @rule(data=st.data(),
              cuts=st.lists(st.lists(st.integers(0, 40), min_size=4, max_size=4), min_size=1, max_size=4))
        def evaluate(self, data, cuts):
            self.run({"op": "evaluate", "slot": self._sc_slot(data), "cuts": cuts})

        def teardown(self):
            if self.interp is not None and self.log and not api.shrink_expired():
                api.record(self.case(), summarize(self.interp, len(self.log)))

    return DetectorHistories


class _StepFacet:
    """Adapter so that one interpreter step runs under the framework's watchdog."""

    def __init__(self, facet, interp, op):
        self.name = facet.name
        self.timeout_is_violation = False
        self.time_limit = facet.time_limit
        self._interp = interp
        self._op = op

    def check(self, _case):
        self._interp.step(self._op)


# ------------------------------------------------------------------ targeted histories: scorer state that depends on the data


STALE_SCORERS = {
    "PELT": ("cost", [{"cls": "GaussianCovCost"}], "min_segment_length"),
    "MovingWindow": ("change_score", [{"cls": "GaussianCovCost"}, {"cls": "ChangeScore", "cost": {"cls": "GaussianCovCost"}}], "bandwidth"),
    "SeededBinarySegmentation": ("change_score", [{"cls": "GaussianCovCost"}, {"cls": "ChangeScore", "cost": {"cls": "GaussianCovCost"}}],
                                 "min_segment_length"),
    "CircularBinarySegmentation": ("anomaly_score", [{"cls": "GaussianCovCost"}, {"cls": "LocalAnomalyScore", "cost": {"cls": "GaussianCovCost"}}],
                                   "min_segment_length"),
    "CAPA": ("collective_saving", [{"cls": "GaussianCovCost", "param": {"tuple": [0.0, 1.0]}},
                                   {"cls": "Saving", "baseline_cost": {"cls": "GaussianCovCost", "param": {"tuple": [0.0, 1.0]}}}],
             "min_segment_length"),
}


@st.composite
def stale_state_histories(draw, tier):
    """A detector whose scorer's minimum size depends on the data (covariance cost: p + 1) is used on wide data - where
    the call may be rejected - and afterwards, possibly after lowering its length parameter with set_params or through a
    second detector holding the same scorer object, on narrower data."""
    det = draw(st.sampled_from(sorted(STALE_SCORERS)))
    key, scorers, length_key = STALE_SCORERS[det]
    scorer = draw(st.sampled_from(scorers))
    p_wide = draw(st.integers(2, 4))
    p_narrow = draw(st.integers(1, p_wide - 1))
    shapes = ((p_wide, draw(st.integers(14, 30))), (p_narrow, draw(st.integers(12, 30))), (p_narrow, draw(st.integers(12, 30))))
    hi = draw(st.integers(2, p_wide + 2))
    lo = draw(st.integers(max(2, p_narrow + 1), max(2, p_narrow + 1) + 1))
    base = {"cls": det, length_key: hi}
    if det in ("PELT",):
        base["penalty_scale"] = draw(st.sampled_from([1.0, 0.3]))
    elif det == "CAPA":
        base.update(collective_penalty_scale=draw(st.sampled_from([1.0, 0.3])), point_penalty_scale=draw(st.sampled_from([1.0, 0.5])))
    else:
        base["threshold_scale"] = draw(st.sampled_from([1.0, 0.3, None]))
    plan = draw(st.integers(0, 6))  # 0-2: one detector; 3-6: two detectors around one shared scorer object
    shared = plan >= 3
    ops = []
    if shared:
        ops.append({"op": "new_shared", "id": 0, "spec": scorer})
        ops.append({"op": "new_detector", "slot": 0, "spec": dict(base, **{key: None}), "share": 0})
        ops.append({"op": "new_detector", "slot": 1, "spec": dict(base, **{key: None, length_key: lo}), "share": 0})
    else:
        ops.append({"op": "new_detector", "slot": 0, "spec": dict(base, **{key: scorer})})
    first = draw(st.sampled_from(["fit+predict", "fit+transform_scores", "fit"]))
    ops.append({"op": "fit", "slot": 0, "data": 0})
    if first != "fit":
        ops.append({"op": first.split("+")[1] if det in ("PELT", "MovingWindow", "CAPA") else "predict", "slot": 0, "data": 0})
    route = ("same_detector", "set_params", "set_params", "second_detector", "second_detector", "set_params", "same_detector")[plan]
    slot = 0
    if route == "set_params":
        ops.append({"op": "set_params", "slot": 0, "params": {length_key: lo}})
    elif route == "second_detector":
        slot = 1
    d = draw(st.sampled_from([1, 2]))
    if route == "same_detector" and draw(st.booleans()):
        ops.append({"op": "predict", "slot": 0, "data": d})  # fitted on wide data, applied to narrow data: rejected or not, go on
    ops.append({"op": "fit", "slot": slot, "data": d})
    for method in draw(st.lists(st.sampled_from(["predict", "transform", "transform_scores"]), min_size=1, max_size=3)):
        if method == "transform_scores" and det not in ("PELT", "MovingWindow", "CAPA"):
            method = "predict"
        ops.append({"op": method, "slot": slot, "data": draw(st.sampled_from([1, 2]))})
    # the bulk data are drawn last: Hypothesis biases choices made *after* a large draw towards their minimal value
    datasets = []
    for p_, n_ in shapes:
        X, _ = draw(D.structured_matrix(n_, p_, exact=False, max_shifts=1, max_spikes=1, max_bumps=2, min_noise_scale=0.5))
        datasets.append(X)
    return {"datasets": datasets, "ops": ops}


INTERLEAVED_SPECS = [{"cls": "GaussianCovCost"}, {"cls": "ChangeScore", "cost": {"cls": "GaussianCovCost"}},
                     {"cls": "LocalAnomalyScore", "cost": {"cls": "GaussianCovCost"}}, {"cls": "GaussianVarCost"}, {"cls": "L2Cost"},
                     {"cls": "CUSUM"}, {"cls": "L2Saving"}, {"cls": "ChangeScore", "cost": {"cls": "GaussianVarCost"}},
                     {"cls": "LocalAnomalyScore", "cost": {"cls": "L2Cost"}}, {"cls": "L1Cost"},
                     {"cls": "Saving", "baseline_cost": {"cls": "GaussianCovCost", "param": {"tuple": [0.0, 1.0]}}}]


@st.composite
def interleaved_scorer_histories(draw, tier):
    """Two or three stand-alone scorers (often of the same class) are alive at the same time, fitted on *different* data of
    the same shape, and are asked in turn for the same segments (whole series, halves, thirds) - with clones and refits in
    between. No scorer may see what another one was fitted on or asked for."""
    k = draw(st.integers(2, 3))
    first = draw(st.sampled_from(INTERLEAVED_SPECS))
    specs = [first] + [first if draw(st.booleans()) else draw(st.sampled_from(INTERLEAVED_SPECS)) for _ in range(k - 1)]
    p = draw(st.integers(1, 3))
    n = draw(st.integers(max(12, 4 * (p + 1)), 30))
    ops = [{"op": "new_scorer", "slot": i, "spec": sp} for i, sp in enumerate(specs)]
    order = draw(st.permutations(list(range(k))))
    ops += [{"op": "scorer_fit", "slot": i, "data": i} for i in order]
    for _ in range(draw(st.integers(3, 8))):
        what = draw(st.integers(0, 9))
        slot = draw(st.integers(0, k - 1))
        if what == 0:
            ops.append({"op": "scorer_fit", "slot": slot, "data": draw(st.integers(0, k - 1))})
        elif what == 1:
            ops.append({"op": "scorer_clone", "src": slot, "dst": draw(st.integers(0, k - 1))})
        else:
            # seeds[0] % 3 == 0 selects the grid of popular cuts (see op_evaluate)
            ops.append({"op": "evaluate", "slot": slot,
                        "cuts": [[0, draw(st.integers(0, 4)), 0, 0] for _ in range(draw(st.integers(1, 3)))]})
    datasets = []
    for _ in range(k):  # bulk data last (see strategies/data.py)
        X, _ = draw(D.structured_matrix(n, p, exact=False, max_shifts=1, max_spikes=1, max_bumps=1, min_noise_scale=0.5))
        datasets.append(X)
    return {"datasets": datasets, "ops": ops}


def check_interleaved(case):
    info = check(case)
    specs = [op["spec"]["cls"] + ("(" + next((v["cls"] for v in op["spec"].values() if isinstance(v, dict) and "cls" in v), "") + ")")
             for op in case["ops"] if op["op"] == "new_scorer"]
    info["classes"] = list(info.get("classes", [])) + (["same_class_twice"] if len(set(specs)) < len(specs) else []) + \
        sorted({f"scorer={s_}" for s_ in specs})
    info["nontrivial"] = sum(op["op"] == "evaluate" for op in case["ops"]) >= 2
    return info


@st.composite
def shared_wrapped_histories(draw, tier):
    """One change detector object is handed to two StatThresholdAnomalisers (the same segmentation, two statistics), which are
    fitted on DIFFERENT series and then asked in turn. Each must answer like a freshly built anomaliser with a change detector
    of its own, fitted on its own series (tuned thresholds make the fitted state of the wrapped detector visible)."""
    inner = draw(st.sampled_from(["MovingWindow", "SeededBinarySegmentation", "MovingWindow", "PELT"]))
    ip, n_min = draw(K.detector_params(inner, 1, max_msl=3, max_bw=4, allow_cov=False))
    if "threshold_scale" in ip and draw(st.integers(0, 3)) > 0:
        ip = dict(ip, threshold_scale=None, level=draw(st.sampled_from([0.05, 0.1, 0.2, 0.3])))
    wrapped = dict(cls=inner, **ip)
    stats = [draw(st.sampled_from(["np.mean", "np.median", "np.max", "range", "method_std", "roughness"])) for _ in range(2)]
    bounds = [draw(st.sampled_from([(-1.0, 1.0), (-0.5, 0.5), (0.0, 2.0), (-3.0, 0.5)])) for _ in range(2)]
    ops = [{"op": "new_shared", "id": 0, "spec": wrapped}]
    for i in range(2):
        ops.append({"op": "new_detector", "slot": i, "share": 0,
                    "spec": {"cls": "StatThresholdAnomaliser", "change_detector": None, "stat": {"callable": stats[i]},
                             "stat_lower": bounds[i][0], "stat_upper": bounds[i][1]}})
    order = draw(st.permutations([0, 1]))
    ops += [{"op": "fit", "slot": i, "data": i} for i in order]
    for _ in range(draw(st.integers(2, 6))):
        what = draw(st.integers(0, 9))
        slot = draw(st.integers(0, 1))
        if what == 0:
            ops.append({"op": "fit", "slot": slot, "data": draw(st.integers(0, 2))})
        else:
            ops.append({"op": ("predict", "transform", "predict")[what % 3], "slot": slot, "data": draw(st.integers(0, 2))})
    if draw(st.integers(0, 2)) == 0:
        # the caller re-configures the wrapped detector through their own handle, then delivers new rows with update: the
        # anomaliser must then answer like a freshly built one, with the current hyper-parameters, fitted on all rows
        # (only the slot fitted on dataset 0 alone is updated, with the next block of rows, dataset 1)
        key = "bandwidth" if inner == "MovingWindow" else "min_segment_length"
        val = ip[key] + draw(st.integers(1, 3))
        extra = {key: val}
        if inner == "SeededBinarySegmentation":
            extra["max_interval_length"] = max(ip["max_interval_length"], 2 * val)
        if inner == "MovingWindow":
            extra["min_detection_interval"] = 1
        ops = [op for op in ops[:4] if not (op["op"] == "fit" and op["slot"] == 1)]
        ops += [{"op": "fit", "slot": 1, "data": 2}, {"op": "predict", "slot": 0, "data": 0},
                {"op": "shared_set_params", "id": 0, "params": extra},
                {"op": "update", "slot": 0, "data": 1}, {"op": "predict", "slot": 0, "data": draw(st.integers(0, 2))},
                {"op": "transform", "slot": 0, "data": 1}]
    n = draw(st.integers(max(n_min, 16), max(n_min, 16) + 30))
    datasets = []
    for k in range(3):  # bulk data last (see strategies/data.py); different lengths: tuned thresholds and penalties differ
        X, _ = draw(D.structured_matrix(n + 7 * k, 1, exact=False, max_shifts=2, max_spikes=1, max_bumps=1, min_noise_scale=0.5))
        datasets.append(X)
    return {"datasets": datasets, "ops": ops}


def check_shared_wrapped(case):
    info = check(case)
    wrapped = case["ops"][0]["spec"]
    info["classes"] = list(info.get("classes", [])) + [f"wrapped={wrapped['cls']}"] + \
        (["tuned_threshold"] if wrapped.get("threshold_scale", 0) is None else [])
    outputs = [op for op in case["ops"] if op["op"] in ("predict", "transform")]
    info["nontrivial"] = len({op["slot"] for op in outputs}) == 2
    return info


@st.composite
def reconfigure_histories(draw, tier):
    """The scan loop: one detector object is used on a series, re-configured with set_params (bandwidth, minimum / maximum
    lengths, growth factor, scales, levels ...) and used again on a series of the SAME length - repeatedly. Whatever the
    object remembered from its earlier configuration (per-length caches, tuned thresholds) must not show."""
    det = draw(st.sampled_from(K.DETECTORS))
    p = 1 if det == "StatThresholdAnomaliser" else draw(st.integers(1, 2))
    configs = [draw(K.detector_params(det, p, max_msl=4, max_bw=8, allow_cov=False)) for _ in range(draw(st.integers(2, 4)))]
    n_min = max(c[1] for c in configs)
    n = draw(st.integers(max(n_min, 12), max(n_min, 12) + 30))
    first = configs[0][0]
    ops = [{"op": "new_detector", "slot": 0, "spec": K.detector_spec(det, first)}]
    k = draw(st.integers(2, 3))
    d = 0
    for i, (params, _) in enumerate(configs):
        if i > 0:
            scalar = {key: v for key, v in params.items() if not isinstance(v, dict) and (v is not None or key.endswith("scale"))
                      and first.get(key) != v}
            if not scalar:
                continue
            ops.append({"op": "set_params", "slot": 0, "params": scalar})
            first = dict(first, **scalar)
        ops.append({"op": "fit", "slot": 0, "data": d % k})
        for method in draw(st.lists(st.sampled_from(["predict", "transform_scores", "transform"]), min_size=1, max_size=2)):
            if method == "transform_scores" and det not in ("PELT", "MovingWindow", "CAPA", "MVCAPA"):
                method = "predict"
            ops.append({"op": method, "slot": 0, "data": draw(st.integers(0, k - 1))})
        d += 1
    # re-baselining: the fixed parameter of a nested cost is changed through the detector (cost__param=...)
    key = SHARE_KEY.get(det)
    nested = configs[0][0].get(key) if key else None
    if isinstance(nested, dict) and nested.get("cls") in ("L2Cost",) and nested.get("param") is not None and draw(st.booleans()):
        ops.append({"op": "set_params", "slot": 0, "params": {f"{key}__param": draw(st.sampled_from([1.5, -2.0, 5.0]))}})
        ops.append({"op": "fit", "slot": 0, "data": d % k})
        ops.append({"op": "predict", "slot": 0, "data": d % k})
        if det in ("PELT", "MovingWindow", "CAPA", "MVCAPA"):
            ops.append({"op": "transform_scores", "slot": 0, "data": d % k})
    datasets = []
    for _ in range(k):  # all of the same length; bulk data last (see strategies/data.py)
        X, _ = draw(D.structured_matrix(n, p, max_shifts=2, max_spikes=2, max_bumps=1))
        datasets.append(X)
    return {"datasets": datasets, "ops": ops}


def check_reconfigure(case):
    info = check(case)
    det = next(op["spec"]["cls"] for op in case["ops"] if op["op"] == "new_detector")
    info["classes"] = list(info.get("classes", [])) + [f"det={det}", f"set_params_calls={sum(op['op'] == 'set_params' for op in case['ops'])}"]
    info["nontrivial"] = any(op["op"] == "set_params" for op in case["ops"]) and info.get("nontrivial", False)
    return info


def check_stale(case):
    info = check(case)
    det = next(op["spec"]["cls"] for op in case["ops"] if op["op"] == "new_detector")
    route = "set_params" if any(op["op"] == "set_params" for op in case["ops"]) else \
        ("second_detector" if any(op.get("slot") == 1 and op["op"] == "fit" for op in case["ops"]) else "same_detector")
    info["classes"] = list(info.get("classes", [])) + [f"det={det}", f"route={route}"]
    return info


FACETS = [
    Facet(name="stale_scorer_state", check=check_stale, strategy=stale_state_histories,
          rule=("generated histories for the five detectors that accept a covariance-based scorer (its minimum size is p + 1 of "
                "the data it was last fitted on): use on 2-4 columns (the call may be rejected), then - after set_params lowering the "
                "length parameter, through a second detector holding the same scorer object, or directly - fit and predict / transform / "
                "transform_scores on fewer columns; every outcome (value or exception class) must equal that of a freshly built object; "
                "non-trivial = produces outputs on >= 2 datasets"),
          n_quick=160, n_thorough=3000, shards_quick=4, shards_thorough=8, max_samples=2),
    Facet(name="shared_wrapped_detector", check=check_shared_wrapped, strategy=shared_wrapped_histories,
          rule=("generated histories: ONE change detector object (MovingWindow / SeededBinarySegmentation / PELT, tuned threshold in 3 of 4) handed to "
                "two StatThresholdAnomalisers with their own statistic and bounds, fitted on different series (lengths n, n + 7, n + 14) in either order, "
                "then 2-6 predict / transform / refit steps in turn; every outcome must equal that of a freshly built anomaliser with a change detector "
                "of its own fitted on its own series; non-trivial = both anomalisers produce output"),
          n_quick=120, n_thorough=2500, shards_quick=4, shards_thorough=8, max_samples=2),
    Facet(name="reconfigured_same_length", check=check_reconfigure, strategy=reconfigure_histories,
          rule=("generated histories (the scan loop): one detector used on a series, re-configured through set_params with 1-3 further generated "
                "configurations (bandwidth, minimum / maximum lengths, growth factor, scales, levels, min_detection_interval ...) and after each "
                "fitted and applied again to series of the SAME length; every outcome must equal that of a freshly built object; "
                "non-trivial = at least one set_params and outputs on >= 2 data sets"),
          n_quick=200, n_thorough=3000, shards_quick=8, shards_thorough=16, max_samples=2),
    Facet(name="interleaved_scorers", check=check_interleaved, strategy=interleaved_scorer_histories,
          rule=("generated histories: 2-3 stand-alone scorers (11 specs, often the same class twice) alive together, fitted on different data of "
                "the same shape, then 3-8 steps of evaluate on shared popular segments (whole series, halves, thirds) / refit / clone in "
                "generated order; every outcome must equal that of a freshly built scorer fitted on the model's data; non-trivial = >= 2 evaluations"),
          n_quick=200, n_thorough=3000, shards_quick=4, shards_thorough=8, max_samples=2),
    Facet(name="histories", kind="stateful", check=check, machine=make_machine,
          rule=("rule-based state machine: pool of 3-5 generated DataFrames (different n and p, consecutive RangeIndex blocks), up to "
                "4 detector slots (all seven detectors, optionally constructed around one of 2 shared cost objects), 3 scorer slots; "
                "rules construct / clone / set_params (incl. nested cost__param of a shared cost or of a stand-alone scorer) / fit / update / fit_predict / fit_transform / update_predict / predict / transform "
                "/ transform_scores / scorer fit / evaluate; after every output the same call on a freshly built object fitted on the "
                "model's training data must agree; invariants: get_params equals the specification, caller data unchanged; "
                "non-trivial history = produces outputs and has an object used with >= 2 datasets, a shared cost touched by >= 2 "
                "detectors, a refit or an update"),
          n_quick=320, n_thorough=4000, shards_quick=16, shards_thorough=16, steps_quick=30, steps_thorough=45, max_samples=2),
]

"""C18 - data generators are reproducible and place segments exactly where requested."""

import numpy as np
from hypothesis import strategies as st

from framework.core import Facet, Violation, sut
from strategies import data as D

PROPERTY_ID = "C18"
TECHNIQUE = "Hypothesis-generated generator arguments and seeds: reproducibility, affine relation to the same-seed standard-normal output, validity predicate for outliers, ValueError for inconsistent arguments"
ASSUMPTIONS = [
    "anomalies are generated pairwise disjoint and changepoints strictly increasing (the documented meaning of the arguments)",
    "the standard-normal reference is the same generator called with the same seed, zero means and unit variances",
]


def seg_param(draw, p, positive):
    # (variance 0 is a consistent request: a flat-lined stretch at the mean)
    elem = st.sampled_from([0.25, 1.0, 4.0, 9.0, 0.0]) if positive else st.sampled_from([-3.0, 0.0, 2.5, 10.0])
    elem = st.one_of(elem, st.floats(0.01, 20, allow_nan=False) if positive else st.floats(-20, 20, allow_nan=False))
    return [draw(elem) for _ in range(p)]


@st.composite
def mean_var_args(draw, p, k):
    """(means arg, variances arg, expanded per-segment means, expanded per-segment variances).

    Forms: one scalar for all segments (p = 1), one vector for all segments, or one entry per segment where every entry
    is a per-column vector or - mixed freely inside the list - a scalar for all columns. The number of columns is taken
    from the first mean, which is therefore a vector whenever p > 1."""
    out = []
    for positive in (False, True):
        mode = draw(st.sampled_from(["scalar", "shared_vector", "per_segment"])) if p == 1 else \
            draw(st.sampled_from(["shared_vector", "per_segment"]))
        if k == 0 and mode == "per_segment":
            mode = "shared_vector"
        if mode == "scalar":
            v = seg_param(draw, 1, positive)[0]
            out.append((v, [[v]] * k))
        elif mode == "shared_vector":
            v = seg_param(draw, p, positive)
            out.append(([v], [v] * k))
        else:
            arg, expanded = [], []
            for i in range(k):
                if draw(st.integers(0, 2)) == 0 and (positive or i > 0 or p == 1):
                    v = seg_param(draw, 1, positive)[0]  # a scalar entry among per-column ones
                    arg.append(v)
                    expanded.append([v] * p)
                else:
                    v = seg_param(draw, p, positive)
                    arg.append(v)
                    expanded.append(v)
            out.append((arg, expanded))
    return out[0][0], out[1][0], out[0][1], out[1][1]


@st.composite
def changing_cases(draw, tier):
    n = draw(st.integers(1, 60))
    p = draw(st.integers(1, 4))
    kmax = min(5, n - 1)
    k = draw(st.integers(0, kmax)) if kmax > 0 else 0
    # non-decreasing positions in [0, n-1]: a repeated changepoint (or changepoint 0) requests an empty segment
    unique = draw(st.sampled_from([True, False]))
    cpts = sorted(draw(st.lists(st.integers(1 if unique else 0, max(1, n - 1)), min_size=k, max_size=k, unique=unique))) if k else []
    m_arg, v_arg, means, variances = draw(mean_var_args(p, len(cpts) + 1))
    cp_arg = cpts
    if len(cpts) == 1 and draw(st.booleans()):
        cp_arg = cpts[0]
    return {"fn": "changing", "n": n, "p": p, "changepoints": cp_arg, "means": m_arg, "variances": v_arg,
            "exp_means": means, "exp_vars": variances, "seed": draw(st.integers(0, 2 ** 31 - 1)),
            # positions computed with NumPy (list(np.cumsum(lengths)[:-1])) are numpy integers, not Python ints
            "np_positions": draw(st.integers(0, 3)) == 0}


@st.composite
def anomalous_cases(draw, tier):
    from checks.c05 import intervals_strategy

    n = draw(st.integers(1, 60))
    p = draw(st.integers(1, 4))
    an = draw(intervals_strategy(n))
    if not an and draw(st.integers(0, 2)) > 0:  # an empty list of anomalies stays in one case of three
        an = [[0, n]] if draw(st.booleans()) else [[n - 1, n]]
    if len(an) >= 2 and draw(st.sampled_from([True, False])):
        an = draw(st.permutations(an))  # anomalies need not be listed in increasing order
    m_arg, v_arg, means, variances = draw(mean_var_args(p, len(an)))
    a_arg = an
    return {"fn": "anomalous", "n": n, "p": p, "anomalies": a_arg, "single_tuple": len(an) == 1 and draw(st.booleans()),
            "means": m_arg, "variances": v_arg, "exp_means": means, "exp_vars": variances,
            "seed": draw(st.integers(0, 2 ** 31 - 1)), "np_positions": draw(st.integers(0, 3)) == 0}


@st.composite
def alternating_cases(draw, tier):
    return {"fn": "alternating", "n_segments": draw(st.integers(1, 6)), "segment_length": draw(st.integers(1, 12)),
            "p": draw(st.integers(1, 5)), "mean": draw(st.one_of(st.sampled_from([0.0, 10.0, -3.0]), st.floats(-20, 20))),
            "variance": draw(st.one_of(st.sampled_from([1.0, 4.0, 0.25, 0.0]), st.floats(0.01, 20))),
            "affected_proportion": draw(st.sampled_from([1.0, 0.5, 0.0, 0.2, 0.34, 0.75])),
            "seed": draw(st.integers(0, 2 ** 31 - 1)), "np_positions": draw(st.integers(0, 3)) == 0}


def as_arg(x):
    """JSON -> what a user would pass (lists whose entries are arrays for vector parameters, floats for scalar ones)."""
    if isinstance(x, list):
        return [np.asarray(v, dtype=float) if isinstance(v, list) else v for v in x]
    return x


def scribble(df):
    """The caller edits a returned frame in place (as add_linspace_outliers does)."""
    df.iloc[:, :] = df.to_numpy() * 0.0 + 12345.0


def frame_checks(df, n, p, what):
    import pandas as pd

    if not isinstance(df, pd.DataFrame) or df.shape != (n, p):
        raise Violation(f"{what}: output is not an n x p frame", shape=list(getattr(df, "shape", [])), n=n, p=p)
    if list(df.index) != list(range(n)):
        raise Violation(f"{what}: index is not 0..n-1", index=list(df.index)[:5])


def check_changing(case):
    from skchange.datasets import generate_changing_data as g

    n, p = case["n"], case["p"]
    if case.get("np_positions") and isinstance(case["changepoints"], list):
        case = dict(case, changepoints=[np.int64(c) for c in case["changepoints"]])
    args = dict(n=n, changepoints=case["changepoints"], means=as_arg(case["means"]), variances=as_arg(case["variances"]),
                random_state=case["seed"])
    with sut("generate_changing_data"):
        first = g(**args)
        a = first.copy()
        scribble(first)  # what the caller does with a returned frame must not leak into later calls
        b = g(**dict(args, means=as_arg(case["means"]), variances=as_arg(case["variances"])))
        cp = case["changepoints"]
        z = g(n=n, changepoints=cp, means=[np.zeros(p)], variances=[np.ones(p)], random_state=case["seed"])
    frame_checks(a, n, p, "generate_changing_data")
    frame_checks(z, n, p, "generate_changing_data (standard normal)")
    if not a.equals(b):
        raise Violation("generate_changing_data is not reproducible for identical arguments and seed")
    cpts = [cp] if isinstance(cp, int) else list(cp)
    bounds = [0] + cpts + [n]
    want = z.to_numpy().copy()
    for (s, e), m, v in zip(zip(bounds[:-1], bounds[1:]), case["exp_means"], case["exp_vars"]):
        want[s:e] = np.asarray(m) + np.sqrt(np.asarray(v)) * z.to_numpy()[s:e]
    if not np.allclose(a.to_numpy(), want, rtol=1e-12, atol=1e-12):
        raise Violation("output != mean + sqrt(variance) x standard-normal output on the requested segments",
                        changepoints=cpts, n=n, p=p)
    classes = [f"segments={min(len(cpts) + 1, 4)}", "n=1" if n == 1 else "n>1"]
    if len(set(cpts)) < len(cpts) or (cpts and cpts[0] == 0):
        classes.append("empty_segment_requested")
    return {"nontrivial": p > 1 or len(cpts) >= 1, "classes": classes}


def check_anomalous(case):
    from skchange.datasets import generate_anomalous_data as g

    n, p = case["n"], case["p"]
    an = [tuple(np.int64(v) for v in x) if case.get("np_positions") else tuple(x) for x in case["anomalies"]]
    a_arg = an[0] if case["single_tuple"] else an
    args = dict(n=n, anomalies=a_arg, means=as_arg(case["means"]), variances=as_arg(case["variances"]),
                random_state=case["seed"])
    with sut("generate_anomalous_data"):
        first = g(**args)
        a = first.copy()
        scribble(first)
        b = g(**dict(args, means=as_arg(case["means"]), variances=as_arg(case["variances"])))
        z = g(n=n, anomalies=a_arg, means=[np.zeros(p)], variances=[np.ones(p)], random_state=case["seed"])
    frame_checks(a, n, p, "generate_anomalous_data")
    if not a.equals(b):
        raise Violation("generate_anomalous_data is not reproducible for identical arguments and seed")
    want = z.to_numpy().copy()
    for (s, e), m, v in zip(an, case["exp_means"], case["exp_vars"]):
        want[s:e] = np.asarray(m) + np.sqrt(np.asarray(v)) * z.to_numpy()[s:e]
    if not np.allclose(a.to_numpy(), want, rtol=1e-12, atol=1e-12):
        raise Violation("output != mean + sqrt(variance) x standard-normal output on the anomalies and == it elsewhere",
                        anomalies=[list(x) for x in an], n=n, p=p)
    return {"nontrivial": p > 1 or len(an) >= 2, "classes": [f"anomalies={min(len(an), 4)}", "n=1" if n == 1 else "n>1"]}


def check_alternating(case):
    from skchange.datasets import generate_alternating_data as g

    k, L, p = case["n_segments"], case["segment_length"], case["p"]
    n = k * L
    args = dict(n_segments=k, segment_length=np.int64(L) if case.get("np_positions") else L, p=p, mean=case["mean"], variance=case["variance"],
                affected_proportion=case["affected_proportion"], random_state=case["seed"])
    with sut("generate_alternating_data"):
        first = g(**args)
        a = first.copy()
        scribble(first)
        b = g(**args)
        z = g(**dict(args, mean=0.0, variance=1.0))
    frame_checks(a, n, p, "generate_alternating_data")
    if not a.equals(b):
        raise Violation("generate_alternating_data is not reproducible for identical arguments and seed")
    n_aff = int(round(p * case["affected_proportion"]))
    want = z.to_numpy().copy()
    for i in range(k):
        if i % 2 == 1:
            s, e = i * L, (i + 1) * L
            want[s:e, :n_aff] = case["mean"] + np.sqrt(case["variance"]) * z.to_numpy()[s:e, :n_aff]
    if not np.allclose(a.to_numpy(), want, rtol=1e-12, atol=1e-12):
        raise Violation("alternating data: odd segments are not mean + sqrt(variance) x standard normal on the first "
                        "round(p x proportion) columns (and standard normal elsewhere)", args={k_: v for k_, v in args.items()})
    return {"nontrivial": p > 1 or k >= 2, "classes": [f"n_affected={n_aff}", "n=1" if n == 1 else "n>1"]}


# ------------------------------------------------------------------ outliers


@st.composite
def outlier_cases(draw, tier):
    n = draw(st.integers(1, 60))
    p = draw(st.integers(1, 4))
    return {"fn": "outliers", "n": n, "p": p, "k": draw(st.integers(1, n)),
            # stacked_rows: two recordings stacked with pd.concat without ignore_index - the row labels repeat
            "frame": draw(st.sampled_from(["ndarray", "appended_column", "dict_of_columns", "concat", "generator", "stacked_rows"])),
            "size": draw(st.one_of(st.sampled_from([10.0, -5.0, 0.5]), st.floats(-50, 50).filter(lambda v: abs(v) > 1e-3))),
            "X": draw(D.exact_matrix(n, p))}


def check_outliers(case):
    import pandas as pd
    from skchange.datasets import add_linspace_outliers

    n, p, k = case["n"], case["p"], case["k"]
    X = np.asarray(case["X"], dtype=float)
    cols = [f"var{j}" for j in range(p)]
    how = case.get("frame", "ndarray")
    if how == "appended_column" and p >= 2:      # multi-block frame
        df = pd.DataFrame(X[:, :-1].copy(), columns=cols[:-1])
        df[cols[-1]] = X[:, -1].copy()
    elif how == "dict_of_columns":
        df = pd.DataFrame({c: X[:, j].copy() for j, c in enumerate(cols)})
    elif how == "concat" and p >= 2:
        df = pd.concat([pd.DataFrame(X[:, :1].copy(), columns=cols[:1]), pd.DataFrame(X[:, 1:].copy(), columns=cols[1:])], axis=1)
    elif how == "generator":
        from skchange.datasets import generate_changing_data
        df = generate_changing_data(n, [], [np.zeros(p)], [np.ones(p)], 7)
        X = df.to_numpy().copy()
    elif how == "stacked_rows" and n >= 2:
        df = pd.concat([pd.DataFrame(X[: n // 2].copy(), columns=cols), pd.DataFrame(X[n // 2:].copy(), columns=cols)])
    else:
        df = pd.DataFrame(X.copy(), columns=cols)
    labels_before = list(df.index)
    with sut("add_linspace_outliers"):
        out = add_linspace_outliers(df, k, case["size"])
    if how == "stacked_rows" and n >= 2:
        if not isinstance(out, pd.DataFrame) or out.shape != (n, p) or list(out.index) != labels_before:
            raise Violation("add_linspace_outliers: output is not the n x p frame with the row labels it was given",
                            shape=list(getattr(out, "shape", [])), n=n, p=p)
    else:
        frame_checks(out, n, p, "add_linspace_outliers")
    diff = out.to_numpy() - X
    changed = np.flatnonzero(np.any(diff != 0, axis=1))
    if len(changed) != k:
        raise Violation("add_linspace_outliers did not change exactly n_outliers rows", n=n, p=p, n_outliers=k,
                        changed_rows=changed.tolist())
    if not np.allclose(diff[changed], case["size"], rtol=1e-12, atol=1e-12):
        raise Violation("outlier rows were not shifted by outlier_size in every column", rows=changed.tolist(),
                        diff=diff[changed].tolist())
    if k >= 2 and (changed[0] != 0 or changed[-1] != n - 1):
        raise Violation("outliers do not run from the first to the last row", rows=changed.tolist(), n=n)
    if k == 1 and changed[0] != 0:
        raise Violation("a single outlier is not placed on the first row", rows=changed.tolist())
    gaps = np.diff(changed)
    if len(gaps) and gaps.max() - gaps.min() > 1:
        raise Violation("outlier rows are not evenly spaced (gaps differ by more than 1)", rows=changed.tolist())
    return {"nontrivial": p > 1 or k >= 2, "classes": [f"p={p}", f"frame={how}"]}


# ------------------------------------------------------------------ invalid arguments


@st.composite
def invalid_cases(draw, tier):
    n = draw(st.integers(4, 40))
    p = draw(st.integers(1, 3))
    kind = draw(st.sampled_from(["changing_wrong_means", "changing_wrong_vars", "changing_cpt_negative",
                                 "changing_cpt_beyond", "anomalous_wrong_means", "anomalous_wrong_vars",
                                 "anomalous_start_negative", "anomalous_end_beyond", "anomalous_empty",
                                 "anomalous_reversed", "anomalous_bad_tuple",
                                 # a wrong number of parameters that *divides* the number of segments / anomalies ("the two states" for four segments)
                                 "changing_dividing_count", "anomalous_dividing_count",
                                 # an invalid anomaly whose own parameters are the baseline ones (mean 0, variance 1: the null run of a power study)
                                 "anomalous_invalid_with_baseline_parameters"]))
    return {"kind": kind, "n": n, "p": p, "pos": draw(st.integers(1, 30)), "seed": draw(st.integers(0, 1000))}


def check_invalid(case):
    from skchange.datasets import generate_anomalous_data, generate_changing_data

    n, p, kind, pos = case["n"], case["p"], case["kind"], case["pos"]
    vec = [np.full(p, 1.5)]
    one = [np.ones(p)]
    c1, c2 = max(1, n // 3), max(2, 2 * n // 3)
    if kind == "changing_wrong_means":
        call = lambda: generate_changing_data(n, [c1, c2], [np.zeros(p), np.ones(p)], one, case["seed"])  # noqa: E731
    elif kind == "changing_wrong_vars":
        call = lambda: generate_changing_data(n, [c1, c2], vec, [np.ones(p)] * 4, case["seed"])  # noqa: E731
    elif kind == "changing_cpt_negative":
        call = lambda: generate_changing_data(n, [-pos], vec, one, case["seed"])  # noqa: E731
    elif kind == "changing_cpt_beyond":
        call = lambda: generate_changing_data(n, [c1, n - 1 + pos], vec, one, case["seed"])  # noqa: E731
    elif kind == "anomalous_wrong_means":
        call = lambda: generate_anomalous_data(n, [(0, 1), (2, 3)], [np.zeros(p)] * 3, one, case["seed"])  # noqa: E731
    elif kind == "anomalous_wrong_vars":
        call = lambda: generate_anomalous_data(n, [(0, 1), (2, 3)], vec, [np.ones(p)] * 3, case["seed"])  # noqa: E731
    elif kind == "anomalous_start_negative":
        call = lambda: generate_anomalous_data(n, [(-pos, 2)], vec, one, case["seed"])  # noqa: E731
    elif kind == "anomalous_end_beyond":
        call = lambda: generate_anomalous_data(n, [(1, n + pos)], vec, one, case["seed"])  # noqa: E731
    elif kind == "anomalous_empty":
        call = lambda: generate_anomalous_data(n, [(2, 2)], vec, one, case["seed"])  # noqa: E731
    elif kind == "anomalous_reversed":
        call = lambda: generate_anomalous_data(n, [(3, 1)], vec, one, case["seed"])  # noqa: E731
    elif kind == "changing_dividing_count":
        k_seg = (4, 6)[pos % 2]
        n = max(n, 2 * k_seg)
        cps = [int(n * (i + 1) / k_seg) for i in range(k_seg - 1)]
        wrong = [np.full(p, float(i)) for i in range(2 if k_seg == 4 else 3)]
        call = (lambda: generate_changing_data(n, cps, wrong, one, case["seed"])) if pos % 3 else \
            (lambda: generate_changing_data(n, cps, vec, [np.full(p, 1.0 + i) for i in range(len(wrong))], case["seed"]))  # noqa: E731
    elif kind == "anomalous_dividing_count":
        n = max(n, 12)
        an = [(0, 2), (3, 5), (6, 8), (9, 11)]
        call = lambda: generate_anomalous_data(n, an, [np.zeros(p), np.full(p, 5.0)], one, case["seed"])  # noqa: E731
    elif kind == "anomalous_invalid_with_baseline_parameters":
        bad = [(-pos, 2), (1, n + pos), (2, 2), (3, 1)][pos % 4]
        zero, unit = ([0.0], [1.0]) if pos % 2 else ([np.zeros(p)], [np.ones(p)])
        call = lambda: generate_anomalous_data(n, [bad], zero, unit, case["seed"])  # noqa: E731
    else:
        call = lambda: generate_anomalous_data(n, [(0, 1, 2)], vec, one, case["seed"])  # noqa: E731
    try:
        with sut(f"generator with inconsistent arguments ({kind})", allowed=(ValueError,)):
            call()
    except ValueError:
        return {"nontrivial": True, "classes": [kind]}
    raise Violation("inconsistent generator arguments were accepted (ValueError expected)", kind=kind, n=n, p=p, pos=pos)


@st.composite
def generated_inconsistent_cases(draw, tier):
    """A valid argument set (the strategies of the facets above) in which ONE thing is made inconsistent: one position of
    several, at a generated place in the list, or the number of means / variances (any count other than 1 and the right one)."""
    fn = draw(st.sampled_from(["changing", "anomalous"]))
    what = draw(st.sampled_from(["position", "position", "n_means", "n_variances"]))
    where = draw(st.integers(0, 7))
    how = draw(st.integers(0, 7))
    delta = draw(st.integers(1, 40))
    wrong_count = draw(st.integers(2, 9))
    base = draw(changing_cases(tier) if fn == "changing" else anomalous_cases(tier))
    return {"base": base, "what": what, "where": where, "how": how, "delta": delta, "wrong_count": wrong_count}


def check_generated_inconsistent(case):
    from skchange.datasets import generate_anomalous_data, generate_changing_data

    base = case["base"]
    n, p, fn = base["n"], base["p"], base["fn"]
    means, variances = as_arg(base["means"]), as_arg(base["variances"])
    if fn == "changing":
        positions = base["changepoints"] if isinstance(base["changepoints"], list) else [base["changepoints"]]
        positions = list(positions)
        k = len(positions) + 1
    else:
        positions = [list(a) for a in base["anomalies"]]
        k = len(positions)
    what = case["what"]
    label = what
    if what == "position":
        if fn == "changing":
            bad = -case["delta"] if case["how"] % 2 else n - 1 + case["delta"]
            label = "changepoint_negative" if case["how"] % 2 else "changepoint_beyond"
            if positions:
                positions[case["where"] % len(positions)] = bad
            else:
                positions = [bad]
                k = 2
        else:
            kinds = ["start_negative", "end_beyond", "empty", "reversed", "three_entries", "one_entry"]
            label = kinds[case["how"] % len(kinds)]
            s0, e0 = (positions[case["where"] % len(positions)] if positions else (0, 1))
            bad = {"start_negative": [-case["delta"], e0], "end_beyond": [s0, n + case["delta"]], "empty": [s0, s0],
                   "reversed": [e0, s0], "three_entries": [s0, e0, e0], "one_entry": [s0]}[label]
            if positions:
                positions[case["where"] % len(positions)] = bad
            else:
                positions = [bad]
                k = 1
        # parameters stay consistent with the (possibly grown) number of segments: only the position is wrong
        if not isinstance(means, list) or len(means) not in (1, k):
            means = [np.zeros(p)]
        if not isinstance(variances, list) or len(variances) not in (1, k):
            variances = [np.ones(p)]
    else:
        m = case["wrong_count"]
        if m == k:
            m = k + 1
        vals = [np.full(p, 1.0 + i) for i in range(m)]
        if what == "n_means":
            means = vals
        else:
            variances = vals
        label = f"{what}:{'divides' if k % m == 0 else 'multiple' if m % max(k, 1) == 0 else 'other'}"
    pos_arg = [tuple(a) for a in positions] if fn == "anomalous" else positions
    if base.get("np_positions"):
        pos_arg = [tuple(np.int64(v) for v in a) for a in positions] if fn == "anomalous" else [np.int64(v) for v in positions]
    try:
        with sut(f"generate_{fn}_data with one inconsistent argument ({label})", allowed=(ValueError,)):
            if fn == "changing":
                generate_changing_data(n, pos_arg, means, variances, base["seed"])
            else:
                generate_anomalous_data(n, pos_arg, means, variances, base["seed"])
    except ValueError:
        return {"nontrivial": True, "classes": [fn, label, f"k={min(k, 4)}", f"at={'last' if positions and case['where'] % len(positions) == len(positions) - 1 else 'other'}"]}
    raise Violation("inconsistent generator arguments were accepted (ValueError expected)", fn=fn, label=label, n=n, p=p,
                    positions=positions, n_means=len(means) if isinstance(means, list) else 1,
                    n_variances=len(variances) if isinstance(variances, list) else 1)


FACETS = [
    Facet(name="changing_data", check=check_changing, strategy=changing_cases,
          rule=("generate_changing_data: n 1..60, p 1..4, 0..5 non-decreasing changepoints incl. repeats and 0 (int or list), scalar / shared "
                "vector / per-segment means and variances, seeds; non-trivial = p>1 or >= 2 segments"),
          n_quick=500, n_thorough=8000, shards_quick=4, shards_thorough=8),
    Facet(name="anomalous_data", check=check_anomalous, strategy=anomalous_cases,
          rule=("generate_anomalous_data: disjoint anomalies incl. adjacent / length-1 / touching 0 and n, listed in any order (tuple or list), same "
                "parameter forms; non-trivial = p>1 or >= 2 anomalies"),
          n_quick=500, n_thorough=8000, shards_quick=4, shards_thorough=8),
    Facet(name="alternating_data", check=check_alternating, strategy=alternating_cases,
          rule=("generate_alternating_data: 1..6 segments of length 1..12, p 1..5, mean, variance, affected proportions; "
                "non-trivial = p>1 or >= 2 segments"),
          n_quick=500, n_thorough=8000, shards_quick=4, shards_thorough=8),
    Facet(name="linspace_outliers", check=check_outliers, strategy=outlier_cases,
          rule=("add_linspace_outliers on n x p frames built from an array, a dict of columns, with an appended column, by concat (multi-block) or by a generator, n_outliers 1..n, sizes; exactly n_outliers distinct evenly spaced "
                "rows from first to last shifted by outlier_size in every column; non-trivial = p>1 or >= 2 outliers"),
          n_quick=500, n_thorough=8000, shards_quick=4, shards_thorough=8),
    Facet(name="inconsistent_arguments", check=check_invalid, strategy=invalid_cases,
          rule=("wrong number of means / variances, negative or too large changepoints, anomaly start < 0 or end > n, empty, "
                "reversed or 3-element anomalies; ValueError expected; every case non-trivial"),
          n_quick=300, n_thorough=3000, shards_quick=4, shards_thorough=8),
    Facet(name="generated_inconsistent", check=check_generated_inconsistent, strategy=generated_inconsistent_cases,
          rule=("a valid argument set of generate_changing_data / generate_anomalous_data (the strategies of the first two facets: any number of positions, "
                "any order, scalar / shared / per-segment parameters, Python or NumPy integer positions) in which ONE thing is made inconsistent: one "
                "position of several at a generated place (changepoint negative or beyond n - 1; anomaly start < 0, end > n, empty, reversed, with three "
                "entries or one), or the number of means / variances (any count in 2..9 other than the right one, dividing it or not); ValueError "
                "expected; every case non-trivial"),
          n_quick=400, n_thorough=4000, shards_quick=4, shards_thorough=8),
]

"""C16 - MVCAPA's affected columns are the optimal sparse subset for each anomaly."""

import math

import numpy as np
from hypothesis import strategies as st

from checks import common as K
from framework.core import Facet, Violation, sut
from oracles import reference as ref
from strategies import data as D

PROPERTY_ID = "C16"
TECHNIQUE = "Hypothesis-generated multivariate data/penalties/savings vs. sorted-saving argmax model (fresh saving instance, sparse penalty from its closed form) + positional labelling of transform"
ASSUMPTIONS = [
    "collective anomalies: sparse penalty (2 s log n, 2 s log(k p)) at the collective scale, re-implemented from the formula; point anomalies: the configured point penalty (built-in family values are inputs, pinned by C15; user callables return generated values)",
    "exact order/size equality is demanded only when column savings and the penalised objective are separated by more than the rounding bound of the savings (16 B + 1e-9 relative); otherwise the order-free consequences are asserted",
]

SAVINGS = [None, {"cls": "L2Saving"}, {"cls": "L2Cost", "param": 0.0},
           {"cls": "Saving", "baseline_cost": {"cls": "L2Cost", "param": 0.0}},
           {"cls": "Saving", "baseline_cost": {"cls": "GaussianVarCost", "param": {"tuple": [0.0, 1.0]}}}]


def n_params(spec):
    if spec is None:
        return 1
    if spec["cls"] == "Saving":
        return n_params(spec["baseline_cost"])
    return 2 if spec["cls"] == "GaussianVarCost" else 1


@st.composite
def point_penalty_strategy(draw, p):
    """Built-in family name or a user callable {"penalty": {alpha, betas}} with rank-dependent betas."""
    kind = draw(st.sampled_from(["sparse", "combined", "intermediate", "dense", "callable"]))
    if kind != "callable":
        return kind
    betas = [draw(st.sampled_from([0.0, 0.5, 1.0, 2.0, 4.0, 8.0])) for _ in range(p)]
    if draw(st.booleans()):
        betas = sorted(betas, reverse=True)  # large first term: several columns needed to pay for it
    return {"penalty": {"alpha": draw(st.sampled_from([0.0, 1.0, 3.0])), "betas": betas, "per_param": draw(st.booleans())}}


@st.composite
def cases(draw, tier):
    p = draw(st.integers(2, 6))
    coll = draw(st.sampled_from(SAVINGS + ["baselines"]))
    baselines = None
    if coll == "baselines":
        # a known baseline per column, some of them exactly 0 (sensors that were zeroed) and some not; the data are on these levels
        baselines = [0.0 if j % 2 == 0 else 0.8 * (1 + j // 2) for j in range(p)]
        coll = {"cls": "L2Cost", "param": {"array": baselines}}
    ms = K.scorer_min_size(coll, p)
    msl = draw(st.integers(max(2, ms), max(2, ms) + 2))
    n = draw(st.integers(max(msl, 6), 50))
    exact = draw(st.sampled_from([False, False, True]))
    # structural choices first, bulk data last (see strategies/data.py)
    fams = ["combined", "dense", "sparse", "intermediate"]
    cpen = draw(st.sampled_from(fams + ["callable", "wrapping_callable"]))
    if cpen == "wrapping_callable":
        # a user penalty that calls a built-in one and scales what it got back *in place*
        cpen = {"penalty": {"wrap": draw(st.sampled_from(["sparse", "dense", "combined"])), "factor": draw(st.sampled_from([0.5, 2.0, 0.25]))}}
    weak = None
    if cpen == "callable":
        # a lenient user penalty: anomalies are detected although no single column exceeds the sparse penalty
        cpen = {"penalty": {"alpha": draw(st.sampled_from([0.5, 1.0, 2.0, 0.0])), "betas": [draw(st.sampled_from([0.0, 0.1, 0.5]))] * p}}
        weak = draw(st.sampled_from([0.15, 0.3, 0.6]))
    craft = draw(st.integers(0, 5)) == 0
    tiny = baselines is None and (coll is None or "Gaussian" not in str(coll)) and draw(st.integers(0, 5)) == 0
    if craft:
        # noise-free bump: one dominant column and one column whose saving is just above the sparse penalty
        L = draw(st.integers(max(msl, 3), max(msl, min(n - 1, 12))))
        a0 = draw(st.integers(0, n - L))
        big = draw(st.sampled_from([30.0, 100.0, 300.0]))
        eps_rel = draw(st.sampled_from([1e-3, 1e-2, 0.1, -1e-2]))
        cscale = draw(st.sampled_from([1.0, 0.5, 2.0]))
        cpen = "dense"
    case = {"params": {"collective_saving": coll, "point_saving": draw(st.sampled_from([None, {"cls": "L2Cost", "param": 0.0}])),
                       "collective_penalty": cpen,
                       "collective_penalty_scale": cscale if craft else draw(st.sampled_from([1.0, 0.5, 2.0, 0.1, 0.0, 0.25])),
                       "point_penalty": draw(point_penalty_strategy(p)),
                       "point_penalty_scale": draw(st.sampled_from([1.0, 0.5, 2.0, 0.1])),
                       "min_segment_length": msl, "max_segment_length": draw(st.sampled_from([1000, msl + 5, msl]))},
            "X": None, "index": draw(D.index_spec()), "columns": draw(st.sampled_from(D.COLUMN_KINDS)),
            # how the data reach the detector: the same frame throughout; a frame fitted under the same labels in another
            # order; a buffer (array or frame) that held other data during an earlier predict and was refilled in place
            "mode": draw(st.sampled_from(["same", "same", "permuted_labels", "refill_array", "refill_frame", "revised", "repeated"])),
            "perm_seed": draw(st.integers(0, 10**6)),
            # one callable *object* passed for both penalties (the point penalty then has to be evaluated with the point
            # saving's number of parameters, the collective one with the collective saving's)
            "same_callable": draw(st.integers(0, 3)) == 0,
            # integer-valued readings of the size of event counts, handed over as an int64 frame
            "counts_int64": exact and not craft and weak is None and baselines is None and not tiny and draw(st.integers(0, 3)) == 0}
    if case["same_callable"]:
        pp = case["params"]["point_penalty"] if isinstance(case["params"]["point_penalty"], dict) else \
            {"penalty": {"alpha": 1.0, "betas": [2.0] * p, "per_param": True}}
        pp["penalty"]["betas"] = [pp["penalty"]["betas"][0]] * p if craft else pp["penalty"]["betas"]
        case["params"]["point_penalty"] = pp
        case["params"]["collective_penalty"] = pp
        case["params"]["point_penalty_scale"] = case["params"]["collective_penalty_scale"]
    if craft:
        X = [[0.0] * p for _ in range(n)]
        beta = 2 * cscale * math.log(n_params(coll) * p)
        for i in range(a0, a0 + L):
            X[i][0] = big
            if coll is None or "Gaussian" not in str(coll):
                X[i][1] = math.sqrt(max(beta * (1 + eps_rel), 0.0) / L)
    else:
        X, meta = draw(D.structured_matrix(n, p, exact=exact, max_shifts=0, max_spikes=3, max_bumps=3,
                                           boundary_positions=(0, n - 1)))
        # distinct magnitudes per column so that savings are rarely tied
        for i in range(n):
            for j in range(p):
                X[i][j] = X[i][j] * (1.0 + 0.13 * j)
        if weak is not None:
            X = [[v * weak for v in row] for row in X]
        if case["counts_int64"]:
            X = [[float(round((v / (1.0 + 0.13 * j) + 10) * 2e7 * (1 + j))) for j, v in enumerate(row)] for row in X]
    if baselines is not None:
        X = [[v + baselines[j] for j, v in enumerate(row)] for row in X]
    if tiny:
        # unstandardised low-noise data (sd 2e-5) with the penalty scales set in proportion to the noise variance (x 4e-10): the same
        # problem in other units - per-component penalties of the order 1e-9 are meaningful thresholds here
        X = [[v * 2e-5 for v in row] for row in X]
        for key in ("collective_penalty_scale", "point_penalty_scale"):
            case["params"][key] = case["params"][key] * 4e-10
        case["tiny_units"] = True
    case["X"] = X
    return case


class _BaselineL2Saving:
    """Reference for the saving of an L2 cost with a known mean per column, from its definition: the cost at the baseline minus
    the cost at the optimal mean = (e - s) * (mean(X[s:e]) - baseline)^2, per column (long double)."""

    def __init__(self, baselines):
        self.mu = np.asarray(baselines, dtype=np.longdouble)

    def fit(self, X):
        self.X = np.asarray(X, dtype=np.longdouble)
        return self

    def evaluate(self, cuts):
        return np.asarray([((e - s) * (self.X[s:e].mean(axis=0) - self.mu) ** 2).astype(float) for s, e in np.asarray(cuts)])


def check(case):
    import pandas as pd
    from skchange.anomaly_detectors import mvcapa as M
    from skchange.anomaly_scores import to_saving

    params = case["params"]
    X = np.asarray(case["X"], dtype=float)
    n, p = X.shape
    mode = case.get("mode", "same")
    colkind = case["columns"]
    if mode == "permuted_labels" and colkind in ("mixed", "duplicated"):
        colkind = "unsorted"
    labels = D.column_labels(colkind, p)
    cols = pd.RangeIndex(p) if colkind == "default" else pd.Index(labels)
    Xc = X.astype(np.int64) if case.get("counts_int64") else X  # whole-numbered readings may arrive as integers
    df = pd.DataFrame(Xc, index=D.build_index(case["index"], n), columns=cols)
    with sut("MVCAPA.fit/predict/transform"):
        kwargs = {k_: K.build(v_) for k_, v_ in params.items()}
        if case.get("same_callable"):
            kwargs["point_penalty"] = kwargs["collective_penalty"]  # the very same callable object for both
        det = K.registry()["MVCAPA"](**kwargs)
        if mode == "permuted_labels":
            # same numbers in the same positions, labelled with the same names in another order
            perm = np.random.default_rng(case["perm_seed"]).permutation(p)
            if np.array_equal(perm, np.arange(p)):
                perm = np.roll(perm, 1)
            det.fit(pd.DataFrame(Xc, index=df.index, columns=[labels[j] for j in perm]))
            y = det.predict(df)
            dense = det.transform(df)
        elif mode in ("refill_array", "refill_frame"):
            det.fit(df)
            other = np.roll(Xc, 1, axis=1)[::-1].copy() if case["perm_seed"] % 2 else np.roll(Xc, 1, axis=1).copy()
            buf = other if mode == "refill_array" else pd.DataFrame(other, index=df.index.copy(), columns=cols)
            det.predict(buf)
            if mode == "refill_array":
                buf[:] = Xc
            else:
                buf.iloc[:, :] = Xc
            y = det.predict(buf)
            dense = det.transform(buf)
            if mode == "refill_array":
                dense.columns = [f"labels_{c}" for c in df.columns]  # arrays carry default labels
        elif mode in ("revised", "repeated"):
            # the detector has seen an earlier version of the series (some interior rows were revised since - recalibration, an
            # imputed gap), as another object; or it simply predicts several times
            det.fit(df)
            earlier = Xc.copy()
            if mode == "revised":
                # one or two readings inside the strongest event were different in the earlier version (a removed glitch)
                r_ = int(np.argmax(np.abs(X).max(axis=1)))
                for rr in ((r_, r_ + 1) if case["perm_seed"] % 2 else (r_,)):
                    if 0 <= rr < n:
                        earlier[rr] = earlier[rr][::-1] * 0
            det.predict(pd.DataFrame(earlier, index=df.index.copy(), columns=cols))
            det.transform(pd.DataFrame(earlier, index=df.index.copy(), columns=cols))
            y = det.predict(df)
            dense = det.transform(df)
        else:
            det.fit(df)
            y = det.predict(df)
            dense = det.transform(df)
    _, events = K.sparse_events(y)
    icols = [[int(c) for c in np.asarray(v).reshape(-1)] for v in y["icolumns"].tolist()]
    if params["collective_saving"] and isinstance(params["collective_saving"].get("param"), dict) and "array" in params["collective_saving"]["param"]:
        cs = _BaselineL2Saving(params["collective_saving"]["param"]["array"]).fit(X)
    else:
        cs = to_saving(K.build(params["collective_saving"]) if params["collective_saving"] else K.build({"cls": "L2Saving"})).fit(X)
    ps = to_saving(K.build(params["point_saving"]) if params["point_saving"] else K.build({"cls": "L2Saving"})).fit(X)
    kc = n_params(params["collective_saving"])
    kp = n_params(params["point_saving"])
    scale = params["collective_penalty_scale"]
    sparse_alpha, sparse_beta = 2 * scale * math.log(n), 2 * scale * math.log(kc * p)
    if isinstance(params["point_penalty"], dict):
        pp = params["point_penalty"]["penalty"]
        p_alpha = pp["alpha"] * params["point_penalty_scale"]
        p_betas = np.asarray(pp["betas"], dtype=float) * params["point_penalty_scale"] * (kp if pp.get("per_param") else 1)
    else:
        p_alpha, p_betas = M.capa_penalty_factory(params["point_penalty"])(n, p, kp, params["point_penalty_scale"])
    proper = False
    margin_cases = 0
    for (a, b), got in zip(events, icols):
        if b - a == 1:
            sv = np.asarray(ps.evaluate(np.array([[a, b]])))[0]
            betas = np.asarray(p_betas, dtype=float)
        else:
            sv = np.asarray(cs.evaluate(np.array([[a, b]])))[0]
            betas = np.full(p, sparse_beta)
        order = np.argsort(-sv, kind="stable")
        obj = np.cumsum(sv[order] - betas)
        kstar = int(np.argmax(obj)) + 1
        # rounding of a saving computed from prefix sums (error model) - far below any genuine gain
        # (relative to the savings and penalties themselves: data may be in tiny units)
        tol = 16 * ref.error_bound(n, max(D.max_abs(case["X"]), 1e-300)) + 1e-9 * (float(np.abs(sv).max()) + float(np.abs(betas).max()))
        if not got or len(set(got)) != len(got) or any(c < 0 or c >= p for c in got):
            raise Violation("affected columns are empty, repeated or out of range", anomaly=[a, b], icolumns=got)
        # order-free consequences
        gs = sv[got]
        if np.any(np.diff(gs) > tol):
            raise Violation("affected columns are not listed in order of decreasing saving", anomaly=[a, b], icolumns=got,
                            savings=sv.tolist())
        excluded = [j for j in range(p) if j not in got]
        if excluded and sv[excluded].max() > gs.min() + tol:
            raise Violation("an excluded column has a larger saving than an included one", anomaly=[a, b], icolumns=got,
                            savings=sv.tolist())
        if obj[len(got) - 1] < obj.max() - tol:
            raise Violation("the number of affected columns does not maximise cumulative saving minus the sparse penalty",
                            anomaly=[a, b], icolumns=got, k_reported=len(got), k_optimal=kstar, objective=obj.tolist(),
                            savings=sv.tolist())
        sorted_sv = sv[order]
        gaps_ok = p == 1 or float(np.min(-np.diff(sorted_sv))) > tol
        obj_sorted = np.sort(obj)[::-1]
        unique_max = len(obj) == 1 or obj_sorted[0] - obj_sorted[1] > tol
        if gaps_ok and unique_max:
            margin_cases += 1
            if got != [int(c) for c in order[:kstar]]:
                raise Violation("affected columns differ from the k* columns with the largest savings in decreasing order",
                                anomaly=[a, b], icolumns=got, expected=[int(c) for c in order[:kstar]], savings=sv.tolist())
        if 1 <= len(got) < p:
            proper = True
    want = ref.dense_subset_labels([(a, b, c) for (a, b), c in zip(events, icols)], n, p)
    if not np.array_equal(dense.to_numpy(), want) or list(dense.columns) != [f"labels_{c}" for c in df.columns]:
        raise Violation("transform does not mark exactly the affected columns on the anomaly's rows",
                        events=[list(e) for e in events], icolumns=icols, got=dense.to_numpy().tolist())
    classes = (["baseline_vector_with_exact_zeros"] if isinstance(cs, _BaselineL2Saving) else []) + (["tiny_units"] if case.get("tiny_units") else [])
    if events:
        classes.append("has_anomaly")
    if any(b - a == 1 for a, b in events):
        classes.append("point_anomaly")
    if proper:
        classes.append("proper_subset")
    if margin_cases:
        classes.append("margin_satisfied")
    classes.append(f"mode={mode}")
    if case.get("same_callable"):
        classes.append("same_callable_object_for_both_penalties")
    if case.get("counts_int64"):
        classes.append("int64_counts")
    classes.append("c_pen=" + (params["collective_penalty"] if isinstance(params["collective_penalty"], str) else
                               ("wrapping_callable" if "wrap" in params["collective_penalty"]["penalty"] else "callable")))
    classes.append("p_pen=" + (params["point_penalty"] if isinstance(params["point_penalty"], str) else "callable"))
    return {"nontrivial": proper, "classes": classes}


def default_cells(tier):
    """MVCAPA with its DEFAULT hyper-parameters (combined / sparse penalties, scales 2, msl 2, max_segment_length 1000; 1-2 variants)
    on median-centred realistic series of 100-300 samples with 2..6 columns (strategies.data.realistic_series, seeded)."""
    base = {"collective_saving": None, "point_saving": None, "collective_penalty": "combined", "collective_penalty_scale": 2.0,
            "point_penalty": "sparse", "point_penalty_scale": 2.0, "min_segment_length": 2, "max_segment_length": 1000}
    variants = ({}, {"max_segment_length": 40}, {"collective_penalty": "sparse"}, {"collective_penalty_scale": 1.0, "point_penalty_scale": 1.0})
    for seed in range(16 if tier == "quick" else 48):
        for v in variants[: 2 if tier == "quick" else 4]:
            yield {"seed": 26000 + seed, "n": (100, 180, 300)[seed % 3] + seed, "p": 2 + seed % 5, "params": dict(base, **v)}
    # thousands of anomalies in ONE predict (more than 4096 / 8192: implementations that evaluate the reported anomalies in batches):
    # a glitch every third sample, in a column that rotates, clearly above the point penalty
    for n in ((12_900,) if tier == "quick" else (12_900, 24_700)):
        yield {"seed": 26900, "n": n, "p": 3, "kind": "many_glitches", "params": dict(base, max_segment_length=20)}


def check_default(case):
    if case.get("kind") == "many_glitches":
        rng = np.random.Generator(np.random.PCG64(case["seed"]))
        X, kind = 0.1 * rng.standard_normal((case["n"], case["p"])), "many_glitches"
        rows = np.arange(1, case["n"] - 1, 3)
        X[rows, rows // 3 % case["p"]] += 9.0 + (rows % 7)
        X[rows[::5], (rows[::5] // 3 + 1) % case["p"]] += 7.0  # every fifth glitch shows in a second column as well
    else:
        X, kind = D.realistic_series(case["seed"], case["n"], case["p"])
    X = X - np.median(X, axis=0)
    info = check({"params": case["params"], "X": X.tolist(), "index": {"kind": "range0"}, "columns": "strings", "mode": "same", "perm_seed": 0})
    info["classes"] = list(info["classes"]) + [f"data={kind}"]
    return info


FACETS = [
    Facet(name="affected_columns", check=check, strategy=cases,
          rule=("p in 2..6, n<=50, bumps and spikes on generated column subsets with distinct per-column magnitudes (also weak dense anomalies under a lenient user penalty callable, and crafted noise-free anomalies with one dominant and one marginal column), all collective "
                "penalty families x scales, point penalty from all four families or a user callable with rank-dependent betas, savings L2Saving / Saving(L2Cost(0)) / Saving(GaussianVarCost); "
                "DataFrame input with generated index and column labels (8 kinds), also fitted under the same labels in another order, and array / frame buffers refilled in place after an earlier predict; non-trivial = an anomaly whose subset is proper (1 <= k* < p)"),
          n_quick=640, n_thorough=10000, shards_quick=8, shards_thorough=16),
    Facet(name="default_settings", kind="enumerate", enumerate=default_cells, check=check_default, exhaustive=True, time_limit=300,
          rule=("MVCAPA with its default hyper-parameters (variants: max_segment_length 40, sparse collective penalty, scales 1) on median-centred realistic "
                "series of 100-350 samples with 2..6 columns (seeded); same sorted-saving model; 32 cells (thorough: 192), non-trivial = proper subset"),
          shards_quick=16, shards_thorough=16, max_samples=1),
]

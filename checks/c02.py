"""C02 - PELT returns an exact minimiser of the penalised segmentation cost."""

import math

import numpy as np
from hypothesis import strategies as st

from checks import common as K
from framework.core import Facet, Violation, sut
from oracles import reference as ref
from strategies import data as D

PROPERTY_ID = "C02"
TECHNIQUE = "Hypothesis-generated costs/data vs. un-pruned optimal-partitioning reference model"
ASSUMPTIONS = [
    "the oracle is the O(n^2) un-pruned recursion, self-tested against exhaustive enumeration of all segmentations (n<=9) at start-up",
    "built-in costs: the cost table given to the oracle comes from a fresh instance of the same cost class (cost values are C01's business); optimality is asserted only where that table satisfies the split inequality",
    "sizes: table costs n<=16, built-in costs n<=40 (quick) / 100 (thorough)",
]


# ------------------------------------------------------------------ table families


def table_from_case(case):
    n = case["n"]
    fam = case["family"]
    T = np.zeros((n + 1, n + 1))
    if fam == "pair":
        W = np.zeros((n, n))
        for i, j, w in case["weights"]:
            if i != j:
                W[min(i, j) % n, max(i, j) % n] += w
        # C(s,e) = sum_{s<=i<j<e} W[i,j]
        for s in range(n + 1):
            for e in range(s + 1, n + 1):
                T[s, e] = W[s:e, s:e].sum()
    elif fam == "closure":
        raw = np.asarray(case["raw"], dtype=float)
        for L in range(1, n + 1):
            for s in range(0, n - L + 1):
                e = s + L
                v = raw[s][e]
                for k in range(s + 1, e):
                    v = max(v, T[s, k] + T[k, e])
                T[s, e] = v
    elif fam == "l2int":
        x = np.asarray(case["x"], dtype=float)
        cs = np.concatenate(([0.0], np.cumsum(x)))
        cs2 = np.concatenate(([0.0], np.cumsum(x * x)))
        for s in range(n + 1):
            for e in range(s + 1, n + 1):
                T[s, e] = (cs2[e] - cs2[s]) - (cs[e] - cs[s]) ** 2 / (e - s)
    else:
        raise ValueError(fam)
    return T


@st.composite
def table_cases(draw, tier):
    msl = draw(st.integers(1, 4))
    n = draw(st.integers(2 * msl, 16))
    fam = draw(st.sampled_from(["pair", "closure", "l2int"]))
    case = {"n": n, "msl": msl, "family": fam, "k": draw(st.sampled_from([1, 2, 0, 3, 5, 8, 0.5, 1.3, 2.7])),
            "int_output": fam != "l2int" and draw(st.sampled_from([False, False, True])),
            # the user's cost memoises its result arrays (the same array object is returned for the same batch of cuts) or
            # hands out read-only arrays: the arrays belong to the cost, the detector must not write into them
            "memo": draw(st.sampled_from([None, None, "cache", "readonly"]))}
    if fam == "pair":
        m = draw(st.integers(0, 2 * n))
        case["weights"] = [
            [draw(st.integers(0, n - 1)), draw(st.integers(0, n - 1)), draw(st.integers(1, 4))]
            for _ in range(m)
        ]
    elif fam == "closure":
        # negative entries are fine: the closure is super-additive for any raw table
        flat = draw(st.lists(st.integers(-3, 5), min_size=(n + 1) * (n + 1), max_size=(n + 1) * (n + 1)))
        case["raw"] = [[flat[s * (n + 1) + e] for e in range(n + 1)] for s in range(n + 1)]
    else:
        case["x"] = draw(st.lists(st.integers(-4, 4), min_size=n, max_size=n))
    return case


def unpruned_evaluations(n, msl):
    total = msl  # the initial batch of no-changepoint prefixes
    for t in range(2 * msl - 1, n):
        total += t - 2 * msl + 3
    return total


def check_against_oracle(costfn, n, msl, penalty, scores, cpts, assert_optimal=True, scale=1.0, rel=1e-9):
    tol = rel * (1.0 + scale)
    cpts = [int(c) for c in cpts]
    bounds = [0] + cpts + [n]
    if any(b - a < msl for a, b in zip(bounds[:-1], bounds[1:])) or cpts != sorted(set(cpts)):
        raise Violation("changepoints are not strictly increasing with all segments >= min_segment_length",
                        changepoints=cpts, msl=msl, n=n)
    if len(scores) != n:
        raise Violation("scores do not have one entry per sample", got=len(scores), n=n)
    seg_total = ref.segmentation_cost(costfn, cpts, n, penalty)
    if not math.isclose(seg_total, scores[-1], rel_tol=0, abs_tol=tol):
        raise Violation("final score differs from the penalised cost of the returned segmentation",
                        final_score=float(scores[-1]), returned_segmentation_cost=float(seg_total),
                        changepoints=cpts)
    if not assert_optimal:
        return None
    F, _ = ref.optimal_partitioning(costfn, n, penalty, msl)
    for t in range(msl, n + 1):
        if not math.isclose(scores[t - 1], F[t], rel_tol=0, abs_tol=tol):
            raise Violation("score of a prefix differs from the optimal penalised cost of that prefix",
                            prefix_length=t, reported=float(scores[t - 1]), optimum=float(F[t]),
                            changepoints=cpts)
    return F


def check_table(case):
    from skchange.change_detectors import PELT
    from userdefs import scorers as U

    n, msl, k = case["n"], case["msl"], case["k"]
    T = table_from_case(case)
    X = np.zeros((n, 1))
    scale_arg = k / (2 * 1 * math.log(n))
    tag = "c02"
    U.EVAL_COUNTS.pop(tag, None)
    with sut("PELT(TableCost).fit/predict"):
        table_arg = T.astype(np.int64).tolist() if case.get("int_output") else T.tolist()
        det = PELT(U.TableCost(table_arg, 1, tag, None, bool(case.get("int_output")), case.get("memo")), scale_arg, msl).fit(X)
        cpts = det.predict(X)["ilocs"].tolist()
        evals_predict = U.EVAL_COUNTS.get(tag, 0)
        scores = det.transform_scores(X).to_numpy()
        penalty = float(det.penalty_)
        if case.get("memo") == "cache":
            cpts_again = det.predict(X)["ilocs"].tolist()
            if cpts_again != cpts:
                raise Violation("a second predict on the same data gives other changepoints (the cost memoises its result arrays: "
                                "they were modified by the detector)", first=cpts, second=cpts_again)

    def costfn(s, e):
        return float(T[s, e])

    F = check_against_oracle(costfn, n, msl, penalty, scores, cpts, scale=float(np.abs(T).max()) + penalty)
    pruned = evals_predict < unpruned_evaluations(n, msl)
    classes = [f"family={case['family']}"]
    if cpts:
        classes.append("has_changepoint")
    if pruned:
        classes.append("pruning_observed")
    if penalty == k and float(k).is_integer():
        classes.append("exact_integer_penalty")
    if case.get("int_output"):
        classes.append("integer_typed_cost_output")
    if case.get("memo"):
        classes.append(f"cost_result_arrays={case['memo']}")
    if n == 2 * msl:
        classes.append("n=2msl")
    if msl >= 2:
        classes.append("msl>=2")
    return {"nontrivial": bool(cpts) and pruned, "classes": classes}


# ------------------------------------------------------------------ built-in costs


COSTS = ["L2Cost", "GaussianVarCost", "GaussianCovCost", "L1Cost"]


def make_cost(name):
    from skchange import costs

    if name == "L1Cost":  # user-defined, data-dependent cost (sum of absolute deviations from the median)
        from userdefs.scorers import L1Cost

        return L1Cost()
    return getattr(costs, name)()


@st.composite
def builtin_cases(draw, tier):
    cost = draw(st.sampled_from(COSTS))
    p = draw(st.integers(1, 3 if cost != "GaussianCovCost" else 2))
    min_size = {"L2Cost": 1, "L1Cost": 1, "GaussianVarCost": 2, "GaussianCovCost": p + 1}[cost]
    msl = draw(st.integers(min_size, min_size + 3))
    nmax = 40 if tier == "quick" else 100
    n = D.weighted(draw, [(1, st.just(2 * msl)), (6, st.integers(2 * msl, max(2 * msl, 24))),
                          (3, st.integers(2 * msl, nmax))])
    exact = draw(st.booleans()) if cost != "GaussianCovCost" else draw(st.sampled_from([False, False, True]))
    scale = draw(st.one_of(st.sampled_from([0.3, 1.0, 0.0, 0.05, 2.0]), st.floats(0.0, 3.0)))
    unit = draw(st.sampled_from([1.0, 1.0, 0.1, 0.01, 10.0]))  # Gaussian costs are negative for small units
    history = draw(st.sampled_from(K.HISTORIES))
    # whole-numbered readings of the size of event / byte counts (2e7..5e8), handed over as an int64 array
    counts = cost in ("L2Cost", "L1Cost") and exact and draw(st.integers(0, 3)) == 0
    X, meta = draw(D.structured_matrix(n, p, exact=exact, boundary_positions=(msl, n - msl),
                                       max_spikes=2, max_bumps=2))  # bulk data last (see strategies/data.py)
    if unit != 1.0:
        X = [[v * unit for v in row] for row in X]
    as32 = (not counts) and cost in ("L2Cost", "GaussianVarCost") and unit == 1.0 and history is None and len(X) % 5 == 0
    if as32:
        X = [[float(np.float32(v + 1000.0)) for v in row] for row in X]  # the numbers a float32 array holds (a level of 1000)
    if counts:
        X = [[float(round((v / unit + 14) * 2e7)) for v in row] for row in X]
    # the detector may have been fitted on a reference recording with another number of channels: the segmentation is
    # optimal for the fitted penalty_ (drawn structure: the value depends on earlier draws only)
    train_cols = (None, None, None, "fewer_columns", "more_columns")[(n + msl + p) % 5] if cost != "GaussianCovCost" and history is None else None
    return {"cost": cost, "msl": msl, "X": X, "penalty_scale": scale * (4e14 if counts else 1.0), "history": history, "counts_int64": counts, "as_float32": as32,
            "train_cols": train_cols}


def check_builtin(case):
    from skchange.change_detectors import PELT

    X = np.asarray(case["X"], dtype=float)
    n, p = X.shape
    msl = case["msl"]
    # cost table from a fresh instance of the same class
    fresh = make_cost(case["cost"]).fit(X)
    min_size = fresh.min_size
    T = np.full((n + 1, n + 1), np.nan)
    undefined = []
    if case["cost"] == "GaussianCovCost":
        for s in range(n + 1):
            for e in range(s + min_size, n + 1):
                try:
                    T[s, e] = fresh.evaluate(np.array([[s, e]])).sum()
                except RuntimeError:
                    undefined.append((s, e))
    else:
        cuts = np.array([(s, e) for s in range(n + 1) for e in range(s + min_size, n + 1)])
        vals = fresh.evaluate(cuts).sum(axis=1)
        T[cuts[:, 0], cuts[:, 1]] = vals
    admissible_undefined = [
        (s, e) for (s, e) in undefined if e - s >= msl and (s == 0 or s >= msl)
    ]
    history = case.get("history")
    # (scorer_handle_reconfigured: the cost object had a fixed parameter when PELT was constructed around it and was set back to
    # the optimised parameter through the caller's own handle afterwards)
    handle, finish, _ = K.detour_handle(make_cost(case["cost"])) if history == "scorer_handle_reconfigured" else (make_cost(case["cost"]), lambda: None, 0)
    det = PELT(handle, case["penalty_scale"], msl)
    finish()
    try:
        with sut("PELT.fit/predict", allowed=(RuntimeError,)):
            # the detector / its cost may have a past: an earlier fit of the cost object on wider data, an earlier
            # predict on the caller's buffer while it held other data (see common.py)
            if history == "scorer_prefit_wide" and not K.prefit_scorer_wide(det, X):
                history = None
            Xd = X.astype(np.int64) if case.get("counts_int64") else X  # the detector gets integers, the reference floats
            if case.get("as_float32"):
                Xd = X.astype(np.float32)
            Xfit = Xd[:, :1].copy() if case.get("train_cols") == "fewer_columns" and p > 1 else \
                np.hstack([Xd, Xd[::-1]]) if case.get("train_cols") == "more_columns" else Xd
            if K.rejects_other_width(lambda: PELT(make_cost(case["cost"]), case["penalty_scale"], msl), Xfit, Xd):
                return {"nontrivial": False, "classes": ["other_number_of_columns_rejected"]}
            det.fit(Xfit)
            Xp = K.used_buffer(det, Xd, history.endswith("frame")) if history and history.startswith("used_buffer") else Xd
            if history and history.startswith("predicted_on"):
                K.related_predict(det, Xd, history)
            cpts = det.predict(Xp)["ilocs"].tolist()
            scores = det.transform_scores(Xp).to_numpy()
            penalty = float(det.penalty_)
    except RuntimeError as e:
        if case["cost"] == "GaussianCovCost" and admissible_undefined and "positive definite" in str(e):
            return {"nontrivial": False, "classes": ["not_pd_error_accepted"]}
        raise Violation(f"unexpected RuntimeError: {e}", cost=case["cost"])
    if not np.all(np.isfinite(scores[msl - 1:])):
        raise Violation("non-finite score reported", scores=scores.tolist())

    def costfn(s, e):
        return float(T[s, e])

    classes = [f"cost={case['cost']}", f"p={p}"] + ([f"history={history}"] if history else []) + \
        (["int64_counts"] if case.get("counts_int64") else []) + (["float32_on_a_level"] if case.get("as_float32") else []) + \
        (["fitted_on_other_number_of_columns"] if case.get("train_cols") and (p > 1 or case["train_cols"] == "more_columns") else [])
    scale = float(np.nanmax(np.abs(T))) + penalty
    tol = 1e-9 * (1.0 + scale)
    # precondition of the property: splitting never increases the cost (on this table)
    split_ok = not undefined
    if split_ok:
        for L in range(2 * min_size, n + 1):
            for s in range(0, n - L + 1):
                e = s + L
                ks = np.arange(s + min_size, e - min_size + 1)
                if ks.size and np.any(T[s, ks] + T[ks, e] > T[s, e] + tol):
                    split_ok = False
                    break
            if not split_ok:
                break
    if not split_ok:
        classes.append("precondition_fails")
    # the reference recursion consumes the very same cost values (same library routine; per-interval values do not
    # depend on the batch), so only the order of at most n additions at the magnitude of the scores may differ
    check_against_oracle(costfn, n, msl, penalty, scores, cpts, assert_optimal=split_ok, scale=scale,
                         rel=64 * (n + 1) * np.finfo(float).eps)
    if cpts:
        classes.append("has_changepoint")
    if n == 2 * msl:
        classes.append("n=2msl")
    if case["penalty_scale"] == 0:
        classes.append("penalty=0")
    if msl >= 2:
        classes.append("msl>=2")
    return {"nontrivial": bool(cpts) and split_ok, "classes": classes}


# ------------------------------------------------------------------ oracle self-test


def self_test_optimal_partitioning():
    rng = np.random.RandomState(12345)
    for _ in range(60):
        n = int(rng.randint(2, 10))
        msl = int(rng.randint(1, max(2, n // 2 + 1)))
        if n < 2 * msl:
            continue
        T = rng.randint(0, 6, size=(n + 1, n + 1)).astype(float)
        pen = float(rng.randint(0, 4))
        F, _ = ref.optimal_partitioning(lambda s, e: T[s, e], n, pen, msl)
        brute = ref.exhaustive_segmentations(lambda s, e: T[s, e], n, pen, msl)
        assert abs(F[n] - brute) < 1e-12, (n, msl, F[n], brute)


SELF_TESTS = [self_test_optimal_partitioning]


def small_l2_cases(tier):
    """Every data vector over {-1,0,1} (ties everywhere) x msl x penalty, for all admissible small n."""
    import itertools

    nmax = 7 if tier == "quick" else 9
    for msl in (1, 2, 3):
        for n in range(2 * msl, nmax + 1):
            for k in (0, 1, 2.5):
                for x in itertools.product((-1, 0, 1), repeat=n):
                    if x[0] > 0 or (x[0] == 0 and next((v for v in x if v != 0), -1) > 0):
                        continue  # the L2 objective is invariant under x -> -x: one representative
                    yield {"n": n, "msl": msl, "family": "l2int", "k": k, "x": list(x), "int_output": False}


# ------------------------------------------------------------------ default settings on realistic series


def default_cells(tier):
    """The detector with its DEFAULT hyper-parameters (optionally one of them changed) on series of 100-400 samples of the kind
    users have: noise with level shifts plus a seasonal cycle / drift / rounding / bursts / a plateau / events at the ends /
    a variance change (strategies.data.realistic_series; deterministic function of the stored seed)."""
    ns = (100, 250) if tier == "quick" else (100, 150, 250, 400)
    for seed in range(8 if tier == "quick" else 24):
        for n in ns:
            for variant in ({}, {"msl": 5}, {"penalty_scale": 1.0}, {"cost": "GaussianVarCost"})[: 2 if tier == "quick" else 4]:
                yield {"seed": 20000 + seed, "n": n + seed, "p": 1 + seed % 2, "cost": "L2Cost", "msl": 2, "penalty_scale": 2.0, **variant}


def check_default(case):
    X, kind = D.realistic_series(case["seed"], case["n"], case["p"])
    info = check_builtin({"cost": case["cost"], "msl": case["msl"], "X": X, "penalty_scale": case["penalty_scale"]})
    info["classes"] = list(info["classes"]) + [f"data={kind}"]
    return info


# ------------------------------------------------------------------ long series


def long_cells(tier):
    """Series of 400..12000 samples (thorough: up to 33000) with many changes: thousands of pruning decisions, long
    accumulations. The data are a deterministic function of the cell (numpy PCG64 seeded with the cell's seed, which the
    case stores): unit noise plus level / scale shifts every 20-200 samples."""
    cells = [(600, 1, "L2Cost", 1, 1.0), (1500, 2, "L2Cost", 5, 1.0), (1100, 1, "GaussianVarCost", 2, 1.0),
             (3000, 1, "L2Cost", 3, 0.5), (900, 3, "GaussianVarCost", 4, 2.0), (400, 1, "L1Cost", 2, 1.0),
             (12000, 1, "L2Cost", 2, 1.0), (8000, 2, "GaussianVarCost", 10, 1.0)]
    if tier != "quick":
        cells += [(30000, 1, "L2Cost", 2, 1.0), (16000, 2, "GaussianVarCost", 10, 1.0), (600, 2, "GaussianCovCost", 5, 1.0),
                  (20000, 1, "L2Cost", 1, 0.1), (10000, 4, "L2Cost", 25, 3.0), (16500, 1, "GaussianVarCost", 2, 0.3),
                  (33000, 2, "L2Cost", 7, 1.0), (800, 1, "L1Cost", 1, 0.5)]
    for i, (n, p, cost, msl, scale) in enumerate(cells):
        yield {"n": n, "p": p, "cost": cost, "msl": msl, "penalty_scale": scale, "seed": 2000 + i}


def check_long(case):
    from skchange.change_detectors import PELT

    n, p, msl = case["n"], case["p"], case["msl"]
    rng = np.random.Generator(np.random.PCG64(case["seed"]))
    X = rng.normal(size=(n, p))
    t = 0
    while t < n:
        seg = int(rng.integers(20, 200))
        X[t:t + seg] = X[t:t + seg] * float(rng.choice([1.0, 1.0, 0.5, 2.0])) + rng.choice([0.0, 1.0, -1.5, 3.0], size=p)
        t += seg
    with sut("PELT.fit/predict (long series)"):
        det = PELT(make_cost(case["cost"]), case["penalty_scale"], msl).fit(X)
        cpts = [int(c) for c in det.predict(X)["ilocs"].tolist()]
        scores = det.transform_scores(X).to_numpy()
        penalty = float(det.penalty_)
    fresh = make_cost(case["cost"]).fit(X)
    F = np.full(n + 1, np.inf)
    F[0] = -penalty
    big = 0.0
    for e in range(msl, n + 1):
        starts = np.concatenate(([0], np.arange(msl, e - msl + 1)))
        c = np.asarray(fresh.evaluate(np.column_stack((starts, np.full(starts.size, e))))).sum(axis=1)
        big = max(big, float(np.abs(c).max()))
        F[e] = np.min(F[starts] + c + penalty)
    tol = 64 * (n + 1) * np.finfo(float).eps * (1.0 + big + penalty * (len(cpts) + 1))
    bounds = [0] + cpts + [n]
    if any(b - a < msl for a, b in zip(bounds[:-1], bounds[1:])) or cpts != sorted(set(cpts)):
        raise Violation("changepoints are not strictly increasing with all segments >= min_segment_length", msl=msl, n=n)
    seg = float(np.asarray(fresh.evaluate(np.column_stack((bounds[:-1], bounds[1:])))).sum()) + penalty * len(cpts)
    if abs(seg - scores[-1]) > tol:
        raise Violation("final score differs from the penalised cost of the returned segmentation", final_score=float(scores[-1]),
                        returned_segmentation_cost=seg, n_changepoints=len(cpts))
    bad = np.flatnonzero(np.abs(scores[msl - 1:] - F[msl:]) > tol)
    if bad.size:
        e = int(bad[0]) + msl
        raise Violation("score of a prefix differs from the optimal penalised cost of that prefix", prefix_length=e,
                        reported=float(scores[e - 1]), optimum=float(F[e]), n_prefixes_off=int(bad.size))
    return {"nontrivial": len(cpts) >= 3, "classes": [f"cost={case['cost']}", f"n>={n // 1000}000", f"changepoints>={min(len(cpts) // 10 * 10, 50)}"]}


FACETS = [
    Facet(
        name="exhaustive_ternary_l2", kind="enumerate", enumerate=small_l2_cases, check=check_table, exhaustive=True,
        rule=("every data vector over {-1,0,1}^n (one per sign class) for n in [2msl, 7] (thorough: 9), msl in {1,2,3}, penalties "
              "{0,1,2.5}, squared-error table cost: exhaustive; non-trivial = optimum has >=1 changepoint and pruning observed"),
        shards_quick=16, shards_thorough=16, max_samples=1,
    ),
    Facet(
        name="table_costs",
        check=check_table,
        strategy=table_cases,
        rule=("user-defined integer TableCost (pair-interaction / super-additive closure / integer-data L2), "
              "n in [2msl,16], msl 1..4, penalties k in {0,1,2,3,5,8,0.5,1.3,2.7} through penalty_scale, float- or integer-typed cost output; "
              "non-trivial = optimum has >=1 changepoint AND pruning observed via evaluation counts"),
        n_quick=1600, n_thorough=30000, shards_quick=8, shards_thorough=16,
    ),
    Facet(
        name="builtin_costs",
        check=check_builtin,
        strategy=builtin_cases,
        rule=("L2Cost/GaussianVarCost/GaussianCovCost and a user-defined L1Cost on structured data (shifts, spikes, bumps; exact and float), "
              "msl from the cost's minimum size, n from 2msl, penalty scales incl. 0; the detector may have a past (cost object pre-fitted on wider data; "
              "earlier predict on the caller's array / frame, then refilled in place); "
              "non-trivial = >=1 changepoint AND the evaluated cost table satisfies the split inequality"),
        n_quick=480, n_thorough=8000, shards_quick=8, shards_thorough=16,
    ),
    Facet(
        name="default_settings", kind="enumerate", enumerate=default_cells, check=check_default, exhaustive=True, time_limit=120,
        rule=("PELT with its default hyper-parameters (L2 cost, min_segment_length 2, penalty scale 2; variants: msl 5, scale 1, GaussianVar cost) on "
              "realistic series of 100-400 samples (shifts + seasonal / trend / rounded / bursts / plateau / end events / variance change; seeded); "
              "same un-pruned reference; 32 cells (thorough: 384), non-trivial = >= 1 changepoint"),
        shards_quick=16, shards_thorough=16, max_samples=1,
    ),
    Facet(
        name="long_series", kind="enumerate", enumerate=long_cells, check=check_long, exhaustive=True, time_limit=600,
        rule=("PELT on series of 400..12000 samples (thorough: up to 33000; p 1..4; L2 / GaussianVar / GaussianCov / user L1 costs; msl 1..25) with a "
              "level or scale shift every 20-200 samples (seeded noise): every prefix score compared with the un-pruned recursion over the "
              "same cost values at 64 (n+1) eps relative; 8 cells (thorough: 16), non-trivial = >= 3 changepoints"),
        shards_quick=8, shards_thorough=16, max_samples=1,
    ),
]

"""C03 - CAPA/MVCAPA anomalies maximise the total penalised saving."""

import math

import numpy as np
from hypothesis import strategies as st

from checks import common as K
from framework.core import Facet, Violation, sut
from oracles import reference as ref
from strategies import data as D

PROPERTY_ID = "C03"
TECHNIQUE = "Hypothesis-generated savings/penalties/data vs. un-pruned CAPA dynamic-programme reference model"
ASSUMPTIONS = [
    "oracle: un-pruned O(n * max_segment_length) recursion over no anomaly / point anomaly / collective anomaly, self-tested against exhaustive enumeration of anomaly sets (n<=8)",
    "penalties (alpha, betas) are inputs of the oracle: fitted attributes (CAPA), the generated callable's values (MVCAPA) or the public penalty functions (built-in families; pinned by C15)",
    "built-in savings: tables from a fresh saving instance; optimality asserted only where the evaluated savings are sub-additive per column",
]


# ------------------------------------------------------------------ table families


def saving_tables(case):
    """Collective and point saving tables [n+1][n+1][p] from the generating data."""
    n, p = case["n"], case["p"]
    fam = case["family"]
    charge = case.get("charge", 0)

    def from_increments(u, kind):
        u = np.asarray(u, dtype=float).reshape(n, p)
        cs = np.vstack([np.zeros((1, p)), np.cumsum(u, axis=0)])
        T = np.zeros((n + 1, n + 1, p))
        for s in range(n):
            for e in range(s + 1, n + 1):
                d = cs[e] - cs[s]
                # a per-sample charge keeps the table sub-additive but lets savings be negative
                T[s, e] = (np.abs(d) if kind == "abs" else np.maximum(d, 0.0)) - charge * (e - s)
        return T

    if fam in ("abs", "pos"):
        return from_increments(case["u"], fam), from_increments(case["v"], fam)
    raw = np.asarray(case["raw"], dtype=float).reshape(n + 1, n + 1, p)
    S = np.zeros((n + 1, n + 1, p))
    for L in range(1, n + 1):
        for s in range(0, n - L + 1):
            e = s + L
            v = raw[s, e].copy()
            for k in range(s + 1, e):
                v = np.minimum(v, S[s, k] + S[k, e])
            S[s, e] = v
    return S, S


@st.composite
def table_cases(draw, tier):
    msl = draw(st.integers(2, 4))
    n = draw(st.integers(msl, 14))
    p = draw(st.integers(1, 3))
    maxl = draw(st.integers(msl, n + 2))
    fam = draw(st.sampled_from(["abs", "abs", "pos", "closure"]))
    # savings and (MVCAPA) user penalties in tiny or large units: everything multiplied by one power of two, so that the arithmetic
    # stays exact - per-component penalties of 1e-9 are positive penalties, not zeros
    case = {"n": n, "p": p, "msl": msl, "maxl": maxl, "family": fam, "unit_pow": draw(st.sampled_from([0, 0, 0, -30, -34, 20]))}
    if fam in ("abs", "pos"):
        case["u"] = draw(st.lists(st.integers(-3, 3), min_size=n * p, max_size=n * p))
        case["v"] = draw(st.lists(st.integers(-4, 4), min_size=n * p, max_size=n * p))
        case["charge"] = draw(st.sampled_from([0, 0, 1, 2]))
    else:
        m = (n + 1) * (n + 1) * p
        case["raw"] = draw(st.lists(st.integers(-3, 7), min_size=m, max_size=m))  # savings may be negative
    det = draw(st.sampled_from(["CAPA", "MVCAPA", "MVCAPA"]))
    case["detector"] = det
    if det == "CAPA":
        case["c_scale"] = draw(st.sampled_from([0.0, 0.05, 0.3, 1.0, 2.0]))
        case["p_scale"] = draw(st.sampled_from([0.0, 0.05, 0.3, 1.0, 2.0]))
    else:
        kind = draw(st.sampled_from(["zero", "equal", "any"]))
        case["c_alpha"] = draw(st.integers(0, 8))
        if kind == "zero":
            case["c_betas"] = [0] * p
        elif kind == "equal":
            case["c_betas"] = [draw(st.integers(0, 3))] * p
        else:
            case["c_betas"] = draw(st.lists(st.integers(0, 3), min_size=p, max_size=p))
        case["p_alpha"] = draw(st.integers(0, 10))
        pk = draw(st.sampled_from(["zero", "equal", "any"]))
        if pk == "zero":
            case["p_betas"] = [0] * p
        elif pk == "equal":
            case["p_betas"] = [draw(st.integers(0, 3))] * p
        else:
            case["p_betas"] = draw(st.lists(st.integers(0, 3), min_size=p, max_size=p))
        # a user callable may return its per-component terms as an integer array (np.arange(1, p + 1), np.array([2, 2, 4])) next to
        # a fractional constant term (2 log n): the types the user wrote must not change the penalty that is applied
        if draw(st.booleans()):
            case["c_alpha"], case["p_alpha"] = case["c_alpha"] + 0.5, case["p_alpha"] + 0.25
        case["int_betas"] = draw(st.booleans())
    return case


def unpruned_collective_evaluations(n, msl, maxl):
    total = 0
    for t in range(msl - 1, n):
        total += (t + 1 - msl) - max(0, t + 1 - maxl) + 1
    return total


def events_from_predict(y):
    iv = y["ilocs"].array
    return [(int(a), int(b)) for a, b in zip(iv.left, iv.right)], str(iv.closed)


def assert_capa_outputs(n, msl, maxl, coll, point, pens, scores, events, closed, scale,
                        assert_optimal=True, rel=1e-9):
    c_alpha, c_betas, p_alpha, p_betas = pens
    tol = rel * (1.0 + scale)
    if closed != "left":
        raise Violation("anomaly intervals are not left-closed", closed=closed)
    if len(scores) != n:
        raise Violation("scores do not have one entry per sample", got=len(scores), n=n)
    prev_end = 0
    total = 0.0
    for a, b in events:
        if not (0 <= a < b <= n):
            raise Violation("reported anomaly is empty or outside the data", anomaly=[a, b], n=n,
                            events=events)
        if a < prev_end:
            raise Violation("reported anomalies overlap or are not sorted", events=events)
        prev_end = b
        L = b - a
        if L == 1:
            total += ref.penalised_saving(point(a), p_alpha, p_betas)
        elif msl <= L <= maxl:
            total += ref.penalised_saving(coll(a, b), c_alpha, c_betas)
        else:
            raise Violation("collective anomaly length outside [min_segment_length, max_segment_length]",
                            anomaly=[a, b], msl=msl, maxl=maxl)
    if np.any(np.diff(np.concatenate(([0.0], scores))) < -tol):
        raise Violation("cumulative score is negative or decreasing", scores=np.asarray(scores).tolist())
    if not math.isclose(total, scores[-1], rel_tol=0, abs_tol=tol):
        raise Violation("re-evaluating the reported anomalies does not give the final score",
                        reevaluated=float(total), final_score=float(scores[-1]), events=events)
    if not assert_optimal:
        return None
    F = ref.capa_dp(coll, point, n, c_alpha, c_betas, p_alpha, p_betas, msl, maxl)
    for t in range(n):
        if not math.isclose(scores[t], F[t + 1], rel_tol=0, abs_tol=tol):
            raise Violation("cumulative score differs from the optimal total penalised saving of the prefix",
                            prefix_length=t + 1, reported=float(scores[t]), optimum=float(F[t + 1]),
                            events=events)
    return F


def check_table(case):
    from skchange.anomaly_detectors import CAPA, MVCAPA
    from userdefs import scorers as U

    n, p, msl, maxl = case["n"], case["p"], case["msl"], case["maxl"]
    S, P = saving_tables(case)
    X = np.zeros((n, p))
    tag = "c03"
    unit = 2.0 ** case.get("unit_pow", 0) if case["detector"] == "MVCAPA" else 1.0
    if unit != 1.0:
        S, P = S * unit, P * unit
        case = dict(case, int_betas=False, c_alpha=case["c_alpha"] * unit, p_alpha=case["p_alpha"] * unit,
                    c_betas=[b * unit for b in case["c_betas"]], p_betas=[b * unit for b in case["p_betas"]])

    def build(ignore):
        cs = U.TableSaving(S.tolist(), 1, tag if not ignore else None)
        ps = U.TableSaving(P.tolist(), 1, None)
        if case["detector"] == "CAPA":
            return CAPA(cs, ps, case["c_scale"], case["p_scale"], msl, maxl, ignore)
        beta_type = np.int64 if case.get("int_betas") else float
        ca, cb = float(case["c_alpha"]), np.asarray(case["c_betas"], dtype=beta_type)
        pa, pb = float(case["p_alpha"]), np.asarray(case["p_betas"], dtype=beta_type)

        def cpen(n_, p_, k_, scale=1.0):
            return ca, cb.copy()

        def ppen(n_, p_, k_, scale=1.0):
            return pa, pb.copy()

        return MVCAPA(cs, ps, cpen, 1.0, ppen, 1.0, msl, maxl, ignore)

    U.EVAL_COUNTS.pop(tag, None)
    with sut(f"{case['detector']}(TableSaving).fit/predict"):
        det = build(False).fit(X)
        y = det.predict(X)
        evals = U.EVAL_COUNTS.get(tag, 0)
        scores = det.transform_scores(X).to_numpy()
        y_ign = build(True).fit(X).predict(X)
    if case["detector"] == "CAPA":
        pens = (float(det.collective_penalty_), np.zeros(p), float(det.point_penalty_), np.zeros(p))
    else:
        pens = (float(case["c_alpha"]), np.asarray(case["c_betas"], dtype=float),
                float(case["p_alpha"]), np.asarray(case["p_betas"], dtype=float))
    events, closed = events_from_predict(y)
    scale = float(max(np.abs(S).max(), np.abs(P).max())) * n + pens[0] + pens[2]
    assert_capa_outputs(n, msl, maxl, lambda s, e: S[s, e], lambda t: P[t, t + 1], pens, scores,
                        events, closed, scale)
    ev_ign, _ = events_from_predict(y_ign)
    expected_ign = [(a, b) for a, b in events if b - a > 1]
    if ev_ign != expected_ign:
        raise Violation("ignore_point_anomalies=True is not the same set minus the point anomalies",
                        with_points=events, ignoring=ev_ign)
    has_coll = any(b - a > 1 for a, b in events)
    has_point = any(b - a == 1 for a, b in events)
    # the detector evaluates the collective saving in predict only (fit evaluates nothing)
    pruned = evals < unpruned_collective_evaluations(n, msl, maxl)
    classes = [f"family={case['family']}", f"detector={case['detector']}"] + ([f"unit=2^{case.get('unit_pow')}"] if unit != 1.0 else [])
    for flag, name in ((has_coll, "collective"), (has_point, "point"), (p > 1, "p>1"),
                       (bool(np.any(S < 0) or np.any(P < 0)), "negative_savings"),
                       (pruned, "pruning_observed"), (n == msl, "n=msl"), (maxl == msl, "maxl=msl"),
                       (any(a < msl - 1 and b - a == 1 for a, b in events), "point_in_first_msl-1")):
        if flag:
            classes.append(name)
    return {"nontrivial": has_coll, "classes": classes}


# ------------------------------------------------------------------ built-in savings

SAVINGS = ["L2Saving", "Saving(L2Cost(0))", "Saving(GaussianVarCost((0,1)))", "Saving(GaussianCovCost)",
           "L2Cost(0)", "Saving(L1Cost(0.5,scale=2))"]


def make_saving(name, p):
    from skchange.anomaly_scores import L2Saving, Saving
    from skchange.costs import GaussianCovCost, GaussianVarCost, L2Cost

    if name == "L2Saving":
        return L2Saving()
    if name == "Saving(L2Cost(0))":
        return Saving(L2Cost(0.0))
    if name == "L2Cost(0)":
        return L2Cost(0.0)  # a cost: converted by the detector
    if name == "Saving(GaussianVarCost((0,1)))":
        return Saving(GaussianVarCost((0.0, 1.0)))
    if name == "Saving(GaussianCovCost)":
        return Saving(GaussianCovCost((0.0, 1.0)))
    if name == "Saving(L1Cost(0.5,scale=2))":  # user-defined cost with an extra hyper-parameter
        from userdefs.scorers import L1Cost

        return Saving(L1Cost(0.5, 2.0))
    raise ValueError(name)


def saving_min_size(name, p):
    return {"L2Saving": 1, "Saving(L2Cost(0))": 1, "L2Cost(0)": 1, "Saving(L1Cost(0.5,scale=2))": 1,
            "Saving(GaussianVarCost((0,1)))": 2, "Saving(GaussianCovCost)": p + 1}[name]


@st.composite
def builtin_cases(draw, tier):
    det = draw(st.sampled_from(["CAPA", "MVCAPA"]))
    p = draw(st.integers(1, 3))
    names = SAVINGS if det == "CAPA" else [s for s in SAVINGS if "Cov" not in s]
    coll = draw(st.sampled_from(names))
    if coll == "Saving(GaussianCovCost)":
        p = draw(st.integers(1, 2))
    point = draw(st.sampled_from(["L2Saving", "Saving(L2Cost(0))", "L2Cost(0)"]))
    ms = max(2, saving_min_size(coll, p))
    msl = draw(st.integers(ms, ms + 3))
    nmax = 40 if tier == "quick" else 100
    n = D.weighted(draw, [(2, st.integers(msl, msl + 3)), (5, st.integers(msl, 24)), (3, st.integers(msl, nmax))])
    # ("no limit" is written as sys.maxsize / the largest int64: the parameter has no None option)
    maxl = D.weighted(draw, [(1, st.just(msl)), (6, st.integers(msl, n + 2)), (3, st.just(1000)), (1, st.just(2 ** 63 - 1))])
    exact = draw(st.booleans()) if "Cov" not in coll else False
    case = {"detector": det, "coll": coll, "point": point, "msl": msl, "maxl": maxl,
            "c_scale": draw(st.sampled_from([0.0, 0.1, 0.5, 1.0, 2.0])),
            "p_scale": draw(st.sampled_from([0.0, 0.1, 0.5, 1.0, 2.0]))}
    if det == "MVCAPA":
        fams = ["dense", "sparse", "combined"] + (["intermediate"] if p >= 2 else [])
        case["c_pen"] = draw(st.sampled_from(fams))
        case["p_pen"] = draw(st.sampled_from(fams))
        if draw(st.integers(0, 2)) == 0:
            # the same family and the same scale for both kinds of anomaly (the defaults share their scale): the two penalties
            # still differ when the savings estimate different numbers of parameters
            case["p_pen"], case["p_scale"] = case["c_pen"], case["c_scale"]
    # re-baselining: the detector is built with a zero-mean cost and told the real baseline afterwards (saving__param = ...)
    if coll == "L2Cost(0)" and draw(st.integers(0, 2)) == 0:
        case["rebaseline"] = draw(st.sampled_from([1.5, -2.0, 5.0]))
    # a sentinel / gross error early in the series (missing-value codes such as -9999, 999999): every later anomaly is
    # tiny relative to the cumulative score
    case["history"] = draw(st.sampled_from(K.HISTORIES))
    sentinel = draw(st.sampled_from([None, None, None, 9999.0, 99999.0, 999999.0, -9999.0])) if "Cov" not in coll else None
    sent_at, sent_col = draw(st.integers(0, max(0, n // 3))), draw(st.integers(0, p - 1))
    # bulk data last (see strategies/data.py)
    case["X"], meta = draw(D.structured_matrix(n, p, exact=exact, boundary_positions=(0, 1, msl - 1, n - 1, n - msl),
                                               max_shifts=1, max_spikes=3, max_bumps=3))
    if sentinel is not None:
        case["X"][sent_at][sent_col] = sentinel
        case["sentinel"] = sentinel
    return case


@st.composite
def staggered_cases(draw, tier):
    """MVCAPA on a long anomaly that one column starts alone, that is briefly interrupted, and that other columns join
    later with weak signals: while the anomaly grows, a split into two anomalies is temporarily better, and the optimal
    set of columns of a given start changes over time (this is where the pruning of candidate starts matters).

    Half of the cases are placed at the pruning boundary: right after the interruption the start `a` trails the running
    optimum by an amount between the smallest (alpha + beta) and the largest (alpha + p beta) penalty a start can pay,
    while the other columns' savings since `a` are still just below their penalty beta - they pay off only later."""
    boundary = draw(st.booleans())
    p = draw(st.integers(3, 6)) if boundary else draw(st.integers(2, 4))
    n = draw(st.integers(24, 44 if tier == "quick" else 60))
    case = {"detector": "MVCAPA", "coll": draw(st.sampled_from(["L2Saving", "Saving(L2Cost(0))"])), "point": "L2Saving",
            "msl": draw(st.integers(2, 4)), "maxl": draw(st.sampled_from([1000, 1000, n - 2])),
            "c_scale": draw(st.sampled_from([2.0, 1.0, 3.0, 0.5, 1.5])), "p_scale": draw(st.sampled_from([3.0, 1.0, 2.0])),
            "c_pen": draw(st.sampled_from(["sparse", "combined", "intermediate"])),
            "p_pen": draw(st.sampled_from(["sparse", "combined", "dense"]))}
    a = draw(st.integers(0, 6))
    lead = draw(st.sampled_from([1.5, 2.0, 2.5, 3.0]))
    gap_len = draw(st.integers(1, 3))
    if boundary:
        b = draw(st.integers(n - 8, n))
        first = draw(st.integers(4, 8))  # samples of the leading column before the interruption
        gap_at = a + first
        u = draw(st.sampled_from([0.15, 0.3, 0.5, 0.7, 0.9]))
        q = draw(st.sampled_from([0.5, 0.7, 0.85, 0.95]))
        noise_scale = draw(st.sampled_from([0.3, 0.1, 0.6]))
        alpha, beta = 2 * case["c_scale"] * math.log(n), 2 * case["c_scale"] * math.log(p)
        s0 = lead * lead * first
        drop = alpha + beta * (1 + u * q * (p - 1))
        if s0 <= drop * 1.05:
            lead = math.sqrt(drop * 1.3 / first)
            s0 = lead * lead * first
        gap_val = (math.sqrt((s0 - drop) * (first + gap_len)) - lead * first) / gap_len
        onset = [a] * (p - 1)
        weak = [math.sqrt(q * beta / (first + gap_len))] * (p - 1)
    else:
        b = draw(st.integers(n - 14, n))
        gap_at = draw(st.integers(a + 4, max(a + 4, b - 5)))
        gap_val = -draw(st.sampled_from([1.0, 2.0, 3.0, 0.0]))
        weak = [draw(st.sampled_from([0.4, 0.6, 0.8, 1.0, 1.2])) for _ in range(p - 1)]
        onset = [draw(st.integers(a, max(a, b - 4))) for _ in range(p - 1)]
        noise_scale = draw(st.sampled_from([1.0, 0.5, 1.5]))
    X = draw(D.noise_matrix(n, p, False))  # bulk data last (see strategies/data.py)
    X = [[v_ * noise_scale for v_ in row] for row in X]
    for i in range(a, b):
        X[i][0] += gap_val if gap_at <= i < gap_at + gap_len else lead
        for j in range(1, p):
            if i >= onset[j - 1]:
                X[i][j] += weak[j - 1]
    case["tuned"] = boundary
    case["X"] = X
    case["family"] = "staggered"
    return case


def check_builtin(case):
    from skchange.anomaly_detectors import CAPA, MVCAPA
    from skchange.anomaly_detectors import mvcapa as M
    from skchange.anomaly_scores import to_saving

    X = np.asarray(case["X"], dtype=float)
    n, p = X.shape
    msl, maxl = case["msl"], case["maxl"]

    rebase = case.get("rebaseline")

    def build(ignore):
        cs, ps = make_saving(case["coll"], p), make_saving(case["point"], p)
        if case.get("history") == "scorer_handle_reconfigured" and rebase is None:
            # the collective saving had another baseline when the detector was constructed around it; it was set to the final
            # one through the caller's own handle afterwards
            cs, finish, _ = K.detour_handle(cs)
            det_ = CAPA(cs, ps, case["c_scale"], case["p_scale"], msl, maxl, ignore) if case["detector"] == "CAPA" else \
                MVCAPA(cs, ps, case["c_pen"], case["c_scale"], case["p_pen"], case["p_scale"], msl, maxl, ignore)
            finish()
            return det_
        if rebase is not None:
            det_ = CAPA(cs, ps, case["c_scale"], case["p_scale"], msl, maxl, ignore) if case["detector"] == "CAPA" else \
                MVCAPA(cs, ps, case["c_pen"], case["c_scale"], case["p_pen"], case["p_scale"], msl, maxl, ignore)
            det_.set_params(collective_saving__param=rebase)
            return det_
        if case["detector"] == "CAPA":
            return CAPA(cs, ps, case["c_scale"], case["p_scale"], msl, maxl, ignore)
        return MVCAPA(cs, ps, case["c_pen"], case["c_scale"], case["p_pen"], case["p_scale"], msl, maxl,
                      ignore)

    if rebase is not None:
        from skchange.costs import L2Cost as _L2

        fresh_c = to_saving(_L2(rebase)).fit(X)
    else:
        fresh_c = to_saving(make_saving(case["coll"], p)).fit(X)
    fresh_p = to_saving(make_saving(case["point"], p)).fit(X)
    ms = fresh_c.min_size
    undefined = []
    q = 1 if "Cov" in case["coll"] else p
    S = np.full((n + 1, n + 1, q), np.nan)
    if "Cov" in case["coll"]:
        for s in range(n + 1):
            for e in range(s + ms, n + 1):
                try:
                    S[s, e] = fresh_c.evaluate(np.array([[s, e]]))[0]
                except RuntimeError:
                    undefined.append((s, e))
    else:
        cuts = np.array([(s, e) for s in range(n + 1) for e in range(s + ms, n + 1)])
        S[cuts[:, 0], cuts[:, 1]] = fresh_c.evaluate(cuts)
    pc = np.array([(t, t + 1) for t in range(n)])
    Pt = fresh_p.evaluate(pc)
    history = case.get("history")
    try:
        with sut(f"{case['detector']}.fit/predict", allowed=(RuntimeError,)):
            # the detector / its savings may have a past: an earlier fit of the saving objects on wider data, an
            # earlier predict on the caller's buffer while it held other data (see common.py)
            det = build(False)
            if history == "scorer_prefit_wide" and not K.prefit_scorer_wide(det, X):
                history = None
            det.fit(X)
            Xp = K.used_buffer(det, X, history.endswith("frame")) if history and history.startswith("used_buffer") else X
            if history and history.startswith("predicted_on"):
                K.related_predict(det, X, history)
            y = det.predict(Xp)
            scores = det.transform_scores(Xp).to_numpy()
            y_ign = build(True).fit(X).predict(X)
    except RuntimeError as e:
        adm = [(s, e_) for s, e_ in undefined if msl <= e_ - s <= maxl]
        if adm and "positive definite" in str(e):
            return {"nontrivial": False, "classes": ["not_pd_error_accepted"]}
        raise Violation(f"unexpected RuntimeError: {e}")
    if case["detector"] == "CAPA":
        pens = (float(det.collective_penalty_), np.zeros(q), float(det.point_penalty_), np.zeros(p))
    else:
        fam = {"dense": M.dense_mvcapa_penalty, "sparse": M.sparse_mvcapa_penalty,
               "intermediate": M.intermediate_mvcapa_penalty, "combined": M.combined_mvcapa_penalty}
        kc = fresh_c.get_param_size(1)
        kp = fresh_p.get_param_size(1)
        ca, cb = fam[case["c_pen"]](n, p, kc, case["c_scale"])
        pa, pb = fam[case["p_pen"]](n, p, kp, case["p_scale"])
        pens = (float(ca), np.asarray(cb, dtype=float), float(pa), np.asarray(pb, dtype=float))
    events, closed = events_from_predict(y)
    scale = float(np.nanmax(np.abs(S))) + float(np.abs(Pt).max()) * n + pens[0] + pens[2]
    tol = 1e-9 * (1 + scale)
    sub_ok = not undefined
    if sub_ok:
        for L in range(2 * ms, n + 1):
            for s in range(0, n - L + 1):
                e = s + L
                ks = np.arange(s + ms, e - ms + 1)
                if ks.size and np.any(S[s, e][None, :] > S[s, ks] + S[ks, e] + tol):
                    sub_ok = False
                    break
            if not sub_ok:
                break
    sub_ok = sub_ok and bool(np.all(S[~np.isnan(S)] >= -tol)) and bool(np.all(Pt >= -tol))
    # The reference uses the very same saving values (same library routine, per-interval values do not depend on the
    # batch), so the only legitimate difference is the order of the additions in the recursion: n additions at the
    # magnitude of the scores. (A fixed 1e-9 relative tolerance would hide anomalies lost after one huge value.)
    assert_capa_outputs(n, msl, maxl, lambda s, e: S[s, e], lambda t: Pt[t], pens, scores, events,
                        closed, scale, assert_optimal=sub_ok, rel=64 * (n + 1) * np.finfo(float).eps)
    ev_ign, _ = events_from_predict(y_ign)
    expected_ign = [(a, b) for a, b in events if b - a > 1]
    if ev_ign != expected_ign:
        raise Violation("ignore_point_anomalies=True is not the same set minus the point anomalies",
                        with_points=events, ignoring=ev_ign)
    has_coll = any(b - a > 1 for a, b in events)
    has_point = any(b - a == 1 for a, b in events)
    classes = [f"detector={case['detector']}", f"coll={case['coll']}"]
    if case["detector"] == "MVCAPA":
        classes.append(f"c_pen={case['c_pen']}")
    if history:
        classes.append(f"history={history}")
    if rebase is not None:
        classes.append("rebaselined_with_set_params")
    if case["detector"] == "MVCAPA" and case.get("c_pen") == case.get("p_pen") and case.get("c_scale") == case.get("p_scale"):
        classes.append("same_family_and_scale")
    if case.get("tuned"):
        classes.append("placed_at_pruning_boundary")
    if case.get("sentinel") is not None:
        classes.append("sentinel_value")
    for flag, name in ((has_coll, "collective"), (has_point, "point"), (p > 1, "p>1"),
                       (not sub_ok, "precondition_fails"),
                       (any(a < msl - 1 and b - a == 1 for a, b in events), "point_in_first_msl-1"),
                       (any(e1[1] == e2[0] for e1, e2 in zip(events[:-1], events[1:])), "adjacent_events")):
        if flag:
            classes.append(name)
    return {"nontrivial": (has_coll or has_point) and sub_ok, "classes": classes}


# ------------------------------------------------------------------ oracle self-test


def self_test_capa_dp():
    rng = np.random.RandomState(4242)
    for _ in range(40):
        n = int(rng.randint(2, 9))
        p = int(rng.randint(1, 3))
        msl = int(rng.randint(2, 4))
        if n < msl:
            continue
        maxl = int(rng.randint(msl, n + 2))
        S = rng.randint(0, 8, size=(n + 1, n + 1, p)).astype(float)
        P = rng.randint(0, 8, size=(n + 1, n + 1, p)).astype(float)
        ca, pa = float(rng.randint(0, 6)), float(rng.randint(0, 6))
        cb, pb = rng.randint(0, 3, size=p).astype(float), rng.randint(0, 3, size=p).astype(float)
        F = ref.capa_dp(lambda s, e: S[s, e], lambda t: P[t, t + 1], n, ca, cb, pa, pb, msl, maxl)
        brute = ref.exhaustive_anomaly_sets(lambda s, e: tuple(S[s, e]), lambda t: tuple(P[t, t + 1]), n, ca,
                                            tuple(cb), pa, tuple(pb), msl, maxl)
        assert abs(F[n] - brute) < 1e-12, (n, p, msl, maxl, F[n], brute)


SELF_TESTS = [self_test_capa_dp]


def small_capa_cases(tier):
    """Every univariate data vector over {-2,0,1,3} x (msl, maxl) x penalty scales, small n: exhaustive."""
    import itertools

    nmax = 5 if tier == "quick" else 8
    for n in range(2, nmax + 1):
        for msl, maxl in ((2, 2), (2, 1000), (3, 4)):
            if n < msl:
                continue
            for cs, ps in ((0.0, 0.0), (0.3, 0.1), (1.0, 2.0)):
                for x in itertools.product((-2.0, 0.0, 1.0, 3.0), repeat=n):
                    yield {"detector": "CAPA", "coll": "L2Saving", "point": "L2Saving", "msl": msl, "maxl": maxl,
                           "X": [[v] for v in x], "c_scale": cs, "p_scale": ps}


@st.composite
def small_integer_cases(draw, tier):
    """Many cheap univariate cases: small-integer series (ties, many anomalous stretches), a max_segment_length that binds
    (msl + 1 .. 8), cheap collective and dear point anomalies - the regime in which candidate starts are pruned, expire
    and are queued for removal all the time."""
    msl = draw(st.integers(2, 4))
    case = {"detector": draw(st.sampled_from(["CAPA", "CAPA", "MVCAPA"])), "coll": "L2Saving", "point": "L2Saving", "msl": msl,
            "maxl": draw(st.integers(msl + 1, 8)), "c_scale": draw(st.sampled_from([0.5, 0.3, 1.0, 0.1])),
            "p_scale": draw(st.sampled_from([4.0, 2.0, 1.0])), "c_pen": "dense", "p_pen": "dense"}
    n = draw(st.integers(10, 30))
    case["X"] = [[float(v)] for v in draw(st.lists(st.integers(-1, 4), min_size=n, max_size=n))]
    return case


# ------------------------------------------------------------------ default settings on realistic series


def default_cells(tier):
    """The detector with its DEFAULT hyper-parameters (optionally one of them changed) on series of 100-400 samples of the kind
    users have: noise with level shifts plus a seasonal cycle / drift / rounding / bursts / a plateau / events at the ends /
    a variance change (strategies.data.realistic_series; deterministic function of the stored seed)."""
    ns = (100, 220) if tier == "quick" else (100, 160, 220, 320)
    for seed in range(8 if tier == "quick" else 24):
        for n in ns:
            for det in ("CAPA", "MVCAPA"):
                for variant in ({}, {"maxl": 50}, {"msl": 5}, {"c_scale": 1.0, "p_scale": 1.0})[: 2 if tier == "quick" else 4]:
                    yield {"seed": 21000 + seed, "n": n + seed, "p": 1 + seed % 3, "detector": det, "coll": "L2Saving", "point": "L2Saving",
                           "msl": 2, "maxl": 1000, "c_scale": 2.0, "p_scale": 2.0, "c_pen": "combined", "p_pen": "sparse", **variant}


def check_default(case):
    X, kind = D.realistic_series(case["seed"], case["n"], case["p"])
    X = X - np.median(X, axis=0)  # CAPA's savings are measured from a zero baseline: centred as its documentation asks
    info = check_builtin(dict({k: v for k, v in case.items() if k not in ("seed", "n", "p")}, X=X))
    info["classes"] = list(info["classes"]) + [f"data={kind}"]
    return info


# ------------------------------------------------------------------ wide data, dense events


def dense_wide_cells(tier):
    """MVCAPA on 16-64 channels with events that are weak in every single channel (below the per-channel sparse penalty) but
    present in all of them, so that only the dense / combined / intermediate penalty detects them: a common shift over 20
    samples and a one-sample glitch in all channels, on quiet noise (sd 0.1). Deterministic function of the stored seed."""
    ps = (16, 40) if tier == "quick" else (16, 24, 40, 64)
    i = 0
    for p_ in ps:
        for c_pen, p_pen in (("dense", "dense"), ("combined", "combined"), ("intermediate", "dense"), ("combined", "sparse")):
            for strength in (0.8, 0.95):
                i += 1
                yield {"seed": 23000 + i, "n": 70 + i % 7, "p": p_, "strength": strength, "detector": "MVCAPA", "coll": "L2Saving",
                       "point": "L2Saving", "msl": 2, "maxl": 1000, "c_scale": 1.0, "p_scale": 1.0, "c_pen": c_pen, "p_pen": p_pen}


def check_dense_wide(case):
    import math

    n, p_ = case["n"], case["p"]
    rng = np.random.Generator(np.random.PCG64(case["seed"]))
    X = rng.standard_normal((n, p_)) * 0.1
    beta = 2 * math.log(p_)  # the smallest per-channel sparse penalty (scale 1, one parameter); savings are len * mean^2
    L = 20
    X[30:30 + L] += math.sqrt(case["strength"] * beta / L)   # per-channel saving = strength * beta < beta; p of them together: far above the dense penalty
    X[12] += math.sqrt(case["strength"] * beta)              # the same for a single sample
    info = check_builtin(dict({k: v for k, v in case.items() if k not in ("seed", "n", "p", "strength")}, X=X))
    with sut("MVCAPA.fit/predict (wide data)"):
        y = build_detector_for_classes(case, X)
    ev = events_from_predict(y)[0] if len(y) else []
    info["classes"] = list(info["classes"]) + [f"p={p_}"] + (["dense_collective_event_reported"] if any(b - a >= 10 for a, b in ev) else []) + \
        (["dense_point_event_reported"] if (12, 13) in [tuple(e) for e in ev] else [])
    info["nontrivial"] = any(b - a >= 10 for a, b in ev)
    return info


def build_detector_for_classes(case, X):
    from skchange.anomaly_detectors import MVCAPA

    return MVCAPA(collective_penalty=case["c_pen"], collective_penalty_scale=case["c_scale"], point_penalty=case["p_pen"],
                  point_penalty_scale=case["p_scale"], min_segment_length=case["msl"], max_segment_length=case["maxl"]).fit(X).predict(X)


# ------------------------------------------------------------------ long series


def long_cells(tier):
    """Series of 1000..8000 samples (thorough: up to 40000) with many collective and point anomalies and a bounded
    max_segment_length (so that the un-pruned recursion stays O(n * max_segment_length)). Data are a deterministic
    function of the cell (numpy PCG64 seeded with the stored seed)."""
    cells = [("CAPA", 1000, 1, "L2Saving", 2, 60, 1.0, None), ("MVCAPA", 1500, 3, "L2Saving", 3, 40, 1.0, "combined"),
             ("CAPA", 4000, 2, "Saving(GaussianVarCost((0,1)))", 5, 100, 1.0, None), ("MVCAPA", 2500, 5, "Saving(L2Cost(0))", 2, 30, 0.5, "sparse"),
             ("CAPA", 8000, 1, "L2Saving", 2, 200, 2.0, None), ("MVCAPA", 3000, 2, "L2Saving", 4, 80, 1.0, "intermediate")]
    if tier != "quick":
        cells += [("CAPA", 40000, 1, "L2Saving", 2, 100, 1.0, None), ("MVCAPA", 12000, 4, "L2Saving", 3, 60, 1.0, "combined"),
                  ("CAPA", 20000, 3, "Saving(GaussianVarCost((0,1)))", 10, 300, 1.0, None), ("MVCAPA", 16500, 4, "Saving(L2Cost(0))", 2, 50, 2.0, "sparse"),
                  ("CAPA", 66000, 1, "L2Saving", 5, 40, 0.5, None), ("MVCAPA", 9000, 8, "L2Saving", 2, 25, 1.0, "dense")]
    for i, (det, n, p, coll, msl, maxl, scale, pen) in enumerate(cells):
        yield {"detector": det, "n": n, "p": p, "coll": coll, "msl": msl, "maxl": maxl, "c_scale": scale, "p_scale": scale,
               "c_pen": pen, "p_pen": pen, "seed": 3000 + i}


def _penalised(S, alpha, betas):
    """Row-wise best over non-empty column sets of (sum of savings - alpha - betas of the set size)."""
    sv = -np.sort(-S, axis=1)
    b = np.broadcast_to(np.asarray(betas, dtype=float), (S.shape[1],)) if np.ndim(betas) else np.full(S.shape[1], float(betas))
    return (np.cumsum(sv - b[None, :], axis=1) - alpha).max(axis=1)


def check_long(case):
    from skchange.anomaly_detectors import CAPA, MVCAPA
    from skchange.anomaly_detectors import mvcapa as M
    from skchange.anomaly_scores import to_saving

    n, p, msl, maxl = case["n"], case["p"], case["msl"], case["maxl"]
    rng = np.random.Generator(np.random.PCG64(case["seed"]))
    X = rng.normal(size=(n, p))
    t = int(rng.integers(5, 60))
    while t < n - 2:
        kind = rng.integers(0, 4)
        cols = rng.random(p) < 0.6
        cols[int(rng.integers(0, p))] = True
        if kind == 0:
            X[t, cols] += float(rng.choice([6.0, -8.0, 12.0]))
            t += int(rng.integers(1, 40))
        else:
            L = int(rng.integers(msl, max(msl + 1, min(maxl, 60))))
            X[t:t + L, cols] += float(rng.choice([1.5, -2.0, 3.0, 0.8]))
            t += L + int(rng.integers(0, 80))
    cs, ps = make_saving(case["coll"], p), make_saving("L2Saving", p)
    with sut(f"{case['detector']}.fit/predict (long series)"):
        if case["detector"] == "CAPA":
            det = CAPA(cs, ps, case["c_scale"], case["p_scale"], msl, maxl).fit(X)
        else:
            det = MVCAPA(cs, ps, case["c_pen"], case["c_scale"], case["p_pen"], case["p_scale"], msl, maxl).fit(X)
        y = det.predict(X)
        scores = det.transform_scores(X).to_numpy().reshape(-1)
    fresh_c = to_saving(make_saving(case["coll"], p)).fit(X)
    fresh_p = to_saving(make_saving("L2Saving", p)).fit(X)
    if case["detector"] == "CAPA":
        ca, cb, pa, pb = float(det.collective_penalty_), np.zeros(p), float(det.point_penalty_), np.zeros(p)
    else:
        fam = {"dense": M.dense_mvcapa_penalty, "sparse": M.sparse_mvcapa_penalty,
               "intermediate": M.intermediate_mvcapa_penalty, "combined": M.combined_mvcapa_penalty}
        ca, cb = fam[case["c_pen"]](n, p, fresh_c.get_param_size(1), case["c_scale"])
        pa, pb = fam[case["p_pen"]](n, p, fresh_p.get_param_size(1), case["p_scale"])
        ca, cb, pa, pb = float(ca), np.asarray(cb, dtype=float), float(pa), np.asarray(pb, dtype=float)
    Pt = _penalised(np.asarray(fresh_p.evaluate(np.column_stack((np.arange(n), np.arange(1, n + 1))))), pa, pb)
    F = np.zeros(n + 1)
    big = float(np.abs(Pt).max())
    for e in range(1, n + 1):
        best = max(F[e - 1], F[e - 1] + Pt[e - 1])
        starts = np.arange(max(0, e - maxl), e - msl + 1)
        if starts.size:
            S = np.asarray(fresh_c.evaluate(np.column_stack((starts, np.full(starts.size, e)))))
            v = F[starts] + _penalised(S, ca, cb)
            best = max(best, float(v.max()))
        F[e] = best
    events, closed = events_from_predict(y)
    tol = 64 * (n + 1) * np.finfo(float).eps * (1.0 + float(F[-1]) + big + ca + pa)
    if len(scores) != n:
        raise Violation("scores do not have one entry per sample", got=len(scores), n=n)
    bad = np.flatnonzero(np.abs(scores - F[1:]) > tol)
    if bad.size:
        e = int(bad[0]) + 1
        raise Violation("cumulative score differs from the optimal total penalised saving of the prefix", prefix_length=e,
                        reported=float(scores[e - 1]), optimum=float(F[e]), n_prefixes_off=int(bad.size))
    total, prev = 0.0, 0
    for a, b in events:
        if not (prev <= a < b <= n) or (b - a > 1 and not msl <= b - a <= maxl):
            raise Violation("reported anomalies overlap, are unsorted, outside the data or of inadmissible length", anomaly=[a, b])
        prev = b
        if b - a == 1:
            total += float(Pt[a])
        else:
            total += float(_penalised(np.asarray(fresh_c.evaluate(np.array([[a, b]]))), ca, cb)[0])
    if abs(total - scores[-1]) > tol:
        raise Violation("re-evaluating the reported anomalies does not give the final score", reevaluated=total,
                        final_score=float(scores[-1]), n_events=len(events))
    return {"nontrivial": len(events) >= 3, "classes": [f"detector={case['detector']}", f"n>={n // 1000}000", f"events>={min(len(events) // 10 * 10, 100)}"]}


FACETS = [
    Facet(
        name="dense_wide_mvcapa", kind="enumerate", enumerate=dense_wide_cells, check=check_dense_wide, exhaustive=True,
        rule=("MVCAPA (L2 saving; dense / combined / intermediate collective and dense / combined / sparse point penalties, scale 1) on 16 and 40 "
              "channels (thorough: 16-64), 70-76 samples of quiet noise with a common shift over 20 samples and a one-sample glitch in ALL channels, "
              "each worth 0.8 or 0.95 of the per-channel sparse penalty per channel; same un-pruned reference and re-evaluation of the reported "
              "anomalies as builtin_savings; non-trivial = the dense collective event is reported"),
        shards_quick=8, shards_thorough=8, max_samples=1,
    ),
    Facet(
        name="exhaustive_small_capa", kind="enumerate", enumerate=small_capa_cases, check=check_builtin, exhaustive=True,
        rule=("CAPA with the L2 saving on every univariate data vector over {-2,0,1,3}^n, n in 2..5 (thorough: 8), (msl,maxl) in "
              "{(2,2),(2,1000),(3,4)}, three penalty-scale pairs incl. (0,0): exhaustive; non-trivial = >=1 anomaly"),
        shards_quick=16, shards_thorough=16, max_samples=1,
    ),
    Facet(
        name="table_savings",
        check=check_table,
        strategy=table_cases,
        rule=("user-defined integer TableSaving (|sum u| or max(0,sum u) minus a per-sample charge, sub-additive closure of a signed table), p 1..3, n in [msl,14], "
              "msl 2..4, maxl in [msl,n+2]; CAPA with penalty scales incl. 0 and MVCAPA with user penalty callables "
              "(integer alpha, betas zero/equal/arbitrary); non-trivial = optimum contains >=1 collective anomaly"),
        n_quick=1600, n_thorough=25000, shards_quick=8, shards_thorough=16,
    ),
    Facet(
        name="builtin_savings",
        check=check_builtin,
        strategy=builtin_cases,
        rule=("L2Saving / Saving(L2Cost(0)) / Saving(GaussianVarCost) / Saving(GaussianCovCost) / cost passed directly, "
              "CAPA and MVCAPA with all four penalty families x scales, structured data with bumps and spikes "
              "(also in the first msl-1 samples, adjacent events; optionally one early sentinel value of magnitude 1e4..1e6); scores compared at 64 (n+1) eps relative; non-trivial = >=1 anomaly and savings sub-additive"),
        n_quick=640, n_thorough=8000, shards_quick=8, shards_thorough=16,
    ),
    Facet(
        name="staggered_mvcapa",
        check=check_builtin,
        strategy=staggered_cases,
        rule=("MVCAPA (p 2..6, n 24..44, sparse / combined / intermediate collective penalties at scales 0.5..3) on a long anomaly that "
              "one column starts alone, that is interrupted for 1-3 samples, and that the other columns join later with weak "
              "signals (the optimal column set of a start changes while the anomaly grows); half of the cases are placed at the "
              "pruning boundary (the start trails the running optimum by between the smallest and the largest penalty it can pay, the "
              "other columns' savings still just below their penalty); same exhaustive reference optimum; "
              "non-trivial = >=1 anomaly and savings sub-additive"),
        n_quick=240, n_thorough=4000, shards_quick=8, shards_thorough=16,
    ),
    Facet(
        name="small_integer_series", check=check_builtin, strategy=small_integer_cases,
        rule=("many cheap univariate cases: series of 10..30 small integers (-1..4: ties, many anomalous stretches), msl 2..4, "
              "max_segment_length msl+1..8 (binding), collective scales 0.1..1 and point scales 1..4, CAPA and MVCAPA; same exhaustive "
              "reference optimum; non-trivial = >=1 anomaly and savings sub-additive"),
        n_quick=4000, n_thorough=60000, shards_quick=16, shards_thorough=16,
    ),
    Facet(
        name="default_settings", kind="enumerate", enumerate=default_cells, check=check_default, exhaustive=True, time_limit=300,
        rule=("CAPA / MVCAPA with their default hyper-parameters (L2 savings, msl 2, max_segment_length 1000, scales 2, combined / sparse penalties; "
              "variants: max_segment_length 50, msl 5, scales 1) on median-centred realistic series of 100-320 samples, p 1..3 (seeded); same exhaustive "
              "reference optimum; 64 cells (thorough: 768), non-trivial = >=1 anomaly and savings sub-additive"),
        shards_quick=16, shards_thorough=16, max_samples=1,
    ),
    Facet(
        name="long_series", kind="enumerate", enumerate=long_cells, check=check_long, exhaustive=True, time_limit=900,
        rule=("CAPA / MVCAPA on series of 1000..8000 samples (thorough: up to 66000; p 1..8) with seeded noise, point anomalies and collective "
              "anomalies on column subsets, bounded max_segment_length (25..300): every prefix score compared with the un-pruned recursion over "
              "the same saving values at 64 (n+1) eps relative, reported anomalies re-evaluated; 6 cells (thorough: 12), non-trivial = >= 3 anomalies"),
        shards_quick=6, shards_thorough=12, max_samples=1,
    ),
]

"""C14 - documented-valid configurations always run; invalid ones fail with ValueError."""

import itertools
import json
import math
import os

import numpy as np
from hypothesis import strategies as st

from checks import common as K
from framework.core import Facet, Violation, hash32, sut

PROPERTY_ID = "C14"
TECHNIQUE = "finite hyper-parameter x length x data-kind grid (exhaustive in the thorough tier, seeded sample in the quick tier) against an outcome model; watchdog expiry is a violation"
ASSUMPTIONS = [
    "outcome model: valid cell => fit/predict/transform return within the watchdog with well-formed output; "
    "accepted alternatives: documented not-PD RuntimeError (multivariate Gaussian scorer), ValueError when the cost's minimum size exceeds the requested segment length / bandwidth",
    "regions the documentation leaves unspecified are not generated: MovingWindow.min_detection_interval in (bw/2-1, bw/2], "
    "MovingWindow.level outside (0,1), PELT(penalty_scale=None), MVCAPA 'intermediate' penalty with p=1, multivariate input to StatThresholdAnomaliser",
    "well-formedness is not asserted when a tuned threshold is rounded below 0 (termination still is)",
]

L2 = {"cls": "L2Cost"}
GV = {"cls": "GaussianVarCost"}
GC = {"cls": "GaussianCovCost"}
L2F = {"cls": "L2Cost", "param": 0.0}
GVF = {"cls": "GaussianVarCost", "param": {"tuple": [0.0, 1.0]}}
GCF = {"cls": "GaussianCovCost", "param": {"tuple": [0.0, 1.0]}}

DATA_KINDS = ["const0", "const0.1", "ties", "step", "spike", "generic"]


def make_data(kind, n, p, nan):
    if kind == "const0":
        X = np.zeros((n, p))
    elif kind == "const0.1":
        X = np.full((n, p), 0.1)
    elif kind == "ties":
        X = np.array([[float((i + j) % 3) for j in range(p)] for i in range(n)])
    elif kind == "step":
        X = np.array([[(5.0 if i >= n // 2 else 0.0) + ((i * 7 + j * 3) % 4) * 0.25 for j in range(p)] for i in range(n)])
    elif kind == "spike":
        X = np.array([[((i * 5 + j) % 3) * 0.5 for j in range(p)] for i in range(n)])
        X[n // 3, :] += 10.0
    else:
        X = np.array([[math.sin(1.3 * (i + 1) + 2.1 * j) * 2 + math.cos(0.37 * i * (j + 1)) for j in range(p)] for i in range(n)])
    if nan:
        X = X.copy()
        X[n // 2, 0] = np.nan
    return X


def ns_around(n_min):
    return [n for n in (n_min - 2, n_min - 1, n_min, n_min + 1, n_min + 2, n_min + 3, n_min + 17) if n >= 1]


def valid_cells():
    """Every cell of the documented-valid hyper-parameter grid, crossed with n, p, data."""
    scales = [0.0, 1.0, 2.5]
    tuned = [0.0, 1.0, 2.5, None]
    levels = [1e-8, 0.01, 0.5, 0.99]

    def data_axes(n_min, ps=(1, 2, 3), big=True):
        for n in ns_around(n_min):
            for p in ps:
                for kind in DATA_KINDS:
                    yield n, p, kind, False
                    if kind == "generic" and n >= n_min:
                        yield n, p, kind, True

    # PELT
    for cost, scale, msl in itertools.product([None, L2, GV, GC], scales, [1, 2, 3, 5]):
        params = {"cost": cost, "penalty_scale": scale, "min_segment_length": msl}
        for n, p, kind, nan in data_axes(2 * msl):
            yield {"detector": "PELT", "params": params, "n": n, "p": p, "data": kind, "nan": nan, "n_min": 2 * msl}
    # MovingWindow
    for cs, bw, ts, (level, mdi_hi) in itertools.product([None, L2, GV, GC], [1, 2, 4, 7], tuned,
                                                         [(0.01, False), (0.5, True), (1e-8, False), (0.99, False),
                                                          # "level > 0": also levels below the spacing of doubles around 1 (the default
                                                          # threshold is then infinite: nothing is detected, but the configuration runs)
                                                          (1e-17, False), (1e-300, False)]):
        mdi = int(max(1, bw / 2 - 1)) if mdi_hi else 1
        params = {"change_score": cs, "bandwidth": bw, "threshold_scale": ts, "level": level,
                  "min_detection_interval": mdi}
        for n, p, kind, nan in data_axes(2 * bw, ps=(1, 2)):
            if level in (1e-8, 0.99, 1e-17, 1e-300) and kind not in ("const0.1", "step"):
                continue
            yield {"detector": "MovingWindow", "params": params, "n": n, "p": p, "data": kind, "nan": nan, "n_min": 2 * bw}
    # Seeded / Circular binary segmentation
    for det, key, scorers in (("SeededBinarySegmentation", "change_score", [None, L2, GV, GC]),
                              ("CircularBinarySegmentation", "anomaly_score", [None, GV, GC])):
        for sc, ts, msl, mil_kind, gf in itertools.product(scorers, tuned, [1, 2, 3], ["2msl", "2msl+5", "200"],
                                                           [1.01, 1.5, 2.0]):
            mil = {"2msl": 2 * msl, "2msl+5": 2 * msl + 5, "200": 200}[mil_kind]
            level = 0.01 if gf != 1.5 else 0.5
            params = {key: sc, "threshold_scale": ts, "level": level, "min_segment_length": msl,
                      "max_interval_length": mil, "growth_factor": gf}
            ps = (1, 2) if det.startswith("Seeded") else (1, 2)
            for n, p, kind, nan in data_axes(2 * msl, ps=ps):
                if det.startswith("Circular") and (n > 2 * msl + 3 and kind in ("ties", "spike")):
                    continue
                if gf == 1.01 and kind not in ("const0.1", "step", "generic"):
                    continue
                yield {"detector": det, "params": params, "n": n, "p": p, "data": kind, "nan": nan, "n_min": 2 * msl}
    # CAPA / MVCAPA
    for det in ("CAPA", "MVCAPA"):
        colls = [None, L2F, GVF] + ([GCF] if det == "CAPA" else [])
        for coll, cscale, pscale, msl, maxl_kind, ign in itertools.product(colls, scales, [0.0, 1.0], [2, 3, 5],
                                                                            ["=min", "min+4", "1000"], [False, True]):
            maxl = {"=min": msl, "min+4": msl + 4, "1000": 1000}[maxl_kind]
            params = {"collective_saving": coll, "point_saving": None, "collective_penalty_scale": cscale,
                      "point_penalty_scale": pscale, "min_segment_length": msl, "max_segment_length": maxl,
                      "ignore_point_anomalies": ign}
            fams = [None] if det == "CAPA" else ["dense", "sparse", "intermediate", "combined"]
            for fam in fams:
                pp = dict(params)
                if fam:
                    pp["collective_penalty"] = fam
                    pp["point_penalty"] = "sparse" if fam != "sparse" else "dense"
                for n, p, kind, nan in data_axes(msl, ps=(1, 2, 3)):
                    if fam == "intermediate" and p < 2:
                        continue
                    if ign and (kind not in ("spike", "step") or maxl_kind != "min+4"):
                        continue
                    if pscale == 0.0 and (cscale != 1.0 or kind in ("ties", "const0")):
                        continue
                    if fam in ("dense", "sparse") and (p == 3 or cscale == 2.5):
                        continue
                    if coll is GVF and kind in ("ties", "const0") and p > 1:
                        continue
                    yield {"detector": det, "params": pp, "n": n, "p": p, "data": kind, "nan": nan, "n_min": msl}
    # StatThresholdAnomaliser
    inners = [({"cls": "PELT", "min_segment_length": 1, "penalty_scale": 0.5}, 2),
              ({"cls": "PELT", "min_segment_length": 3}, 6),
              ({"cls": "MovingWindow", "bandwidth": 1, "threshold_scale": 0.5}, 2),
              ({"cls": "MovingWindow", "bandwidth": 3}, 6),
              ({"cls": "SeededBinarySegmentation", "min_segment_length": 1, "max_interval_length": 2}, 2),
              ({"cls": "SeededBinarySegmentation", "min_segment_length": 3, "threshold_scale": None, "level": 0.1}, 6)]
    for (inner, n_min), stat, (lo, hi) in itertools.product(inners, ["np.mean", "np.median"], [(-1.0, 1.0), (0.0, 0.0), (0.3, 4.0)]):
        params = {"change_detector": inner, "stat": {"callable": stat}, "stat_lower": lo, "stat_upper": hi}
        for n, p, kind, nan in data_axes(n_min, ps=(1,)):
            yield {"detector": "StatThresholdAnomaliser", "params": params, "n": n, "p": p, "data": kind, "nan": nan,
                   "n_min": n_min}


def quick_sample(cells, rate):
    seed = int(os.environ.get("VERIF_SEED", "1") or 1)
    for i, c in enumerate(cells):
        if hash32(seed, "C14", i) % rate == 0:
            yield c


def valid_enumerate(tier):
    cells = valid_cells()
    return cells if tier == "thorough" else quick_sample(cells, 12)


def scorer_of(case):
    params = case["params"]
    if case["detector"] == "StatThresholdAnomaliser":
        params = params["change_detector"]
    specs = [v for k, v in params.items() if isinstance(v, dict) and "cls" in v]
    return specs


def requested_length(case):
    params = case["params"]
    if case["detector"] == "StatThresholdAnomaliser":
        params = params["change_detector"]
    return params.get("bandwidth", params.get("min_segment_length"))


def check_valid_cell(case):
    det_name, params = case["detector"], case["params"]
    n, p = case["n"], case["p"]
    X = make_data(case["data"], n, p, case["nan"])
    specs = scorer_of(case)
    multivariate = any(K.is_multivariate_scorer(s) for s in specs)
    need = max([K.scorer_min_size(s, p) for s in specs] + [1])
    req = requested_length(case)
    if req is None:
        req = {"PELT": 2, "MovingWindow": 30, "SeededBinarySegmentation": 5}.get(params["change_detector"]["cls"], 2)
    too_short_for_cost = need > req
    must_reject = case["nan"] or n < case["n_min"]
    classes = [f"det={det_name}"]
    outcome = None
    try:
        with sut(f"{det_name} construct/fit/predict/transform", allowed=(ValueError, RuntimeError)):
            det = K.build(K.detector_spec(det_name, params))
            det.fit(X)
            y = det.predict(X)
            yd = det.transform(X)
        outcome = "ran"
    except ValueError as e:
        outcome = "ValueError"
        msg = str(e)
    except RuntimeError as e:
        outcome = "RuntimeError"
        msg = str(e)
    if must_reject:
        if outcome != "ValueError":
            raise Violation(f"data with {'NaN' if case['nan'] else 'fewer samples than the documented minimum'} gave "
                            f"{outcome} instead of ValueError", n=n, n_min=case["n_min"], detector=det_name, params=params)
        classes.append("rejected_nan" if case["nan"] else "rejected_short")
        return {"nontrivial": n == case["n_min"] - 1 or case["nan"], "classes": classes}
    if outcome == "ValueError":
        if too_short_for_cost:
            return {"nontrivial": False, "classes": classes + ["cost_min_size_error_accepted"]}
        raise Violation(f"documented-valid configuration raised ValueError: {msg[:200]}", detector=det_name,
                        params=params, n=n, p=p, data=case["data"])
    if outcome == "RuntimeError":
        if multivariate and "positive definite" in msg:
            return {"nontrivial": False, "classes": classes + ["not_pd_error_accepted"]}
        raise Violation(f"documented-valid configuration raised RuntimeError: {msg[:200]}", detector=det_name,
                        params=params, n=n, p=p, data=case["data"])
    thr = getattr(det, "threshold_", None)
    if det_name == "StatThresholdAnomaliser":
        thr = getattr(det.change_detector_, "threshold_", None)
    if thr is not None and thr < 0:
        classes.append("negative_threshold")  # asserted as well since D35 (the output must be well-formed whatever the sign)
    info = K.check_wellformed(det_name, params if det_name != "StatThresholdAnomaliser" else params, n, p, y)
    if len(yd) != n:
        raise Violation("transform does not return one row per sample", rows=len(yd), n=n)
    if info["events"]:
        classes.append("has_detection")
    boundary = n == case["n_min"] or req == 1 or params.get("max_interval_length") == 2 * params.get("min_segment_length", -1) \
        or params.get("max_segment_length") == params.get("min_segment_length", -1)
    if boundary:
        classes.append("boundary_cell")
    return {"nontrivial": bool(info["events"]) or boundary, "classes": classes}


# ------------------------------------------------------------------ invalid grid

DEFAULT_N = 40


def invalid_cells():
    D = "detector"
    inv = []

    def add(det, params, why):
        inv.append({D: det, "params": params, "why": why})

    for s in (-0.1, -1.0, -1e-9):
        add("PELT", {"penalty_scale": s}, "negative penalty scale")
        add("MovingWindow", {"threshold_scale": s}, "negative threshold scale")
        add("SeededBinarySegmentation", {"threshold_scale": s}, "negative threshold scale")
        add("CircularBinarySegmentation", {"threshold_scale": s}, "negative threshold scale")
        for det in ("CAPA", "MVCAPA"):
            add(det, {"collective_penalty_scale": s}, "negative collective penalty scale")
            add(det, {"point_penalty_scale": s}, "negative point penalty scale")
    for m in (0, -1):
        add("PELT", {"min_segment_length": m}, "min_segment_length below 1")
        add("SeededBinarySegmentation", {"min_segment_length": m, "max_interval_length": 10}, "min_segment_length below 1")
        add("CircularBinarySegmentation", {"min_segment_length": m, "max_interval_length": 10}, "min_segment_length below 1")
        add("MovingWindow", {"bandwidth": m}, "bandwidth below 1")
    for det in ("CAPA", "MVCAPA"):
        for m in (1, 0, -3):
            add(det, {"min_segment_length": m}, "min_segment_length below 2")
        add(det, {"min_segment_length": 5, "max_segment_length": 4}, "max_segment_length below min_segment_length")
        add(det, {"min_segment_length": 2, "max_segment_length": 1}, "max_segment_length below min_segment_length")
    for det in ("SeededBinarySegmentation", "CircularBinarySegmentation"):
        add(det, {"min_segment_length": 5, "max_interval_length": 9}, "max_interval_length below 2*min_segment_length")
        add(det, {"min_segment_length": 1, "max_interval_length": 1}, "max_interval_length below 2*min_segment_length")
        for g in (1.0, 0.5, 2.0000001, 2.5, -1.5):
            add(det, {"growth_factor": g}, "growth_factor outside (1, 2]")
        for lv in (0.0, 1.0, -0.1, 1.5):
            add(det, {"level": lv}, "level outside (0, 1)")
    add("MovingWindow", {"level": -0.1}, "negative level")
    add("MovingWindow", {"bandwidth": 10, "min_detection_interval": 0}, "min_detection_interval below 1")
    add("MovingWindow", {"bandwidth": 10, "min_detection_interval": 6}, "min_detection_interval above bandwidth/2")
    for lo, hi in ((1.0, 0.0), (0.5, 0.4999), (10, -10)):
        add("StatThresholdAnomaliser", {"change_detector": {"cls": "PELT"}, "stat_lower": lo, "stat_upper": hi},
            "stat_lower above stat_upper")
    # the same invalid value next to valid non-default settings of the *other* hyper-parameters (validation must not depend
    # on which branch the companions select): penalty families / user callables, scorers, tuned thresholds
    lenient = {"penalty": {"alpha": 1.0, "betas": [0.5, 0.5]}}
    for s in (-1.0, -1e-9):
        for pen in ("dense", "sparse", "intermediate", "combined", lenient):
            add("MVCAPA", {"collective_penalty": pen, "collective_penalty_scale": s}, "negative collective penalty scale")
            add("MVCAPA", {"point_penalty": pen, "point_penalty_scale": s}, "negative point penalty scale")
            add("MVCAPA", {"collective_penalty": pen, "point_penalty": pen, "point_penalty_scale": s}, "negative point penalty scale")
        for sav in ({"cls": "L2Cost", "param": 0.0}, {"cls": "Saving", "baseline_cost": {"cls": "GaussianVarCost", "param": {"tuple": [0.0, 1.0]}}}):
            for det in ("CAPA", "MVCAPA"):
                add(det, {"collective_saving": sav, "collective_penalty_scale": s}, "negative collective penalty scale")
                add(det, {"point_saving": {"cls": "L2Cost", "param": 0.0}, "point_penalty_scale": s}, "negative point penalty scale")
        for sc in ({"cls": "L2Cost"}, {"cls": "GaussianVarCost"}, {"cls": "L1Cost"}):
            add("PELT", {"cost": sc, "penalty_scale": s}, "negative penalty scale")
            add("MovingWindow", {"change_score": sc, "threshold_scale": s}, "negative threshold scale")
            add("SeededBinarySegmentation", {"change_score": sc, "threshold_scale": s}, "negative threshold scale")
            add("CircularBinarySegmentation", {"anomaly_score": sc, "threshold_scale": s}, "negative threshold scale")
    for det in ("SeededBinarySegmentation", "CircularBinarySegmentation"):
        add(det, {"threshold_scale": None, "growth_factor": 2.5}, "growth_factor outside (1, 2]")
        add(det, {"threshold_scale": None, "level": 1.5}, "level outside (0, 1)")
        add(det, {"threshold_scale": None, "min_segment_length": 0, "max_interval_length": 10}, "min_segment_length below 1")
    add("MovingWindow", {"threshold_scale": None, "bandwidth": 0}, "bandwidth below 1")
    # NaN is not a number in any documented domain ("non-negative float", "int >= 1", "(1, 2]" ...): it must be rejected like any
    # other value outside the domain (D31: `value < minimum` is False for NaN)
    nan = {"float": "nan"}
    for det, keys in (("PELT", ("penalty_scale", "min_segment_length")),
                      ("MovingWindow", ("threshold_scale", "bandwidth", "level", "min_detection_interval")),
                      ("SeededBinarySegmentation", ("threshold_scale", "level", "min_segment_length", "max_interval_length", "growth_factor")),
                      ("CircularBinarySegmentation", ("threshold_scale", "level", "min_segment_length", "max_interval_length", "growth_factor")),
                      ("CAPA", ("collective_penalty_scale", "point_penalty_scale", "min_segment_length", "max_segment_length")),
                      ("MVCAPA", ("collective_penalty_scale", "point_penalty_scale", "min_segment_length", "max_segment_length"))):
        for key in keys:
            add(det, {key: nan}, f"NaN as {key}")
    out = []
    for c in inv:
        for route in ("constructor", "set_params"):
            out.append(dict(c, route=route))
    return out


def invalid_enumerate(tier):
    return invalid_cells()


def check_invalid_cell(case):
    det_name, params = case["detector"], case["params"]
    X = make_data("generic", DEFAULT_N, 2 if det_name != "StatThresholdAnomaliser" else 1, False)
    reg = K.registry()
    stage = "construct"
    try:
        with sut(f"{det_name}({case['why']}) via {case['route']}", allowed=(ValueError,)):
            if case["route"] == "constructor":
                det = K.build(K.detector_spec(det_name, params))
            else:
                if det_name == "StatThresholdAnomaliser":
                    det = reg[det_name](K.build({"cls": "PELT"}))
                else:
                    det = reg[det_name]()
                stage = "set_params"
                det.set_params(**K.build(params))
            stage = "fit"
            det.fit(X)
            stage = "predict"
            det.predict(X)
    except ValueError:
        return {"nontrivial": True, "classes": [f"rejected_at_{stage}", f"route={case['route']}"]}
    raise Violation("hyper-parameters outside the documented domain were accepted (no ValueError at construction, "
                    "set_params, fit or predict)", detector=det_name, params=params, why=case["why"], route=case["route"])


# ------------------------------------------------------------------ numpy-scalar hyper-parameters

NUMPY_CONFIGS = [
    ("PELT", {"penalty_scale": 1.0, "min_segment_length": 1}),
    ("PELT", {"penalty_scale": 0.0, "min_segment_length": 3}),
    ("MovingWindow", {"bandwidth": 1, "threshold_scale": 1.0}),
    ("MovingWindow", {"bandwidth": 8, "threshold_scale": 0.5, "level": 0.05, "min_detection_interval": 3}),
    ("MovingWindow", {"bandwidth": 3, "threshold_scale": None, "level": 0.1}),
    ("SeededBinarySegmentation", {"threshold_scale": 1.0, "min_segment_length": 1, "max_interval_length": 2, "growth_factor": 2.0}),
    ("SeededBinarySegmentation", {"threshold_scale": 0.5, "level": 0.01, "min_segment_length": 3, "max_interval_length": 20, "growth_factor": 1.5}),
    ("CircularBinarySegmentation", {"threshold_scale": 0.5, "min_segment_length": 2, "max_interval_length": 12, "growth_factor": 1.5}),
    ("CAPA", {"collective_penalty_scale": 1.0, "point_penalty_scale": 1.0, "min_segment_length": 2, "max_segment_length": 8}),
    ("MVCAPA", {"collective_penalty_scale": 0.5, "point_penalty_scale": 2.0, "min_segment_length": 3, "max_segment_length": 3}),
    ("StatThresholdAnomaliser", {"change_detector": {"cls": "PELT", "min_segment_length": 2}, "stat_lower": -1.0, "stat_upper": 1.0}),
]
NUMPY_TYPES = ["int64", "int32", "float64", "float32", "int_", "uint8"]


def numpy_scalar_cells(tier):
    for i, (det, params) in enumerate(NUMPY_CONFIGS):
        for t in NUMPY_TYPES:
            for kind in ("step", "generic"):
                yield {"detector": det, "params": params, "numpy_type": t, "data": kind}


def _as_numpy_scalars(params, t):
    """Integral values -> the integer type (or any type if it is a float type); other floats -> float types only."""
    out = {}
    for k, v in params.items():
        if isinstance(v, bool) or v is None or isinstance(v, dict):
            out[k] = K.build(v) if isinstance(v, dict) else v
        elif isinstance(v, int):
            out[k] = getattr(np, t)(v) if not t.startswith("float") else (getattr(np, t)(v) if k.endswith(("scale", "level", "lower", "upper", "factor")) else np.int64(v))
        else:
            out[k] = getattr(np, t)(v) if t.startswith("float") else (np.float64(v) if not float(v).is_integer() else getattr(np, t)(int(v)) if k.endswith(("scale", "lower", "upper")) and v >= 0 else np.float64(v))
    return out


def check_numpy_scalars(case):
    """Hyper-parameters given as numpy scalars (as produced by np.arange, rng.integers, .astype) are inside the
    documented domain exactly like the equal Python numbers: they must run and give the same detections."""
    det_name, params = case["detector"], case["params"]
    p = 1 if det_name == "StatThresholdAnomaliser" else 2
    X = make_data(case["data"], 40, p, False)
    reg = K.registry()
    with sut(f"{det_name} with Python-number hyper-parameters"):
        ref_det = K.build(K.detector_spec(det_name, params)).fit(X)
        want = ref_det.predict(X)
    np_params = _as_numpy_scalars(params, case["numpy_type"])
    with sut(f"{det_name} with numpy-scalar hyper-parameters ({case['numpy_type']})"):
        det = reg[det_name](**np_params).fit(X)
        got = det.predict(X)
        det.transform(X)
    from checks.c11 import sparse_signature
    a, b = sparse_signature(want), sparse_signature(got)
    if case["numpy_type"] in ("float32", "uint8"):
        # single-precision scales are slightly different numbers, and 8-bit integers overflow in products such as
        # n * max_interval_length (NumPy's own arithmetic, not a hyper-parameter check): only completion and
        # well-formed output are required, as the property states
        K.check_wellformed(det_name, params, len(X), p, got)
    elif a != b:
        raise Violation("numpy-scalar hyper-parameters give other detections than the equal Python numbers",
                        detector=det_name, params=params, numpy_type=case["numpy_type"], python=a, numpy=b)
    return {"nontrivial": True, "classes": [f"type={case['numpy_type']}", f"det={det_name}"]}


# ------------------------------------------------------------------ forms of missing values

NA_FORMS = ["float64_nan", "float32_nan", "Int64_NA", "Float64_NA", "object_None", "boolean_NA", "ndarray_nan", "series_nan"]


def missing_cells(tier):
    dets = [("PELT", {}), ("MovingWindow", {"bandwidth": 3}), ("SeededBinarySegmentation", {}),
            ("CAPA", {}), ("MVCAPA", {}), ("CircularBinarySegmentation", {"max_interval_length": 20}),
            ("StatThresholdAnomaliser", {"change_detector": {"cls": "PELT"}})]
    for det, params in dets:
        for form in NA_FORMS:
            for pos in ("first", "middle", "last"):
                for p in (1, 2):
                    for where in ("fit", "predict", "update", "transform", "fit_predict"):
                        if (det == "StatThresholdAnomaliser" or form == "series_nan") and p == 2:
                            continue
                        yield {"detector": det, "params": params, "form": form, "pos": pos, "p": p, "where": where}


def build_missing(form, n, p, pos):
    import pandas as pd

    i = {"first": 0, "middle": n // 2, "last": n - 1}[pos]
    base = np.array([[float((r * 3 + c) % 7) for c in range(p)] for r in range(n)])
    if form in ("float64_nan", "float32_nan", "ndarray_nan", "series_nan"):
        A = base.astype(np.float32 if form == "float32_nan" else np.float64)
        A[i, -1] = np.nan
        if form == "ndarray_nan":
            return A
        if form == "series_nan":
            return pd.Series(A[:, 0])
        return pd.DataFrame(A)
    cols = {}
    for c in range(p):
        col = list(base[:, c])
        if form == "Int64_NA":
            vals = [int(v) for v in col]
            if c == p - 1:
                vals[i] = pd.NA
            cols[f"c{c}"] = pd.array(vals, dtype="Int64")
        elif form == "Float64_NA":
            vals = list(col)
            if c == p - 1:
                vals[i] = pd.NA
            cols[f"c{c}"] = pd.array(vals, dtype="Float64")
        elif form == "boolean_NA":
            vals = [bool(int(v) % 2) for v in col]
            if c == p - 1:
                vals[i] = pd.NA
            cols[f"c{c}"] = pd.array(vals, dtype="boolean")
        else:
            vals = list(col)
            if c == p - 1:
                vals[i] = None
            cols[f"c{c}"] = np.array(vals, dtype=object)
    return pd.DataFrame(cols)


def finite_dtype_cells(tier):
    """Finite data held in pandas' nullable dtypes (Float64, Int64: what read_csv(dtype_backend="numpy_nullable") or convert_dtypes()
    produce) or in an object column: nothing is missing, so every detector must run - with every built-in scorer - and detect what it
    detects on the same numbers as float64."""
    scorers = {"PELT": ("cost", [None, {"cls": "L2Cost"}, {"cls": "GaussianVarCost"}, {"cls": "GaussianCovCost"}]),
               "MovingWindow": ("change_score", [None, {"cls": "GaussianVarCost"}, {"cls": "GaussianCovCost"}]),
               "SeededBinarySegmentation": ("change_score", [None, {"cls": "GaussianCovCost"}]),
               "CircularBinarySegmentation": ("anomaly_score", [None, {"cls": "GaussianCovCost"}]),
               "CAPA": ("collective_saving", [None, {"cls": "GaussianCovCost", "param": {"tuple": [0.0, 1.0]}}, {"cls": "GaussianVarCost", "param": {"tuple": [0.0, 1.0]}}]),
               "MVCAPA": ("collective_saving", [None, {"cls": "GaussianVarCost", "param": {"tuple": [0.0, 1.0]}}])}
    for det, (key, specs) in scorers.items():
        for spec in specs:
            for form in ("Float64", "Int64", "object"):
                for p in (1, 2):
                    yield {"detector": det, "key": key, "scorer": spec, "form": form, "p": p}


def check_finite_dtype(case):
    import pandas as pd

    det_name, p = case["detector"], case["p"]
    n = 40
    rng = np.random.Generator(np.random.PCG64(4100 + p))
    base = rng.standard_normal((n, p)) * 40.0   # (spread wide enough that no stretch of 6 rows is collinear after rounding)
    base[n // 2:] += 90.0
    base = np.round(base) if case["form"] == "Int64" else np.round(base, 3)
    params = {case["key"]: case["scorer"]}
    size = {"bandwidth": 6} if det_name == "MovingWindow" else {"min_segment_length": 6}
    if det_name == "CircularBinarySegmentation":
        size["max_interval_length"] = 24
    params.update(size)
    if case["form"] == "object":
        df = pd.DataFrame({f"c{j}": np.array(list(base[:, j]), dtype=object) for j in range(p)})
    else:
        df = pd.DataFrame({f"c{j}": pd.array([int(v) for v in base[:, j]] if case["form"] == "Int64" else list(base[:, j]), dtype=case["form"])
                           for j in range(p)})
    from checks.c11 import sparse_signature
    with sut(f"{det_name} on finite float64 data"):
        want = sparse_signature(K.build(K.detector_spec(det_name, params)).fit(base).predict(base))
    with sut(f"{det_name} on the same finite numbers held as {case['form']}"):
        det = K.build(K.detector_spec(det_name, params)).fit(df)
        got = sparse_signature(det.predict(df))
        det.transform(df)
    if got != want:
        raise Violation("finite data in a nullable / object dtype give other detections than the same numbers as float64", detector=det_name,
                        params=params, dtype=case["form"], float64=want, other=got)
    return {"nontrivial": bool(want["events"]), "classes": [f"det={det_name}", f"dtype={case['form']}", f"scorer={(case['scorer'] or {}).get('cls', 'default')}"]}


def check_missing(case):
    det_name = case["detector"]
    n, p = 24, case["p"]
    bad = build_missing(case["form"], n, p, case["pos"])
    clean = make_data("generic", n, p, False)
    stage = "fit"
    try:
        with sut(f"{det_name} on data with a missing value ({case['form']})", allowed=(ValueError,)):
            det = K.build(K.detector_spec(det_name, case["params"]))
            if case["where"] == "fit":
                det.fit(bad)
            elif case["where"] == "fit_predict":
                det.fit_predict(bad)
            elif case["where"] == "update":
                # the missing value arrives in a later chunk, in rows the detector has not seen before
                import pandas as pd

                first = pd.Series(np.asarray(clean)[:, 0]) if isinstance(bad, pd.Series) else pd.DataFrame(np.asarray(clean))
                det.fit(first)  # the same kind of container as the chunk (mixing them is outside C11's domain)
                stage = "update"
                # (rows that repeat stored index labels would have their missing values filled from the stored rows by the
                # pandas alignment in update - what that should mean is not stated; arrays always carry the labels 0..n-1)
                chunk = (pd.DataFrame(bad) if isinstance(bad, np.ndarray) else bad).set_axis(pd.RangeIndex(n, 2 * n), axis=0)
                det.update(chunk)
            else:
                det.fit(clean)
                stage = case["where"]
                getattr(det, case["where"])(bad)
    except ValueError:
        return {"nontrivial": True, "classes": [f"form={case['form']}", f"rejected_at_{stage}"]}
    raise Violation("data containing a missing value was accepted (ValueError expected)", detector=det_name,
                    form=case["form"], position=case["pos"], p=p, where=case["where"])


# ------------------------------------------------------------------ a fitted detector given a too short batch / a degenerate chunk


def fitted_cells(tier):
    """(i) A detector fitted on admissible data is given a batch shorter than its documented minimum through predict / transform /
    transform_scores: ValueError. (ii) A detector with a covariance score and a tuned threshold is updated with a chunk in which a
    channel is stuck: the documented not-positive-definite RuntimeError (or success) - through every entry point, not another class."""
    dets = [("PELT", {"min_segment_length": m}, 2 * m) for m in (1, 2, 5)] + \
           [("MovingWindow", {"bandwidth": b}, 2 * b) for b in (1, 3, 10)] + \
           [("SeededBinarySegmentation", {"min_segment_length": m, "max_interval_length": 4 * m}, 2 * m) for m in (1, 3)] + \
           [("CircularBinarySegmentation", {"min_segment_length": m, "max_interval_length": 4 * m}, 2 * m) for m in (1, 3)] + \
           [("CAPA", {"min_segment_length": m}, m) for m in (2, 5)] + [("MVCAPA", {"min_segment_length": m}, m) for m in (2, 5)] + \
           [("StatThresholdAnomaliser", {"change_detector": {"cls": "PELT", "min_segment_length": 3}}, 6)]
    for det, params, n_min in dets:
        for short in sorted({n_min - 1, max(1, n_min - 2), 1}):
            if short >= n_min:
                continue
            for method in ("predict", "transform", "transform_scores", "update_predict"):
                yield {"kind": "short_batch", "detector": det, "params": params, "n_min": n_min, "short": short, "method": method}
    for det, params in (("MovingWindow", {"change_score": {"cls": "GaussianCovCost"}, "bandwidth": 4, "threshold_scale": None}),
                        ("SeededBinarySegmentation", {"change_score": {"cls": "GaussianCovCost"}, "min_segment_length": 4, "max_interval_length": 16,
                                                      "threshold_scale": None, "level": 0.05}),
                        ("CircularBinarySegmentation", {"anomaly_score": {"cls": "GaussianCovCost"}, "min_segment_length": 4, "max_interval_length": 16,
                                                        "threshold_scale": None, "level": 0.05}),
                        ("PELT", {"cost": {"cls": "GaussianCovCost"}, "min_segment_length": 4})):
        for method in ("update", "update_predict", "predict", "transform", "fit_predict"):
            yield {"kind": "stuck_chunk", "detector": det, "params": params, "method": method}


def check_fitted(case):
    import pandas as pd

    det_name = case["detector"]
    p = 1 if det_name == "StatThresholdAnomaliser" else 2
    if case["kind"] == "short_batch":
        n_fit = case["n_min"] + 17
        good = pd.DataFrame(make_data("generic", n_fit, p, False))
        short = pd.DataFrame(make_data("generic", case["short"], p, False), index=pd.RangeIndex(n_fit, n_fit + case["short"]))
        det = K.build(K.detector_spec(det_name, case["params"]))
        method = case["method"]
        if method == "transform_scores" and det_name not in ("PELT", "MovingWindow", "CAPA", "MVCAPA"):
            method = "predict"
        try:
            with sut(f"{det_name}.{method} on a batch shorter than the documented minimum", allowed=(ValueError,)):
                det.fit(good)
                if method == "update_predict":
                    # (the update half refits on the combined, admissible data; the predict half sees the short chunk)
                    det.update_predict(short)
                else:
                    getattr(det, method)(short)
        except ValueError:
            return {"nontrivial": True, "classes": [f"kind=short_batch", f"method={method}", "n=min-" + str(case["n_min"] - case["short"])]}
        raise Violation("a fitted detector accepted a batch shorter than the documented minimum length (ValueError expected)",
                        detector=det_name, params=case["params"], minimum=case["n_min"], length=case["short"], method=method)
    # stuck chunk
    n = 40
    good = make_data("generic", n, 2, False)
    chunk = make_data("generic", 16, 2, False) * 0.7 + 0.3
    chunk[3:12, 1] = 20.0  # one channel is stuck for 9 samples
    det = K.build(K.detector_spec(det_name, case["params"]))
    method = case["method"]
    gdf = pd.DataFrame(good)
    cdf = pd.DataFrame(chunk, index=pd.RangeIndex(n, n + 16))
    try:
        with sut(f"{det_name}.{method} with a chunk in which a channel is stuck", allowed=(RuntimeError,)):
            if method == "fit_predict":
                det.fit_predict(cdf)
            else:
                det.fit(gdf)
                getattr(det, method)(cdf)
        outcome = "ran"
    except RuntimeError as e:
        if "positive definite" not in str(e):
            raise Violation(f"unexpected RuntimeError: {e}")
        outcome = "documented_RuntimeError"
    return {"nontrivial": outcome == "documented_RuntimeError", "classes": ["kind=stuck_chunk", f"method={method}", f"outcome={outcome}"]}


# ------------------------------------------------------------------ generated invalid configurations

BOUNDED_KEYS = {
    "PELT": ("penalty_scale", "min_segment_length"),
    "MovingWindow": ("threshold_scale", "bandwidth", "level", "min_detection_interval"),
    "SeededBinarySegmentation": ("threshold_scale", "level", "min_segment_length", "max_interval_length", "growth_factor"),
    "CircularBinarySegmentation": ("threshold_scale", "level", "min_segment_length", "max_interval_length", "growth_factor"),
    "CAPA": ("collective_penalty_scale", "point_penalty_scale", "min_segment_length", "max_segment_length"),
    "MVCAPA": ("collective_penalty_scale", "point_penalty_scale", "min_segment_length", "max_segment_length"),
}

_neg_float = st.one_of(st.sampled_from([-1.0, -0.5, -1e-9, -3.0]), st.floats(-1e6, -1e-12, allow_nan=False), st.integers(-1000, -1))


@st.composite
def generated_invalid_cases(draw, tier):
    """A configuration drawn inside the documented domain (the strategy C04 uses) in which ONE hyper-parameter is replaced by a
    value drawn from the complement of its documented domain; structural choices first, bulk data never (data are a fixed kind)."""
    det = draw(st.sampled_from(["PELT", "MovingWindow", "SeededBinarySegmentation", "CircularBinarySegmentation", "CAPA", "MVCAPA",
                                "StatThresholdAnomaliser"]))
    route = draw(st.sampled_from(["constructor", "set_params", "set_params_after_fit"]))
    p = 1 if det == "StatThresholdAnomaliser" else draw(st.integers(1, 3))
    params, n_min = draw(K.detector_params(det, p, allow_cov=False))
    target, tparams, prefix = det, params, ""
    if det == "StatThresholdAnomaliser":
        if draw(st.integers(0, 3)) == 0:
            lo = draw(st.one_of(st.sampled_from([1.0, 0.0, -2.5]), st.floats(-50, 50, allow_nan=False)))
            gap = draw(st.one_of(st.sampled_from([1.0, 1e-9, 20.0]), st.floats(1e-9, 100, allow_nan=False)))
            if lo - gap < lo:
                bad = {"stat_lower": lo, "stat_upper": lo - gap}
                return {"detector": det, "params": params, "p": p, "n": max(n_min, 8) + draw(st.integers(0, 30)), "bad": bad,
                        "why": "stat_lower above stat_upper", "route": route, "prefix": ""}
        target = params["change_detector"]["cls"]
        tparams = {k: v for k, v in params["change_detector"].items() if k != "cls"}
        prefix = "change_detector__"
    key = draw(st.sampled_from(BOUNDED_KEYS[target]))
    msl = tparams.get("min_segment_length", 1)
    as_nan = draw(st.integers(0, 7)) == 0
    bad, why = {}, None
    if as_nan:
        bad, why = {key: {"float": "nan"}}, f"NaN as {key}"
    elif key.endswith("_scale"):
        bad, why = {key: draw(_neg_float)}, f"negative {key}"
    elif key == "min_segment_length":
        least = 2 if target in ("CAPA", "MVCAPA") else 1
        bad, why = {key: draw(st.integers(-6, least - 1))}, f"min_segment_length below {least}"
    elif key == "bandwidth":
        bad, why = {key: draw(st.integers(-6, 0))}, "bandwidth below 1"
    elif key == "max_segment_length":
        bad, why = {key: draw(st.integers(msl - 12, msl - 1))}, "max_segment_length below min_segment_length"
    elif key == "max_interval_length":
        bad, why = {key: draw(st.integers(2 * msl - 12, 2 * msl - 1))}, "max_interval_length below 2*min_segment_length"
    elif key == "growth_factor":
        g = draw(st.one_of(st.sampled_from([1.0, 2.0000001, 0.5, 3.0, -1.5, 0.0]), st.floats(-5.0, 1.0, allow_nan=False),
                           st.floats(2.0000001, 1e3, allow_nan=False)))
        bad, why = {key: g}, "growth_factor outside (1, 2]"
    elif key == "level":
        if target == "MovingWindow":
            bad, why = {key: draw(st.one_of(st.sampled_from([-0.1, -1.0]), st.floats(-10, -1e-9, allow_nan=False)))}, "negative level"
        else:
            lv = draw(st.one_of(st.sampled_from([0.0, 1.0, -0.1, 1.5]), st.floats(-10, 0.0, allow_nan=False), st.floats(1.0, 10, allow_nan=False)))
            bad, why = {key: lv}, "level outside (0, 1)"
    elif key == "min_detection_interval":
        bw = tparams["bandwidth"]
        lo_bad = max(1, bw // 2) + 1  # above bandwidth / 2 (documentation) and above max(1, bandwidth / 2 - 1) (the check)
        hi = draw(st.integers(lo_bad, lo_bad + 7))
        bad, why = {key: draw(st.sampled_from([0, -1, hi, hi]))}, "min_detection_interval below 1 or above bandwidth/2"
    return {"detector": det, "params": params, "p": p, "n": max(n_min, 8) + draw(st.integers(0, 30)),
            "bad": {prefix + k: v for k, v in bad.items()}, "why": why, "route": route, "prefix": prefix}


def _merge_bad(params, bad):
    out = json.loads(json.dumps(params))
    for k, v in bad.items():
        parts = k.split("__")
        d = out
        for q in parts[:-1]:
            d = d[q]
        d[parts[-1]] = v
    return out


def check_generated_invalid(case):
    det_name, params, bad = case["detector"], case["params"], case["bad"]
    X = make_data("generic", case["n"], case["p"], False)
    stage = "construct"
    try:
        with sut(f"{det_name}({case['why']}) via {case['route']}", allowed=(ValueError, RuntimeError)):
            if case["route"] == "constructor":
                det = K.build(K.detector_spec(det_name, _merge_bad(params, bad)))
            else:
                det = K.build(K.detector_spec(det_name, params))  # inside the documented domain
                if case["route"] == "set_params_after_fit":
                    stage = "valid fit"
                    det.fit(X)
                stage = "set_params"
                det.set_params(**K.build(bad))
            stage = "fit"
            det.fit(X)
            stage = "predict"
            det.predict(X)
    except ValueError:
        if stage == "valid fit":
            return {"nontrivial": False, "classes": ["valid_configuration_rejected_by_cost_min_size"]}
        return {"nontrivial": True, "classes": [f"rejected_at_{stage}", f"route={case['route']}", f"det={det_name}",
                                                "nan" if "NaN" in case["why"] else "out_of_domain"]}
    except RuntimeError:
        if stage == "valid fit":
            return {"nontrivial": False, "classes": ["valid_fit_runtime_error"]}
        raise Violation("hyper-parameters outside the documented domain ended in a RuntimeError instead of ValueError",
                        detector=det_name, params=params, bad=bad, why=case["why"], route=case["route"], stage=stage)
    raise Violation("hyper-parameters outside the documented domain were accepted (no ValueError at construction, "
                    "set_params, fit or predict)", detector=det_name, params=params, bad=bad, why=case["why"], route=case["route"])


FACETS = [
    Facet(name="valid_grid", kind="enumerate", enumerate=valid_enumerate, check=check_valid_cell,
          timeout_is_violation=True, time_limit=20.0, exhaustive=True, exhaustive_tiers=("thorough",),
          rule=("finite grid: per detector the boundary and interior values of every hyper-parameter x scorer choices x "
                "n in {min-2..min+3, min+17} x p in 1..3 x six data kinds (constant 0, constant 0.1, integer ties, step, "
                "spike, generic) x with/without one NaN; thorough tier enumerates every cell, quick tier a VERIF_SEED-"
                "dependent 1/12 sample; non-trivial = boundary cells (n at the minimum, length parameter 1, max==min) "
                "or cells with a detection, and the must-reject cells next to the minimum length / with NaN"),
          shards_quick=16, shards_thorough=16, max_samples=3),
    Facet(name="invalid_grid", kind="enumerate", enumerate=invalid_enumerate, check=check_invalid_cell,
          exhaustive=True, timeout_is_violation=True, time_limit=20.0,
          rule=("every invalid hyper-parameter class named in the property (negative scales, min_segment_length below "
                "its minimum, max below min, growth factor outside (1,2], level outside (0,1), bandwidth < 1, "
                "stat_lower > stat_upper) through the constructor and through set_params, followed by fit/predict - alone and next to valid non-default "
                "companions (every penalty family and a user callable, other savings / scorers, tuned thresholds); "
                "ValueError must be raised at some stage; every cell is non-trivial"),
          shards_quick=4, shards_thorough=4),
    Facet(name="generated_invalid", check=check_generated_invalid, strategy=generated_invalid_cases,
          rule=("a configuration drawn inside the documented domain (all seven detectors, p 1..3, the hyper-parameter strategy of C04) in which ONE "
                "hyper-parameter - also of the change detector wrapped by StatThresholdAnomaliser, through change_detector__<name> - is replaced by a value "
                "drawn from the complement of its documented domain (negative scales of any size, lengths below their minimum, maximum below minimum, "
                "growth factor <= 1 or > 2, level outside (0,1) / negative, min_detection_interval < 1 or > bandwidth/2, stat_lower > stat_upper, NaN), "
                "through the constructor, through set_params on the valid object, or through set_params after a fit; ValueError must be raised at "
                "construction, set_params, fit or predict; non-trivial = rejected"),
          n_quick=400, n_thorough=6000, shards_quick=4, shards_thorough=8),
    Facet(name="fitted_detector_entry_points", kind="enumerate", enumerate=fitted_cells, check=check_fitted, exhaustive=True,
          timeout_is_violation=True, time_limit=20.0,
          rule=("(i) all seven detectors (several minimum lengths) fitted on admissible data, then predict / transform / transform_scores / update_predict "
                "with a batch of minimum-1, minimum-2 and 1 rows: ValueError expected; (ii) covariance-scored detectors (tuned thresholds) given a chunk "
                "in which a channel is stuck through update / update_predict / predict / transform / fit_predict: the documented RuntimeError or "
                "completion, no other exception class; non-trivial = rejected / documented error raised"),
          shards_quick=8, shards_thorough=8),
    Facet(name="numpy_scalar_hyperparameters", kind="enumerate", enumerate=numpy_scalar_cells, check=check_numpy_scalars,
          exhaustive=True, timeout_is_violation=True, time_limit=20.0,
          rule=("11 valid configurations (boundary values included) of the seven detectors with every numeric hyper-parameter "
                "given as a numpy scalar (int64, int32, float64, float32, int_, uint8) x two data kinds: must run and give the "
                "same detections as the equal Python numbers; every cell is non-trivial"),
          shards_quick=4, shards_thorough=4),
    Facet(name="finite_nullable_dtypes", kind="enumerate", enumerate=finite_dtype_cells, check=check_finite_dtype, exhaustive=True,
          rule=("six detectors x their built-in scorers (default, L2, univariate and multivariate Gaussian) x finite data held as pandas Float64 / Int64 "
                "(nullable) or object columns x p in {1,2}: must run to completion (predict and transform) and give the detections of the same numbers "
                "as float64; non-trivial = >= 1 detection"),
          shards_quick=8, shards_thorough=8),
    Facet(name="missing_value_forms", kind="enumerate", enumerate=missing_cells, check=check_missing, exhaustive=True,
          timeout_is_violation=True, time_limit=20.0,
          rule=("seven detectors x eight forms of a missing value (NaN in float64 / float32 frames, arrays and Series, pd.NA in "
                "nullable Int64 / Float64 / boolean columns, None in an object column) x position first/middle/last x p in {1,2} x "
                "in the data given to fit, predict, transform, fit_predict, or to update as a chunk of new rows: ValueError expected; every cell is non-trivial"),
          shards_quick=8, shards_thorough=8),
]

"""C17 - StatThresholdAnomaliser flags exactly the out-of-range segments."""

import numpy as np
from hypothesis import strategies as st

from checks import common as K
from framework.core import Facet, Violation, sut
from strategies import data as D

PROPERTY_ID = "C17"
TECHNIQUE = "Hypothesis-generated wrapped detectors (incl. user-defined ones returning given changepoints) x statistics x bounds x data containers vs. a segment-statistic reference model built from a clone's changepoints"
ASSUMPTIONS = [
    "reference changepoints come from a clone of the wrapped detector fitted and applied to the same data",
    "statistics are recomputed by the oracle on X[b_i:b_{i+1}] with the same callable; bounds are generated around the data's segment statistics so that boundary comparisons occur",
]

STATS = ["np.mean", "np.median", "np.max", "range", "second_smallest", "first", "last", "method_std", "sample_std", "lag1_autocorr",
         "roughness", "iqr", "log_var", "inv_std"]


@st.composite
def inner_spec(draw, inner, n=None):
    if inner in ("FixedChangeDetector", "IndexLabelChangeDetector", "SupervisedChangeDetector"):
        if n is None:
            n = draw(st.integers(2, 40))
        k = draw(st.integers(0, min(6, n - 1)))
        cpts = sorted(draw(st.lists(st.integers(1, n - 1), min_size=k, max_size=k, unique=True)))
        return {"cls": inner, "changepoints": cpts}, n
    ip, n_min = draw(K.detector_params(inner, 1, max_msl=3, max_bw=4, allow_cov=False))
    return dict(cls=inner, **ip), n_min


@st.composite
def cases(draw, tier):
    # all structural choices first, the bulk data last (see strategies/data.py)
    inner = draw(st.sampled_from(["FixedChangeDetector", "IndexLabelChangeDetector", "PELT", "MovingWindow", "SeededBinarySegmentation",
                                  "SupervisedChangeDetector"]))
    fixed = inner in ("FixedChangeDetector", "IndexLabelChangeDetector", "SupervisedChangeDetector")
    ispec, n = draw(inner_spec(inner))
    # a supervised user detector: the anomaliser is fitted with an annotation y, which its clone of the detector must receive
    y_cpts = sorted(draw(st.lists(st.integers(1, max(1, n - 1)), min_size=1, max_size=4, unique=True))) if inner == "SupervisedChangeDetector" and n >= 2 else None
    if not fixed:
        n = draw(st.integers(n, max(n, 40)))
    stat = draw(st.sampled_from(STATS))
    lo_sel = (draw(st.booleans()), draw(st.integers(0, 8)), draw(st.floats(-15, 15, allow_nan=False)))
    hi_sel = (draw(st.booleans()), draw(st.integers(0, 8)), draw(st.floats(0, 20, allow_nan=False)))
    one_sided = draw(st.sampled_from([None, None, None, "no_lower_bound", "no_upper_bound", "unbounded"]))  # -inf / +inf bounds
    container = draw(st.sampled_from(["DataFrame", "Series", "ndarray1d", "ndarray2d"]))
    index = draw(D.index_spec())
    npre = draw(st.integers(max(n, 8), 40)) if draw(st.integers(0, 3)) == 0 else None
    # what happens after the first fit / predict on the same anomaliser object
    second = draw(st.sampled_from([None, "set_params_refit", "refill_predict", "refill_refit", None, "new_bounds_refit"]))
    ispec2 = None
    if second == "set_params_refit":
        ispec2, n2_min = draw(inner_spec(inner, n if fixed else None))
        if not fixed and n2_min > n:
            second, ispec2 = None, None
    X, _ = draw(D.structured_matrix(n, 1, max_shifts=4, max_spikes=1, max_bumps=1))
    x = [row[0] for row in X]
    x2 = None
    if second in ("refill_predict", "refill_refit"):
        X2, _ = draw(D.structured_matrix(n, 1, max_shifts=4, max_spikes=1, max_bumps=1))
        x2 = [row[0] for row in X2]
    # bounds around the statistics of the data so that both flagged and unflagged segments occur
    pool = sorted(set([min(x), max(x), float(np.mean(x)), float(np.median(x)), 0.0] + x[:4]))
    lo = pool[lo_sel[1] % len(pool)] if lo_sel[0] else lo_sel[2]
    above = [v for v in pool if v >= lo] or [lo]
    hi = above[hi_sel[1] % len(above)] if hi_sel[0] else lo + hi_sel[2]
    if one_sided in ("no_lower_bound", "unbounded"):
        lo = "-inf"  # written as text: JSON has no infinity
    if one_sided in ("no_upper_bound", "unbounded"):
        hi = "inf"
    if inner == "IndexLabelChangeDetector" and index["kind"] in D.REPEAT_INDEX_KINDS:
        index = {"kind": "datetime_h", "start": index["start"]}  # labels are looked up: they must be unique
    prefit = None
    if npre is not None:
        # the user may pass a detector that is already fitted (on other data): a clone must still be
        # fitted on the anomaliser's own training data and the user's object must stay as it is
        Xp, _ = draw(D.structured_matrix(npre, 1, max_shifts=2, max_spikes=1, max_bumps=0))
        prefit = [row[0] * 3.0 for row in Xp]
    if y_cpts is not None:
        second, ispec2, x2 = None, None, None
    return {"inner": ispec, "stat": stat, "lo": lo, "hi": hi, "x": x, "prefit": prefit, "container": container, "index": index,
            "second": second, "inner2": ispec2, "x2": x2, "y_cpts": y_cpts}


def to_container(x, container, index_spec):
    import pandas as pd

    arr = np.asarray(x, dtype=float)
    if container == "ndarray2d":
        return arr.reshape(-1, 1)
    if container == "ndarray1d":
        return arr
    idx = D.build_index(index_spec, len(arr))
    if container == "Series":
        return pd.Series(arr, index=idx, name="y")
    return pd.DataFrame({"value": arr}, index=idx)


def check(case):
    from skchange.anomaly_detectors import StatThresholdAnomaliser

    x = np.asarray(case["x"], dtype=float)
    n = len(x)
    lo, hi = float(case["lo"]), float(case["hi"])
    stat = K.CALLABLES[case["stat"]]
    Xc = to_container(case["x"], case["container"], case["index"])
    user_det = K.build(case["inner"])
    prefit = case.get("prefit")
    fitted_before = None
    if prefit is not None:
        try:
            user_det.fit(np.asarray(prefit, dtype=float).reshape(-1, 1))
            fitted_before = {a: getattr(user_det, a) for a in ("threshold_", "penalty_", "n_fit_") if hasattr(user_det, a)}
        except ValueError:
            prefit = None
            user_det = K.build(case["inner"])
    params_before = repr(sorted(user_det.get_params(deep=True).items(), key=lambda kv: kv[0]))
    import pandas as pd

    y_fit = pd.DataFrame({"ilocs": [int(c) for c in case["y_cpts"]]}) if case.get("y_cpts") else None
    with sut("StatThresholdAnomaliser.fit/predict"):
        det = StatThresholdAnomaliser(user_det, stat, lo, hi)
        det = det.fit(Xc, y_fit) if y_fit is not None else det.fit(Xc)
        y = det.predict(Xc)
    # the user's detector object is neither fitted nor altered
    if prefit is None:
        if getattr(user_det, "_is_fitted", False) or hasattr(user_det, "threshold_") or hasattr(user_det, "penalty_") \
                or hasattr(user_det, "n_fit_"):
            raise Violation("the wrapped detector passed by the user was fitted (a clone should be)", inner=case["inner"])
    else:
        after = {a: getattr(user_det, a) for a in ("threshold_", "penalty_", "n_fit_") if hasattr(user_det, a)}
        if after != fitted_before:
            raise Violation("the (already fitted) wrapped detector passed by the user was re-fitted or altered",
                            before=str(fitted_before), after=str(after))
        if getattr(det, "change_detector_", None) is user_det:
            raise Violation("the anomaliser uses the user's detector object itself instead of a clone")
    if repr(sorted(user_det.get_params(deep=True).items(), key=lambda kv: kv[0])) != params_before:
        raise Violation("the wrapped detector's hyper-parameters were altered", inner=case["inner"])
    def expected(train, test):
        """Reference model: out-of-range segments of the segmentation found by a clone of the user's detector (as it
        is now) fitted on `train` and applied to `test` (plain copies of the numbers)."""
        with sut("clone of the wrapped detector fit/predict"):
            ref_det = user_det.clone()
            ref_det = ref_det.fit(np.asarray(train, dtype=float).reshape(-1, 1), y_fit) if y_fit is not None else \
                ref_det.fit(np.asarray(train, dtype=float).reshape(-1, 1))
            cpts = [int(v) for v in ref_det.predict(np.asarray(test, dtype=float).reshape(-1, 1))["ilocs"].tolist()]
        bounds = [0] + cpts + [len(test)]
        want, near = [], False
        for a, b in zip(bounds[:-1], bounds[1:]):
            v = float(stat(np.asarray(test, dtype=float)[a:b]))
            if v < lo or v > hi:
                want.append((a, b))
            if v in (lo, hi):
                near = True
        return want, near, cpts, bounds

    def compare(y, want, cpts, what):
        got = K.check_wellformed("StatThresholdAnomaliser", {}, n, 1, y)["events"]
        if got != want:
            raise Violation(f"{what}reported anomalies are not exactly the out-of-range segments of the wrapped detector's segmentation",
                            changepoints=cpts, expected=[list(e) for e in want], got=[list(e) for e in got],
                            stat=case["stat"], lo=case["lo"], hi=case["hi"])

    want, near_boundary, cpts, bounds = expected(x, x)
    compare(y, want, cpts, "")
    second = case.get("second")
    if second == "set_params_refit":
        # the user re-configures the detector they passed in and fits the anomaliser again
        with sut("set_params on the user's detector, then StatThresholdAnomaliser.fit/predict again"):
            user_det.set_params(**K.build(case["inner2"]).get_params(deep=False))
            y2 = det.fit(Xc).predict(Xc)
        want2, _, cpts2, _ = expected(x, x)
        compare(y2, want2, cpts2, "after set_params on the wrapped detector and a new fit: ")
    elif second == "new_bounds_refit":
        # the user tightens the bounds on the object they have (set_params: assigning the attributes directly is not an interface the
        # library supports - its detectors derive private state from their hyper-parameters in __init__) and fits again
        new_lo, new_hi = (lo + 0.5 * abs(lo) + 0.25, hi) if case["lo"] != "-inf" and lo + 0.5 * abs(lo) + 0.25 <= hi else (lo, hi)
        new_hi = new_hi - 0.25 * abs(new_hi) - 0.125 if np.isfinite(new_hi) and new_hi - 0.25 * abs(new_hi) - 0.125 >= new_lo else new_hi
        with sut("bounds changed with set_params, StatThresholdAnomaliser.fit/predict again"):
            det.set_params(stat_lower=new_lo, stat_upper=new_hi)
            y2 = det.fit(Xc).predict(Xc)
        lo, hi = new_lo, new_hi
        want2, _, cpts2, _ = expected(x, x)
        compare(y2, want2, cpts2, "after the bounds were changed with set_params and a new fit: ")
    elif second in ("refill_predict", "refill_refit"):
        # the caller's buffer is refilled in place with the next batch
        x2 = np.asarray(case["x2"], dtype=float)
        if isinstance(Xc, np.ndarray):
            Xc[...] = x2.reshape(Xc.shape)
        else:
            Xc.iloc[:] = x2 if Xc.ndim == 1 else x2.reshape(-1, 1)
        with sut("StatThresholdAnomaliser on the refilled buffer"):
            if second == "refill_refit":
                det.fit(Xc)
            y2 = det.predict(Xc)
        want2, _, cpts2, _ = expected(x2 if second == "refill_refit" else x, x2)
        compare(y2, want2, cpts2, "buffer refilled in place: ")
    classes = [f"inner={case['inner']['cls']}", f"container={case['container']}", f"stat={case['stat']}"]
    if prefit is not None:
        classes.append("user_detector_already_fitted")
    if any(e1[1] == e2[0] for e1, e2 in zip(want[:-1], want[1:])):
        classes.append("adjacent_flagged_segments")
    if want and len(want) < len(bounds) - 1:
        classes.append("mixed_flagged_and_normal")
    if near_boundary:
        classes.append("statistic_equals_a_bound")
    if np.isinf(lo) or np.isinf(hi):
        classes.append("infinite_bound")
    if second:
        classes.append(f"second={second}")
    return {"nontrivial": bool(want), "classes": classes}


FACETS = [
    Facet(name="flagged_segments", check=check, strategy=cases,
          rule=("wrapped detector in {user-defined FixedChangeDetector with generated changepoints, PELT, MovingWindow, "
                "SeededBinarySegmentation with generated settings}, stat in {mean, median, max, range, second smallest, first, last, x.std() (user "
                "functions; also statistics that are NaN on some segments - sample std of one point, autocorrelation of a flat stretch - and "
                "order-aware ones: roughness, inter-quartile range)}, bounds lo<=hi drawn from the data's own statistics or floats, univariate data as 2-D/1-D ndarray, "
                "Series or DataFrame with generated index; optionally followed, on the same anomaliser, by set_params on the user's detector + a new fit, "
                "or by predict / fit+predict after the caller's buffer was refilled in place; non-trivial = >= 1 flagged segment"),
          n_quick=800, n_thorough=8000, shards_quick=8, shards_thorough=16),
]

"""C07 - seeded binary segmentation reports exactly the greedy above-threshold splits."""

import numpy as np
from hypothesis import strategies as st

from checks import common as K
from framework.core import Facet, Violation, sut
from oracles import reference as ref
from strategies import data as D

PROPERTY_ID = "C07"
TECHNIQUE = "Hypothesis-generated settings/scorers/data; brute-force argmax per interval via an independent scorer instance + set-valued greedy model on the reported table; metamorphic threshold monotonicity"
ASSUMPTIONS = [
    "the greedy oracle returns the set of all outcomes reachable by any tie-break among equal maxima (DFS capped at 2000 nodes; beyond the cap only support/coverage are asserted)",
    "thresholds >= 0 only (a tuned threshold rounded below 0 is outside the property's domain; counted)",
]

SCORERS = [None, {"cls": "CUSUM"}, {"cls": "L2Cost"}, {"cls": "ChangeScore", "cost": {"cls": "L2Cost"}},
           {"cls": "WeightedCUSUM", "weights": [0.0, 2.0, -1.0]}, {"cls": "ChangeScore", "cost": {"cls": "TrendPenalisedL2Cost", "weight": 0.5}},
           {"cls": "ChangeScore", "cost": {"cls": "GaussianVarCost"}}, {"cls": "GaussianVarCost"}, "function", "table",
           {"cls": "SecondMomentChangeScore"}]


def oracle_scorer_spec(spec):
    if spec is None:
        return {"cls": "CUSUM"}
    if spec["cls"] in ("L2Cost", "GaussianVarCost", "GaussianCovCost", "L1Cost"):
        return {"cls": "ChangeScore", "cost": spec}
    return spec


@st.composite
def cases(draw, tier):
    sc = draw(st.sampled_from(SCORERS))
    p = draw(st.integers(1, 3))
    bulk = None  # the bulk draws (table, data) come last: see strategies/data.py
    unit = 1.0
    if sc == "table":
        msl = draw(st.integers(1, 3))
        n = draw(st.integers(2 * msl, 11))
        bulk = "table"
        sc = {"cls": "TableChangeScore", "table": None}
        X = [[0.0] * p for _ in range(n)]
    else:
        ms = 1 if sc == "function" else K.scorer_min_size(sc, p)
        msl = draw(st.integers(ms, ms + 4))
        nmax = 40 if tier == "quick" else 60
        n = D.weighted(draw, [(2, st.just(2 * msl)), (2, st.integers(2 * msl, 2 * msl + 3)), (7, st.integers(2 * msl, max(2 * msl, nmax)))])
        if sc == "function":
            sc = {"cls": "FunctionChangeScore", "key": draw(st.integers(0, 1000)), "modulus": draw(st.sampled_from([2, 3, 5, 7])),
                  "offset": draw(st.sampled_from([0, 0, 1, 2])), "ncols": draw(st.sampled_from([1, 1, 2, 3]))}
            X = [[0.0] * p for _ in range(n)]
        else:
            bulk = "matrix"
            unit = draw(st.sampled_from([1.0, 1.0, 1.0, 1e-3, 1e-6, 1e3]))  # data in small / large units
    mil = D.weighted(draw, [(2, st.just(2 * msl)), (6, st.integers(2 * msl, 2 * msl + 40)), (1, st.just(200))])
    scale = draw(st.sampled_from([0.0, 0.2, 0.5, 1.0, 2.0, None]))
    if isinstance(sc, dict) and sc["cls"] in ("TableChangeScore", "FunctionChangeScore") and scale is not None:
        # integer scores 0..6: choose scales so that the threshold falls among them
        scale = draw(st.sampled_from([0.0, 0.1, 0.2, 0.35, 0.5]))
    case = {"params": {"change_score": sc, "threshold_scale": scale, "level": draw(K.level_strategy),
                       "min_segment_length": msl, "max_interval_length": mil,
                       "growth_factor": draw(K.growth_strategy)},
            "X": None, "scale2": draw(st.floats(1.0, 3.0)),
            # the detector may have been fitted on other data (other length): detections are relative to threshold_
            "n_train": draw(st.sampled_from([None, None, "shorter", "longer", "same_buffer"])),
            # the detector / its scorer may have a past: an earlier predict on the same buffer, an earlier fit on wider data
            "history": draw(st.sampled_from(K.HISTORIES))}
    if bulk == "table":
        m = (n + 1) ** 3
        flat = draw(st.lists(st.integers(-1, 4), min_size=m, max_size=m))
        sc["table"] = np.asarray(flat).reshape(n + 1, n + 1, n + 1).tolist()
    elif bulk == "matrix":
        X, _ = draw(D.structured_matrix(n, p, boundary_positions=(msl, n - msl)))
        if unit != 1.0:
            X = [[v * unit for v in row] for row in X]
    case["X"] = X
    return case


def training_data(X, mode, n_min, scorer_spec=None):
    """Training data of another length built from X itself (deterministic): a prefix or X followed by its mirror.
    Table scorers are defined for positions 0..n only, so they are never fitted on longer data."""
    if mode == "longer" and isinstance(scorer_spec, dict) and scorer_spec.get("cls", "").startswith("Table"):
        mode = None
    if mode == "same_buffer":
        return X[::-1] * 0.75 + 0.5  # other contents of the same shape: the caller refills one buffer
    if mode == "shorter" and len(X) > n_min:
        return X[: max(n_min, (len(X) + n_min) // 2)]
    if mode == "longer":
        return np.vstack([X, X[::-1], X])
    return X


def check(case):
    params = case["params"]
    X = np.asarray(case["X"], dtype=float)
    n, p = X.shape
    msl, mil = params["min_segment_length"], params["max_interval_length"]
    Xtrain = training_data(X, case.get("n_train"), 2 * msl, params["change_score"])
    Xpred = X
    if case.get("n_train") == "same_buffer":
        # the caller keeps one preallocated buffer: fitted with the training contents, then refilled in place
        Xtrain = Xtrain.copy()
        Xpred = Xtrain
    history = case.get("history") if case.get("n_train") != "same_buffer" else None
    with sut("SeededBinarySegmentation.fit/predict"):
        det = K.build(K.detector_spec("SeededBinarySegmentation", params))
        if history == "scorer_prefit_wide" and not K.prefit_scorer_wide(det, Xtrain):
            history = None
        det.fit(Xtrain)
        if Xpred is Xtrain:
            Xtrain[:] = X
        if history in ("used_buffer_array", "used_buffer_frame"):
            Xpred = K.used_buffer(det, X, history.endswith("frame"))
        y = det.predict(Xpred)
        table = det.scores
        thr = float(det.threshold_)
    cpts = [int(v) for v in y["ilocs"].tolist()]
    for col in ("start", "end", "argmax_cpt", "score"):
        if col not in table.columns:
            raise Violation("scores table lacks a documented column", column=col, columns=list(table.columns))
    starts = table["start"].to_numpy().astype(int)
    ends = table["end"].to_numpy().astype(int)
    amax = table["argmax_cpt"].to_numpy().astype(int)
    sc = table["score"].to_numpy().astype(float)
    # (i) candidate intervals
    if len(table) == 0:
        raise Violation("no candidate interval although n >= 2*min_segment_length", n=n, msl=msl, mil=mil)
    lens = ends - starts
    if np.any(starts < 0) or np.any(ends > n) or np.any(lens < 2 * msl) or np.any(lens > min(mil, n)):
        i = int(np.argmax((starts < 0) | (ends > n) | (lens < 2 * msl) | (lens > min(mil, n))))
        raise Violation("candidate interval outside [0,n] or with length outside [2*msl, min(max_interval_length, n)]",
                        interval=[int(starts[i]), int(ends[i])], n=n, msl=msl, mil=mil)
    # (ii) per-interval max / argmax with an independent scorer instance
    oracle = K.build(oracle_scorer_spec(params["change_score"])).fit(X)
    ties = False
    for i in range(len(table)):
        s, e = int(starts[i]), int(ends[i])
        splits = np.arange(s + msl, e - msl + 1)
        cuts = np.column_stack((np.repeat(s, splits.size), splits, np.repeat(e, splits.size)))
        vals = np.asarray(oracle.evaluate(cuts)).sum(axis=1)
        top = float(vals.max())
        tol = 1e-9 * (abs(top) + K.score_magnitude(params["change_score"], X, e - s))
        if abs(sc[i] - top) > tol:
            raise Violation("interval score is not the maximum of the column-summed change score over admissible splits",
                            interval=[s, e], reported=float(sc[i]), maximum=top)
        if not (s + msl <= amax[i] <= e - msl):
            raise Violation("reported maximiser is not an admissible split of its interval", interval=[s, e],
                            argmax_cpt=int(amax[i]), msl=msl)
        if vals[int(amax[i]) - (s + msl)] < top - tol:
            raise Violation("reported maximiser does not attain the interval maximum", interval=[s, e],
                            argmax_cpt=int(amax[i]), value=float(vals[int(amax[i]) - (s + msl)]), maximum=top)
        if np.sum(vals >= top - tol) > 1:
            ties = True
    if thr < 0:
        return {"nontrivial": False, "classes": ["negative_tuned_threshold_excluded"]}
    # (iii) greedy model on the reported table
    outcomes, complete = ref.seeded_greedy_outcomes(starts, ends, sc, amax, thr)
    got = frozenset(cpts)
    if len(got) != len(cpts) or cpts != sorted(cpts):
        raise Violation("changepoints are not sorted and distinct", changepoints=cpts)
    if complete and got not in outcomes:
        raise Violation("reported changepoints are not an outcome of the greedy above-threshold selection",
                        reported=cpts, greedy_outcomes=[sorted(o) for o in list(outcomes)[:5]], threshold=thr)
    # (iv) consequences
    above = sc > thr
    for c in cpts:
        if not np.any(above & (amax == c)):
            raise Violation("changepoint is not the maximiser of any interval scoring above the threshold",
                            changepoint=c, threshold=thr)
    for i in np.flatnonzero(above):
        if not any(starts[i] <= c < ends[i] for c in cpts):
            raise Violation("an above-threshold interval is left without a changepoint inside it",
                            interval=[int(starts[i]), int(ends[i])], score=float(sc[i]), threshold=thr,
                            changepoints=cpts)
    # metamorphic: a larger threshold scale returns a subset
    classes = []
    if params["threshold_scale"] is not None and params["threshold_scale"] > 0:
        p2 = dict(params, threshold_scale=params["threshold_scale"] * case["scale2"])
        with sut("SeededBinarySegmentation (larger threshold)"):
            y2 = K.build(K.detector_spec("SeededBinarySegmentation", p2)).fit(Xtrain).predict(X)
        c2 = set(int(v) for v in y2["ilocs"].tolist())
        if not c2 <= set(cpts):
            raise Violation("raising the threshold added a changepoint", lower=cpts, higher=sorted(c2),
                            scales=[params["threshold_scale"], p2["threshold_scale"]])
        if len(c2) < len(cpts):
            classes.append("threshold_removed_some")
    if len(Xtrain) != n:
        classes.append("fitted_on_other_length")
    if case.get("n_train") == "same_buffer":
        classes.append("buffer_refilled_after_fit")
    if history:
        classes.append(f"history={history}")
    if mil == 2 * msl:
        classes.append("mil=2msl")
    if n == 2 * msl:
        classes.append("n=2msl")
    if ties:
        classes.append("ties")
    if cpts:
        classes.append("has_changepoint")
    if not complete:
        classes.append("greedy_dfs_capped")
    sname = params["change_score"]["cls"] if params["change_score"] else "default"
    classes.append(f"scorer={sname}")
    return {"nontrivial": bool(cpts) and int(above.sum()) >= 2, "classes": classes}


FACETS = [
    Facet(name="seeded_binseg", check=check, strategy=cases,
          rule=("n in [2msl,60], msl from the scorer's minimum size, max_interval_length in [2msl, 2msl+40] (boundary made likely), "
                "growth factor in (1,2], threshold scales {0,.2,.5,1,2,None}; scorers CUSUM / L2 / GaussianVar (as cost or "
                "ChangeScore, a user subclass of CUSUM, a user cost subclassing L2Cost) on structured data in small / large units and user-defined integer "
                "Table/Function change scores (ties, negative and multi-column values); detector optionally fitted on other data (shorter / longer / the same buffer refilled afterwards) and optionally with a past (scorer pre-fitted on wider data; earlier predict on the caller's array / frame, then refilled in place); "
                "non-trivial = >=1 changepoint and >=2 intervals above the threshold"),
          n_quick=800, n_thorough=12000, shards_quick=8, shards_thorough=16),
]

"""C07 - seeded binary segmentation reports exactly the greedy above-threshold splits."""

import numpy as np
from hypothesis import strategies as st

from checks import common as K
from framework.core import Facet, Violation, sut
from oracles import reference as ref
from strategies import data as D

PROPERTY_ID = "C07"
TECHNIQUE = "Hypothesis-generated settings/scorers/data; brute-force argmax per interval via an independent scorer instance + set-valued greedy model on the reported table; metamorphic threshold monotonicity"
ASSUMPTIONS = [
    "the greedy oracle returns the set of all outcomes reachable by any tie-break among equal maxima (DFS capped at 2000 nodes; beyond the cap only support/coverage are asserted)",
    "thresholds >= 0 only (a tuned threshold rounded below 0 is outside the property's domain; counted)",
]

SCORERS = [None, {"cls": "CUSUM"}, {"cls": "L2Cost"}, {"cls": "ChangeScore", "cost": {"cls": "L2Cost"}},
           {"cls": "WeightedCUSUM", "weights": [0.0, 2.0, -1.0]}, {"cls": "ChangeScore", "cost": {"cls": "TrendPenalisedL2Cost", "weight": 0.5}},
           {"cls": "ChangeScore", "cost": {"cls": "GaussianVarCost"}}, {"cls": "GaussianVarCost"}, "function", "table",
           {"cls": "SecondMomentChangeScore"}]


def oracle_scorer_spec(spec):
    if spec is None:
        return {"cls": "CUSUM"}
    if spec["cls"] in ("L2Cost", "GaussianVarCost", "GaussianCovCost", "L1Cost"):
        return {"cls": "ChangeScore", "cost": spec}
    return spec


@st.composite
def cases(draw, tier):
    sc = draw(st.sampled_from(SCORERS))
    p = draw(st.integers(1, 3))
    bulk = None  # the bulk draws (table, data) come last: see strategies/data.py
    unit = 1.0
    if sc == "table":
        msl = draw(st.integers(1, 3))
        n = draw(st.integers(2 * msl, 11))
        bulk = "table"
        sc = {"cls": "TableChangeScore", "table": None}
        X = [[0.0] * p for _ in range(n)]
    else:
        ms = 1 if sc == "function" else K.scorer_min_size(sc, p)
        msl = draw(st.integers(ms, ms + 4))
        nmax = 40 if tier == "quick" else 60
        n = D.weighted(draw, [(2, st.just(2 * msl)), (2, st.integers(2 * msl, 2 * msl + 3)), (7, st.integers(2 * msl, max(2 * msl, nmax)))])
        if sc == "function":
            sc = {"cls": "FunctionChangeScore", "key": draw(st.integers(0, 1000)), "modulus": draw(st.sampled_from([2, 3, 5, 7])),
                  "offset": draw(st.sampled_from([0, 0, 1, 2])), "ncols": draw(st.sampled_from([1, 1, 2, 3]))}
            X = [[0.0] * p for _ in range(n)]
        else:
            bulk = "matrix"
            unit = draw(st.sampled_from([1.0, 1.0, 1.0, 1e-3, 1e-6, 1e3]))
            if isinstance(sc, dict) and sc["cls"].startswith("SecondMoment") and draw(st.integers(0, 2)) == 0:
                unit = "level_9e9"  # readings of a 9.19 GHz standard: a huge level, which this user score depends on  # data in small / large units
            narrow = draw(st.integers(0, 9))
            if narrow == 0:
                unit = "int16"  # rail-to-rail readings of a 16-bit converter, handed over as an int16 array
            elif narrow == 1:
                unit = "float32"  # single-precision readings on a level of 1000 (air pressure in hPa)
    mil = D.weighted(draw, [(2, st.just(2 * msl)), (6, st.integers(2 * msl, 2 * msl + 40)), (1, st.just(200))])
    scale = draw(st.sampled_from([0.0, 0.2, 0.5, 1.0, 2.0, None]))
    if isinstance(sc, dict) and sc["cls"] in ("TableChangeScore", "FunctionChangeScore") and scale is not None:
        # integer scores 0..6: choose scales so that the threshold falls among them
        scale = draw(st.sampled_from([0.0, 0.1, 0.2, 0.35, 0.5]))
    case = {"params": {"change_score": sc, "threshold_scale": scale, "level": draw(K.level_strategy),
                       "min_segment_length": msl, "max_interval_length": mil,
                       "growth_factor": draw(K.growth_strategy)},
            "X": None, "scale2": draw(st.floats(1.0, 3.0)),
            # the detector may have been fitted on other data (other length): detections are relative to threshold_
            "n_train": draw(st.sampled_from([None, None, "shorter", "longer", "same_buffer", "fewer_columns", "more_columns"])),
            # a channel stored twice (two identical columns): the score still sums over all columns
            "dup_col": draw(st.integers(0, 5)) == 0,
            # the detector / its scorer may have a past: an earlier predict on the same buffer, an earlier fit on wider data
            "history": draw(st.sampled_from(K.HISTORIES))}
    if bulk == "table":
        m = (n + 1) ** 3
        flat = draw(st.lists(st.integers(-1, 4), min_size=m, max_size=m))
        sc["table"] = np.asarray(flat).reshape(n + 1, n + 1, n + 1).tolist()
    elif bulk == "matrix":
        X, _ = draw(D.structured_matrix(n, p, boundary_positions=(msl, n - msl)))
        if unit == "int16":
            X = [[float(max(-32768, min(32767, round(v * 3000)))) for v in row] for row in X]
            case["as_int16"] = True
            case["n_train"], case["history"] = None, None
        elif unit == "float32":
            X = [[float(np.float32(v + 1000.0)) for v in row] for row in X]  # the numbers a float32 array holds
            case["as_float32"] = True
            case["n_train"], case["history"] = None, None
        elif unit == "level_9e9":
            X = [[v + 9.19e9 for v in row] for row in X]
        elif unit != 1.0:
            X = [[v * unit for v in row] for row in X]
    if case.pop("dup_col") and bulk == "matrix" and p >= 2 and "Cov" not in str(sc):
        X = [[row[0]] + list(row[:-1]) for row in X]  # (for the ordinary floats only: the narrow types keep their own values)
        case["duplicated_column"] = True
    case["X"] = X
    return case


def training_data(X, mode, n_min, scorer_spec=None):
    """Training data of another length built from X itself (deterministic): a prefix or X followed by its mirror.
    Table scorers are defined for positions 0..n only, so they are never fitted on longer data."""
    if mode == "longer" and isinstance(scorer_spec, dict) and scorer_spec.get("cls", "").startswith("Table"):
        mode = None
    if mode in ("fewer_columns", "more_columns"):
        # the detector was fitted on a reference recording with another number of channels (detections are relative to the
        # fitted threshold_); not for user scorers tied to the generated data, nor where the minimum size grows with the columns
        cls = (scorer_spec or {}).get("cls", "")
        inner = ((scorer_spec or {}).get("cost") or {}).get("cls", "")
        if cls.startswith(("Table", "Function")) or "Cov" in cls + inner:
            return X
        if mode == "fewer_columns":
            return X[:, :1].copy() if X.shape[1] > 1 else X
        return np.hstack([X, X[::-1] * 0.5])
    if mode == "same_buffer":
        return X[::-1] * 0.75 + 0.5  # other contents of the same shape: the caller refills one buffer
    if mode == "shorter" and len(X) > n_min:
        return X[: max(n_min, (len(X) + n_min) // 2)]
    if mode == "longer":
        return np.vstack([X, X[::-1], X])
    return X


def check(case):
    params = case["params"]
    X = np.asarray(case["X"], dtype=float)
    n, p = X.shape
    msl, mil = params["min_segment_length"], params["max_interval_length"]
    Xtrain = training_data(X, case.get("n_train"), 2 * msl, params["change_score"])
    Xpred = X
    if case.get("n_train") == "same_buffer":
        # the caller keeps one preallocated buffer: fitted with the training contents, then refilled in place
        Xtrain = Xtrain.copy()
        Xpred = Xtrain
    history = case.get("history") if case.get("n_train") != "same_buffer" else None
    if case.get("as_float32"):
        Xtrain = Xpred = X.astype(np.float32)
    if case.get("as_int16"):
        Xtrain = Xpred = X.astype(np.int16)  # the detector gets the narrow integers, the reference model the same numbers as floats
    if K.rejects_other_width(lambda: K.build(K.detector_spec("SeededBinarySegmentation", params)), Xtrain, Xpred):
        return {"nontrivial": False, "classes": ["other_number_of_columns_rejected"]}
    with sut("SeededBinarySegmentation.fit/predict"):
        spec_ = K.detector_spec("SeededBinarySegmentation", params)
        det = K.build_with_history(spec_, Xtrain, history)
        if history == "scorer_prefit_wide" and not K.prefit_scorer_wide(det, Xtrain):
            history = None
        det.fit(Xtrain)
        if Xpred is Xtrain:
            Xtrain[:] = X
        if history in ("used_buffer_array", "used_buffer_frame"):
            Xpred = K.used_buffer(det, X, history.endswith("frame"))
        elif history and history.startswith("predicted_on"):
            K.related_predict(det, Xpred, history)
        y = det.predict(Xpred)
        table = det.scores
        thr = float(det.threshold_)
    cpts = [int(v) for v in y["ilocs"].tolist()]
    for col in ("start", "end", "argmax_cpt", "score"):
        if col not in table.columns:
            raise Violation("scores table lacks a documented column", column=col, columns=list(table.columns))
    starts = table["start"].to_numpy().astype(int)
    ends = table["end"].to_numpy().astype(int)
    amax = table["argmax_cpt"].to_numpy().astype(int)
    sc = table["score"].to_numpy().astype(float)
    # (i) candidate intervals
    if len(table) == 0:
        raise Violation("no candidate interval although n >= 2*min_segment_length", n=n, msl=msl, mil=mil)
    lens = ends - starts
    if np.any(starts < 0) or np.any(ends > n) or np.any(lens < 2 * msl) or np.any(lens > min(mil, n)):
        i = int(np.argmax((starts < 0) | (ends > n) | (lens < 2 * msl) | (lens > min(mil, n))))
        raise Violation("candidate interval outside [0,n] or with length outside [2*msl, min(max_interval_length, n)]",
                        interval=[int(starts[i]), int(ends[i])], n=n, msl=msl, mil=mil)
    # (ii) per-interval max / argmax with an independent scorer instance
    oracle = K.build(oracle_scorer_spec(params["change_score"])).fit(X)
    ties = False
    for i in range(len(table)):
        s, e = int(starts[i]), int(ends[i])
        splits = np.arange(s + msl, e - msl + 1)
        cuts = np.column_stack((np.repeat(s, splits.size), splits, np.repeat(e, splits.size)))
        vals = np.asarray(oracle.evaluate(cuts)).sum(axis=1)
        top = float(vals.max())
        tol = 1e-9 * (abs(top) + K.score_magnitude(params["change_score"], X, e - s))
        if abs(sc[i] - top) > tol:
            raise Violation("interval score is not the maximum of the column-summed change score over admissible splits",
                            interval=[s, e], reported=float(sc[i]), maximum=top)
        if not (s + msl <= amax[i] <= e - msl):
            raise Violation("reported maximiser is not an admissible split of its interval", interval=[s, e],
                            argmax_cpt=int(amax[i]), msl=msl)
        if vals[int(amax[i]) - (s + msl)] < top - tol:
            raise Violation("reported maximiser does not attain the interval maximum", interval=[s, e],
                            argmax_cpt=int(amax[i]), value=float(vals[int(amax[i]) - (s + msl)]), maximum=top)
        if np.sum(vals >= top - tol) > 1:
            ties = True
    if thr < 0:
        return {"nontrivial": False, "classes": ["negative_tuned_threshold_excluded"]}
    # (iii) greedy model on the reported table
    outcomes, complete = ref.seeded_greedy_outcomes(starts, ends, sc, amax, thr)
    got = frozenset(cpts)
    if len(got) != len(cpts) or cpts != sorted(cpts):
        raise Violation("changepoints are not sorted and distinct", changepoints=cpts)
    if complete and got not in outcomes:
        raise Violation("reported changepoints are not an outcome of the greedy above-threshold selection",
                        reported=cpts, greedy_outcomes=[sorted(o) for o in list(outcomes)[:5]], threshold=thr)
    # (iv) consequences
    above = sc > thr
    for c in cpts:
        if not np.any(above & (amax == c)):
            raise Violation("changepoint is not the maximiser of any interval scoring above the threshold",
                            changepoint=c, threshold=thr)
    for i in np.flatnonzero(above):
        if not any(starts[i] <= c < ends[i] for c in cpts):
            raise Violation("an above-threshold interval is left without a changepoint inside it",
                            interval=[int(starts[i]), int(ends[i])], score=float(sc[i]), threshold=thr,
                            changepoints=cpts)
    # metamorphic: a larger threshold scale returns a subset
    classes = []
    if params["threshold_scale"] is not None and params["threshold_scale"] > 0:
        p2 = dict(params, threshold_scale=params["threshold_scale"] * case["scale2"])
        with sut("SeededBinarySegmentation (larger threshold)"):
            y2 = K.build(K.detector_spec("SeededBinarySegmentation", p2)).fit(Xtrain).predict(X)
        c2 = set(int(v) for v in y2["ilocs"].tolist())
        if not c2 <= set(cpts):
            raise Violation("raising the threshold added a changepoint", lower=cpts, higher=sorted(c2),
                            scales=[params["threshold_scale"], p2["threshold_scale"]])
        if len(c2) < len(cpts):
            classes.append("threshold_removed_some")
    if len(Xtrain) != n:
        classes.append("fitted_on_other_length")
    if Xtrain.shape[1] != p:
        classes.append("fitted_on_other_number_of_columns")
    if case.get("duplicated_column"):
        classes.append("duplicated_column")
    if case.get("n_train") == "same_buffer":
        classes.append("buffer_refilled_after_fit")
    if history:
        classes.append(f"history={history}")
    if case.get("as_int16"):
        classes.append("int16_full_range")
    if case.get("as_float32"):
        classes.append("float32_on_a_level")
    if mil == 2 * msl:
        classes.append("mil=2msl")
    if n == 2 * msl:
        classes.append("n=2msl")
    if ties:
        classes.append("ties")
    if cpts:
        classes.append("has_changepoint")
    if not complete:
        classes.append("greedy_dfs_capped")
    sname = params["change_score"]["cls"] if params["change_score"] else "default"
    classes.append(f"scorer={sname}")
    return {"nontrivial": bool(cpts) and int(above.sum()) >= 2, "classes": classes}


# ------------------------------------------------------------------ default settings on realistic series


def default_cells(tier):
    """The detector with its DEFAULT hyper-parameters (optionally one of them changed) on realistic series of 100-400 samples
    (strategies.data.realistic_series; deterministic function of the stored seed)."""
    base = {"change_score": None, "threshold_scale": 2.0, "level": 1e-8, "min_segment_length": 5, "max_interval_length": 200, "growth_factor": 1.5}
    variants = ({}, {"threshold_scale": None, "level": 0.01}, {"threshold_scale": 1.0}, {"max_interval_length": 100}, {"growth_factor": 2.0},
                {"change_score": {"cls": "GaussianVarCost"}})
    for seed in range(8 if tier == "quick" else 24):
        for n in ((100, 260) if tier == "quick" else (100, 180, 260, 400)):
            for v in variants[: 2 if tier == "quick" else 6]:
                yield {"seed": 22000 + seed, "n": n + seed, "p": 1 + seed % 2, "params": dict(base, **v)}
    # candidate intervals of more than 256 samples: max_interval_length >= n on 300-460 samples
    for i in range(8 if tier == "quick" else 32):
        yield {"seed": 22100 + i, "n": 300 + 23 * (i % 8), "p": 1 + i % 2, "params": dict(base, max_interval_length=1000)}


def check_default(case):
    X, kind = D.realistic_series(case["seed"], case["n"], case["p"])
    info = check({"params": case["params"], "X": X, "scale2": 1.5, "n_train": None, "history": None})
    info["classes"] = list(info["classes"]) + [f"data={kind}"]
    return info


# ------------------------------------------------------------------ very long series


def long_cells(tier):
    """Series of millions of samples with max_interval_length = n: candidate intervals of more than 2^21.7 samples
    (products of three lengths beyond the int64 range), around a million candidates. Seeded noise with mean shifts."""
    cells = [(3_400_000, 1, None, 50_000, 2.0)]  # a few hundred candidates; with msl = 5 there are 1.3 million (thorough)
    if tier != "quick":
        cells += [(5_000_000, 1, {"cls": "CUSUM"}, 20_000, 2.0), (3_600_000, 1, {"cls": "L2Cost"}, 1000, 1.7), (2_200_000, 2, None, 5000, 2.0),
                  (3_400_000, 1, None, 5, 2.0)]
    for i, (n, p, sc, msl, growth) in enumerate(cells):
        yield {"n": n, "p": p, "seed": 7000 + i, "params": {"change_score": sc, "threshold_scale": 1.0, "level": 0.01, "min_segment_length": msl,
                                                             "max_interval_length": n, "growth_factor": growth}}
    # moderate lengths at which the candidates have exactly k * 65536 admissible splits in total (a data-independent coincidence of
    # n, min_segment_length, max_interval_length and the growth factor), and a wide recording (64 channels x 70000 rows: 4.2 million
    # values per candidate) with a change exactly min_segment_length before the end of the series
    for j, (n, p, msl, mil, end_shift) in enumerate([(7780, 1, 25, 7780, False), (25921, 1, 5, 1000, False), (70_000, 64, 2000, 70_000, True)]):
        yield {"n": n, "p": p, "seed": 7100 + j, "end_shift": end_shift,
               "params": {"change_score": None, "threshold_scale": 1.0, "level": 0.01, "min_segment_length": msl, "max_interval_length": mil,
                          "growth_factor": 1.5}}


def check_long(case):
    n, p, params = case["n"], case["p"], case["params"]
    msl = params["min_segment_length"]
    rng = np.random.Generator(np.random.PCG64(case["seed"]))
    X = rng.standard_normal((n, p))
    X[n // 2 + 2:] += 0.5
    X[n // 5: n // 5 + min(40_000, n // 10)] -= 0.8
    if case.get("end_shift"):
        X[n - msl:] += 5.0  # dominant: the whole-series candidate peaks at its last admissible split
    with sut("SeededBinarySegmentation.fit/predict (very long series)"):
        det = K.build(K.detector_spec("SeededBinarySegmentation", params)).fit(X)
        y = det.predict(X)
        table = det.scores
        thr = float(det.threshold_)
    cpts = [int(v) for v in y["ilocs"].tolist()]
    starts = table["start"].to_numpy().astype(np.int64)
    ends = table["end"].to_numpy().astype(np.int64)
    amax = table["argmax_cpt"].to_numpy().astype(np.int64)
    sc = table["score"].to_numpy().astype(float)
    lens = ends - starts
    if len(table) == 0 or np.any(starts < 0) or np.any(ends > n) or np.any(lens < 2 * msl) or np.any(lens > min(n, params["max_interval_length"])):
        raise Violation("candidate interval outside [0,n] or with length outside [2*msl, n]", n=n, msl=msl)
    if lens.max() < min(n, params["max_interval_length"]) // 2:
        raise Violation("no candidate interval of the order of max_interval_length = n", longest=int(lens.max()), n=n)
    if not np.all(np.isfinite(sc)):
        i = int(np.argmax(~np.isfinite(sc)))
        raise Violation("a candidate interval has a non-finite score", interval=[int(starts[i]), int(ends[i])], score=float(sc[i]))
    inadmissible = (amax < starts + msl) | (amax > ends - msl)
    if np.any(inadmissible):
        i = int(np.argmax(inadmissible))
        raise Violation("reported maximiser is not an admissible split of its interval", interval=[int(starts[i]), int(ends[i])], argmax_cpt=int(amax[i]),
                        row=i, rows=len(table))
    # per-interval maximum for the 12 longest candidates, the last row and a seeded sample of 300 others, with an independent scorer
    oracle = K.build(oracle_scorer_spec(params["change_score"])).fit(X)
    order = np.argsort(-lens, kind="stable")
    chosen = list(order[:12]) + [len(table) - 1] + [int(i) for i in rng.choice(len(table), size=min(300, len(table)), replace=False)]
    for i in chosen:
        s_, e_ = int(starts[i]), int(ends[i])
        top, arg = -np.inf, -1
        for lo in range(s_ + msl, e_ - msl + 1, 1_000_000):  # in blocks: a few 10^6 splits at a time
            splits = np.arange(lo, min(lo + 1_000_000, e_ - msl + 1))
            vals = np.asarray(oracle.evaluate(np.column_stack((np.full(splits.size, s_), splits, np.full(splits.size, e_))))).sum(axis=1)
            j = int(np.argmax(vals))
            if vals[j] > top:
                top, arg = float(vals[j]), int(splits[j])
        tol = 1e-9 * (abs(top) + K.score_magnitude(params["change_score"], X, e_ - s_))
        if abs(sc[i] - top) > tol:
            raise Violation("interval score is not the maximum of the column-summed change score over admissible splits",
                            interval=[s_, e_], reported=float(sc[i]), maximum=top, maximiser=arg)
        if not (s_ + msl <= amax[i] <= e_ - msl):
            raise Violation("reported maximiser is not an admissible split of its interval", interval=[s_, e_], argmax_cpt=int(amax[i]))
        v_at = float(np.asarray(oracle.evaluate(np.array([[s_, int(amax[i]), e_]]))).sum())
        if v_at < top - tol:
            raise Violation("reported maximiser does not attain the interval maximum", interval=[s_, e_], argmax_cpt=int(amax[i]),
                            value=v_at, maximum=top)
    # greedy model on the above-threshold part of the reported table
    above = sc > thr
    outcomes, complete = ref.seeded_greedy_outcomes(starts[above], ends[above], sc[above], amax[above], thr)
    if cpts != sorted(set(cpts)):
        raise Violation("changepoints are not sorted and distinct", changepoints=cpts[:20])
    if complete and frozenset(cpts) not in outcomes:
        raise Violation("reported changepoints are not an outcome of the greedy above-threshold selection", reported=cpts[:20],
                        greedy_outcomes=[sorted(o)[:20] for o in list(outcomes)[:3]], threshold=thr)
    total_splits = int(np.sum(lens - 2 * msl + 1))
    return {"nontrivial": bool(cpts), "classes": [f"n>={n // 1_000_000}e6", f"candidates={len(table)}", f"changepoints={min(len(cpts), 9)}"] +
            (["total_splits_multiple_of_65536"] if total_splits % 65536 == 0 else []) + (["wide_64_channels"] if p == 64 else [])}


FACETS = [
    Facet(name="seeded_binseg", check=check, strategy=cases,
          rule=("n in [2msl,60], msl from the scorer's minimum size, max_interval_length in [2msl, 2msl+40] (boundary made likely), "
                "growth factor in (1,2], threshold scales {0,.2,.5,1,2,None}; scorers CUSUM / L2 / GaussianVar (as cost or "
                "ChangeScore, a user subclass of CUSUM, a user cost subclassing L2Cost) on structured data in small / large units and user-defined integer "
                "Table/Function change scores (ties, negative and multi-column values); detector optionally fitted on other data (shorter / longer / the same buffer refilled afterwards) and optionally with a past (scorer pre-fitted on wider data; earlier predict on the caller's array / frame, then refilled in place); "
                "non-trivial = >=1 changepoint and >=2 intervals above the threshold"),
          n_quick=800, n_thorough=12000, shards_quick=8, shards_thorough=16),
    Facet(name="default_settings", kind="enumerate", enumerate=default_cells, check=check_default, exhaustive=True, time_limit=300,
          rule=("SeededBinarySegmentation with its default hyper-parameters (CUSUM, msl 5, max_interval_length 200, growth 1.5, scale 2; variants: tuned "
                "threshold, scale 1, max_interval_length 100, growth 2, GaussianVar cost) on realistic series of 100-400 samples (seeded); same per-interval "
                "and greedy models; 32 cells (thorough: 576), non-trivial = >=1 changepoint and >=2 intervals above the threshold"),
          shards_quick=16, shards_thorough=16, max_samples=1),
    Facet(name="long_series", kind="enumerate", enumerate=long_cells, check=check_long, exhaustive=True, time_limit=900,
          rule=("series of 3.4 million samples (thorough: up to 5 million, p up to 2) with max_interval_length = n (candidates of millions of "
                "samples; min_segment_length 50000 -> a few hundred candidates, thorough also 5 -> 1.3 million): all scores finite, the 12 longest and 300 sampled candidates compared with the maximum over all "
                "their splits from an independent scorer, changepoints an outcome of the greedy model on the above-threshold candidates; "
                "1 cell (thorough: 5), non-trivial = >= 1 changepoint"),
          shards_quick=1, shards_thorough=5, max_samples=1),
]

"""Definitional values of every built-in scorer, computed directly from the rows
(no import of skchange). Used by C13 (and C08/C07 cross-checks) on well-conditioned data."""

import math

import numpy as np

VAR_FLOOR = 1e-16


def cost_value(name, param, rows):
    """name in {L2Cost, GaussianVarCost, GaussianCovCost}; param None or dict(mean, var|cov)."""
    x = np.asarray(rows, dtype=np.longdouble)
    n, p = x.shape
    if name == "L2Cost":
        m = x.mean(axis=0) if param is None else np.broadcast_to(np.asarray(param["mean"], dtype=np.longdouble).reshape(-1), (p,))
        return ((x - m) ** 2).sum(axis=0).astype(float)
    if name == "GaussianVarCost":
        if param is None:
            m = x.mean(axis=0)
            v = np.maximum((((x - m) ** 2).sum(axis=0) / n).astype(float), VAR_FLOOR)
            return n * np.log(2 * np.pi * v) + n
        m = np.broadcast_to(np.asarray(param["mean"], dtype=float).reshape(-1), (p,))
        v = np.broadcast_to(np.asarray(param["var"], dtype=float).reshape(-1), (p,))
        rss = ((x - m) ** 2).sum(axis=0).astype(float)
        return n * np.log(2 * np.pi * v) + rss / v
    if name == "GaussianCovCost":
        xf = x.astype(float)
        if param is None:
            m = x.mean(axis=0)
            c = ((x - m).T @ (x - m) / n).astype(float).reshape(p, p)
            sign, logdet = np.linalg.slogdet(c)
            if sign <= 0:
                return None
            return np.array([n * p * math.log(2 * math.pi) + n * logdet + p * n])
        m = np.broadcast_to(np.asarray(param["mean"], dtype=float).reshape(-1), (p,))
        cov = np.asarray(param["cov"], dtype=float)
        if cov.ndim == 0:
            cov = float(cov) * np.eye(p)
        sign, logdet = np.linalg.slogdet(cov)
        xc = xf - m
        quad = float(np.sum(xc * np.linalg.solve(cov, xc.T).T))
        return np.array([n * p * math.log(2 * math.pi) + n * logdet + quad])
    raise ValueError(name)


def cusum_value(X, s, k, e):
    a = np.asarray(X[s:k], dtype=np.longdouble)
    b = np.asarray(X[k:e], dtype=np.longdouble)
    n1, n2 = len(a), len(b)
    n = n1 + n2
    return (np.sqrt(np.longdouble(n1 * n2) / n) * np.abs(a.mean(axis=0) - b.mean(axis=0))).astype(float)


def change_score_value(name, param, X, s, k, e):
    parts = [cost_value(name, param, X[s:e]), cost_value(name, param, X[s:k]), cost_value(name, param, X[k:e])]
    if any(v is None for v in parts):
        return None
    return parts[0] - parts[1] - parts[2]


def saving_value(name, param, X, s, e):
    a, b = cost_value(name, param, X[s:e]), cost_value(name, None, X[s:e])
    if a is None or b is None:
        return None
    return a - b


def local_score_value(name, X, s, a, b, e):
    pooled = np.concatenate((X[s:a], X[b:e]))
    parts = [cost_value(name, None, X[s:e]), cost_value(name, None, X[a:b]), cost_value(name, None, pooled)]
    if any(v is None for v in parts):
        return None
    return parts[0] - parts[1] - parts[2]

"""Reference models (DESIGN.md 3.3, 3.4). Pure Python / NumPy, no import of skchange."""

import itertools
import math

import numpy as np

EPS = float(np.finfo(np.float64).eps)
VAR_FLOOR = 1e-16

# --------------------------------------------------------------------------------------
# rounding-error model
# --------------------------------------------------------------------------------------


def error_bound(n_rows: int, max_abs: float) -> float:
    """Absolute error bound of second-moment quantities computed from prefix sums."""
    if np.ndim(max_abs) > 0:  # one magnitude per column: every column's prefix sums are accumulated on their own
        mm = np.maximum(np.asarray(max_abs, dtype=np.float64), 1e-300)
        return np.maximum(32.0 * (n_rows + 1) ** 2 * EPS * mm * mm, 1e-280)
    m = max(float(max_abs), 1e-300)
    # floor: for magnitudes below ~1e-140 the squares are subnormal or underflow, where relative error bounds mean nothing
    return max(32.0 * (n_rows + 1) ** 2 * EPS * m * m, 1e-280)


# --------------------------------------------------------------------------------------
# costs from their definition (long double, two-pass)
# --------------------------------------------------------------------------------------


def l2_cost_direct(rows: np.ndarray, mean=None) -> np.ndarray:
    x = np.asarray(rows, dtype=np.longdouble)
    if mean is None:
        m = x.mean(axis=0)
    else:
        m = np.broadcast_to(np.asarray(mean, dtype=np.longdouble).reshape(-1), (x.shape[1],))
    return ((x - m) ** 2).sum(axis=0).astype(np.float64)


def rss_direct(rows: np.ndarray, mean=None) -> np.ndarray:
    return l2_cost_direct(rows, mean)


def gaussian_var_cost_enclosure(rows, n_fit, max_abs, param=None):
    """Interval [lo, hi] per column that must contain the univariate Gaussian cost.

    Optimal mode: n*log(2*pi*max(v, floor)) + n with v the exact variance, where the
    computed variance may be off by B/n (prefix-sum rounding).  Fixed mode:
    n*log(2*pi*var) + rss/var with rss off by at most B.
    """
    x = np.asarray(rows, dtype=np.longdouble)
    n = x.shape[0]
    p = x.shape[1]
    B = error_bound(n_fit, max_abs)
    if param is None:
        m = x.mean(axis=0)
        v = ((x - m) ** 2).sum(axis=0) / n
        v = v.astype(np.float64)
        vlo = np.maximum(v - B / n, VAR_FLOOR)
        vhi = np.maximum(v + B / n, VAR_FLOOR)
        lo = n * np.log(2 * np.pi * vlo) + n
        hi = n * np.log(2 * np.pi * vhi) + n
    else:
        mean, var = param
        mean = np.broadcast_to(np.asarray(mean, dtype=np.float64).reshape(-1), (p,))
        var = np.broadcast_to(np.asarray(var, dtype=np.float64).reshape(-1), (p,))
        Bf = error_bound(n_fit, np.maximum(max_abs, np.abs(mean)) if np.ndim(max_abs) > 0 else max(max_abs, float(np.max(np.abs(mean)))))
        rss = rss_direct(rows, mean)
        base = n * np.log(2 * np.pi * var)
        lo = base + (rss - Bf) / var
        hi = base + (rss + Bf) / var
    slack = 1e-9 * (1.0 + np.maximum(np.abs(lo), np.abs(hi)))
    return lo - slack, hi + slack


def gaussian_cov_cost_direct(rows, param=None):
    """Twice the negative multivariate Gaussian log-likelihood of the rows.

    Returns (value, info) where info has cond (condition number of the covariance used),
    det_sign, min_diag. value is None if the sample covariance is not positive definite
    (determinant <= 0 in long double arithmetic of the exact centred products).
    """
    x = np.asarray(rows, dtype=np.float64)
    n, p = x.shape
    if param is None:
        xl = x.astype(np.longdouble)
        m = xl.mean(axis=0)
        c = ((xl - m).T @ (xl - m) / n).astype(np.float64).reshape(p, p)
        sign, logdet = np.linalg.slogdet(c)
        with np.errstate(all="ignore"):
            cond = float(np.linalg.cond(c)) if np.all(np.isfinite(c)) else float("inf")
        info = {"cond": cond, "sign": float(sign), "min_diag": float(np.min(np.diag(c))),
                "cov": c}
        if sign <= 0:
            return None, info
        return float(n * p * math.log(2 * math.pi) + n * logdet + p * n), info
    mean, cov = param
    mean = np.broadcast_to(np.asarray(mean, dtype=np.float64).reshape(-1), (p,))
    cov = np.asarray(cov, dtype=np.float64)
    if cov.ndim == 0:
        cov = float(cov) * np.eye(p)
    sign, logdet = np.linalg.slogdet(cov)
    xc = (x - mean).astype(np.float64)
    sol = np.linalg.solve(cov, xc.T).T
    quad = float(np.sum(xc * sol))
    cond = float(np.linalg.cond(cov))
    info = {"cond": cond, "sign": float(sign), "min_diag": float(np.min(np.diag(cov))), "cov": cov}
    return float(n * p * math.log(2 * math.pi) + n * logdet + quad), info


# --------------------------------------------------------------------------------------
# optimal partitioning (C02)
# --------------------------------------------------------------------------------------


def optimal_partitioning(costfn, n, penalty, msl):
    """Un-pruned O(n^2) recursion.

    F[0] = -penalty; for t >= msl:  F[t] = min over admissible last-segment starts s in
    {0} U [msl, t-msl] of F[s] + C(s, t) + penalty.  Returns (F, back) with F[t] = inf for
    0 < t < msl.
    """
    F = np.full(n + 1, np.inf)
    back = np.full(n + 1, -1, dtype=int)
    F[0] = -penalty
    for t in range(msl, n + 1):
        best, arg = np.inf, -1
        for s in [0] + list(range(msl, t - msl + 1)):
            if not np.isfinite(F[s]):
                continue
            v = F[s] + costfn(s, t) + penalty
            if v < best:
                best, arg = v, s
        F[t], back[t] = best, arg
    return F, back


def segmentation_cost(costfn, cpts, n, penalty):
    bounds = [0] + list(cpts) + [n]
    total = 0.0
    for a, b in zip(bounds[:-1], bounds[1:]):
        total += costfn(a, b)
    return total + penalty * len(cpts)


def exhaustive_segmentations(costfn, n, penalty, msl):
    """Minimum penalised cost over all segmentations of [0, n) with segments >= msl."""
    best = np.inf
    positions = list(range(1, n))
    for k in range(0, n):
        for cpts in itertools.combinations(positions, k):
            bounds = [0] + list(cpts) + [n]
            if any(b - a < msl for a, b in zip(bounds[:-1], bounds[1:])):
                continue
            best = min(best, segmentation_cost(costfn, cpts, n, penalty))
    return best


# --------------------------------------------------------------------------------------
# CAPA dynamic programme (C03)
# --------------------------------------------------------------------------------------


def penalised_saving(savings_row, alpha, betas):
    """max over k >= 1 of (sum of the k largest savings - alpha - betas[0..k))."""
    sv = np.sort(np.asarray(savings_row, dtype=float))[::-1]
    b = np.asarray(betas, dtype=float)
    if b.size == 1 and sv.size > 1:
        b = np.repeat(b, sv.size)
    return float((np.cumsum(sv - b) - alpha).max())


def capa_dp(coll, point, n, c_alpha, c_betas, p_alpha, p_betas, msl, maxl):
    """Un-pruned CAPA recursion. coll(s, e) / point(t) return per-component savings.

    F[t] = max(F[t-1], F[t-1] + pen(point(t-1)), max_{s: msl <= t-s <= maxl} F[s] + pen(coll(s,t))).
    """
    F = np.zeros(n + 1)
    for t in range(1, n + 1):
        best = F[t - 1]
        best = max(best, F[t - 1] + penalised_saving(point(t - 1), p_alpha, p_betas))
        for s in range(max(0, t - maxl), t - msl + 1):
            best = max(best, F[s] + penalised_saving(coll(s, t), c_alpha, c_betas))
        F[t] = best
    return F


def exhaustive_anomaly_sets(coll, point, n, c_alpha, c_betas, p_alpha, p_betas, msl, maxl):
    """Best total penalised saving over all sets of disjoint anomalies (tiny n)."""
    from functools import lru_cache

    @lru_cache(maxsize=None)
    def best_from(t):
        # best total over anomalies placed in [t, n)
        if t >= n:
            return 0.0
        b = best_from(t + 1)  # position t normal
        b = max(b, penalised_saving(point(t), p_alpha, p_betas) + best_from(t + 1))
        for e in range(t + msl, min(n, t + maxl) + 1):
            b = max(b, penalised_saving(coll(t, e), c_alpha, c_betas) + best_from(e))
        return b

    return best_from(0)


# --------------------------------------------------------------------------------------
# greedy selections (C07, C09): set of all outcomes reachable by any tie-break
# --------------------------------------------------------------------------------------


def _greedy_outcomes(n_items, scores, threshold, choices_of, kill, cap, tol):
    """Set-valued greedy selection: deterministic stretches are followed in a loop (any number of selections), only
    genuine ties branch (depth-first over an explicit stack, at most `cap` branch nodes)."""
    outcomes = set()
    complete = True
    seen = set()
    nodes = 0
    stack = [(np.ones(n_items, dtype=bool), ())]
    while stack:
        alive, chosen = stack.pop()
        chosen = list(chosen)
        while True:
            idx = np.flatnonzero(alive & (scores > threshold))
            if idx.size == 0:
                outcomes.add(frozenset(chosen))
                break
            top = scores[idx].max()
            cands = idx[scores[idx] >= top - tol]
            options = choices_of(cands)
            if len(options) == 1:
                chosen.append(options[0])
                alive = alive & ~kill(options[0])
                continue
            nodes += 1
            if nodes > cap:
                complete = False
                break
            key = (alive.tobytes(), tuple(sorted(chosen)))
            if key in seen:
                break
            seen.add(key)
            for c in options:
                stack.append((alive & ~kill(c), tuple(chosen) + (c,)))
            break
    return outcomes, complete


def seeded_greedy_outcomes(starts, ends, scores, maximizers, threshold, cap=2000, tol=0.0):
    """All changepoint sets reachable by the greedy rule under any tie-break.

    Rule: while some remaining interval scores above the threshold, take the maximiser of a
    highest-scoring remaining interval and discard every interval [s, e) with s <= cpt < e.
    Returns (set of frozensets, complete flag).
    """
    starts = np.asarray(starts)
    ends = np.asarray(ends)
    scores = np.asarray(scores, dtype=float)
    maximizers = np.asarray(maximizers)
    return _greedy_outcomes(len(starts), scores, threshold,
                            lambda cands: sorted({int(maximizers[i]) for i in cands}),
                            lambda c: (starts <= c) & (c < ends), cap, tol)


def circular_greedy_outcomes(starts, ends, scores, a_starts, a_ends, threshold, cap=2000, tol=0.0):
    """All anomaly sets reachable by the greedy overlap-removal rule under any tie-break."""
    starts = np.asarray(starts)
    ends = np.asarray(ends)
    scores = np.asarray(scores, dtype=float)
    a_starts = np.asarray(a_starts)
    a_ends = np.asarray(a_ends)
    return _greedy_outcomes(len(starts), scores, threshold,
                            lambda cands: sorted({(int(a_starts[i]), int(a_ends[i])) for i in cands}),
                            lambda ab: (ab[1] > starts) & (ab[0] < ends), cap, tol)


# --------------------------------------------------------------------------------------
# moving window (C08)
# --------------------------------------------------------------------------------------


def mw_runs(scores, threshold):
    """Maximal runs [a, b) of consecutive positions with score > threshold."""
    above = np.asarray(scores) > threshold
    runs = []
    start = None
    for i, v in enumerate(above):
        if v and start is None:
            start = i
        elif not v and start is not None:
            runs.append((start, i))
            start = None
    if start is not None:
        runs.append((start, len(above)))
    return runs


# --------------------------------------------------------------------------------------
# quantile, dense labels
# --------------------------------------------------------------------------------------


def quantile_linear(values, q):
    v = sorted(float(x) for x in values)
    if not v:
        raise ValueError("empty")
    h = (len(v) - 1) * q
    lo = int(math.floor(h))
    hi = min(lo + 1, len(v) - 1)
    return v[lo] + (h - lo) * (v[hi] - v[lo])


def dense_segment_labels(cpts, n):
    lab = np.zeros(n, dtype=np.int64)
    bounds = [0] + list(cpts) + [n]
    for i, (a, b) in enumerate(zip(bounds[:-1], bounds[1:])):
        lab[a:b] = i
    return lab


def dense_anomaly_labels(intervals, n):
    lab = np.zeros(n, dtype=np.int64)
    for i, (a, b) in enumerate(intervals):
        lab[a:b] = i + 1
    return lab


def dense_subset_labels(anomalies, n, p):
    lab = np.zeros((n, p), dtype=np.int64)
    for i, (a, b, cols) in enumerate(anomalies):
        for c in cols:
            lab[a:b, c] = i + 1
    return lab

#!/bin/sh
# run_all.sh <tier> <seed...>   runs every registered check, prints rc and wall time per property
tier=${1:-quick}; shift
seeds=${*:-1}
cd "$(dirname "$0")/.."
for seed in $seeds; do
  for p in C01 C02 C03 C04 C05 C06 C07 C08 C09 C10 C11 C12 C13 C14 C15 C16 C17 C18; do
    start=$(date +%s)
    VERIF_SEED=$seed ./vp_check.py $p --tier $tier > /tmp/run_all_${tier}_${seed}_$p.log 2>&1
    rc=$?
    end=$(date +%s)
    echo "seed=$seed $p rc=$rc $((end-start))s $(grep -c VIOLATION /tmp/run_all_${tier}_${seed}_$p.log) violations"
    if [ $rc -ne 0 ]; then grep -E "violation in|HARNESS|VIOLATION" /tmp/run_all_${tier}_${seed}_$p.log | head -5; fi
  done
done

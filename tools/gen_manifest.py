#!/venv/bin/python
"""Regenerates MANIFEST.json from the table below and validates it against the schema."""
import json
import sys
from pathlib import Path

ROOT = Path(__file__).resolve().parent.parent
BASELINE_CMD = ("cd /repo && /venv/bin/python -m pytest -ra -q -p no:cacheprovider --timeout=900 "
                "--continue-on-collection-errors")

# id -> (technique, level text, level note, design section)
CHECKS = {}


def add(pid, technique, text, note, ref):
    CHECKS[pid] = (technique, text, note, ref)


add("C02",
    "Hypothesis PBT: generated table/built-in costs vs un-pruned optimal-partitioning reference model",
    "Generated-input search (Hypothesis, sharded over 16 processes): user-defined table costs (pair-interaction, "
    "super-additive closure of a signed table, integer-data L2; float- or integer-typed output; integer and "
    "non-integer penalties), the built-in costs and a user-defined L1 cost on structured data in several units; "
    "every prefix score, the final score and the returned segmentation are compared with an O(n^2) un-pruned "
    "dynamic programme that is itself self-tested against exhaustive enumeration; detectors may have a past (cost pre-fitted on wider "
    "data, buffer refilled in place) and whole-numbered data may arrive as int64 counts; a long_series facet compares every prefix "
    "score of series of up to 33000 samples with the same recursion; a default_settings facet runs the default hyper-parameters on seeded realistic "
    "series of 100-400 samples. Bounded exploration "
    "(n<=16 tables, n<=100 data), not a proof.",
    "Trusted: NumPy/pandas/sktime; oracle in /verif/oracles/reference.py; for built-in costs the cost table "
    "comes from a fresh instance of the same cost class (cost values themselves are decided by C01) and "
    "optimality is asserted only where that table satisfies the split inequality.",
    "DESIGN.md section 4, C02")

add("C01",
    "Hypothesis PBT: definitional recomputation (long double) with enclosure error model; batch-independence and parameter-validation facets",
    "Generated data matrices (exact/generic/structured/constant/duplicated columns), both parameter modes, generated fixed "
    "parameters and interval batches; each returned row is compared with the cost computed directly from X[s:e] under a stated "
    "rounding-error enclosure; singular slices must raise the documented error; rows must not depend on the batch; invalid "
    "fixed parameters must raise ValueError; refilled buffers, bystander objects of the same class and a wide_data facet (p up to 160, "
    "units 1e-3..1e3) and a structured_batches facet (back-to-back, common-end / common-start and nested batches on series of up to 6000 samples) are "
    "included; a covariance_structures facet evaluates fixed covariances of real structure (equicorrelated, one-factor, block, channels in units 1000 .. 0.004) "
    "against the definition in whitened units; long_series_and_big_batches evaluates 100000-row series across the rows 32768 / 65536 / 98304 and single calls "
    "with exactly 8192 / 16384 / 65536 cuts. Bounded exploration (n<=120 with p<=4, n~4p for wide data).",
    "Trusted: NumPy long double arithmetic, the error model B=32(N+1)^2 eps M^2 of DESIGN.md 3.4; ill-conditioned multivariate "
    "slices (cond>1e10) accept either outcome.",
    "DESIGN.md section 4, C01")
add("C03",
    "Hypothesis PBT: generated table/built-in savings and penalties vs un-pruned CAPA dynamic-programme reference model",
    "Generated integer table savings (|sum u| or max(0,sum u) minus a per-sample charge, sub-additive closure of a signed table - "
    "savings may be negative) with CAPA and with MVCAPA under user penalty "
    "callables (betas zero/equal/arbitrary), and built-in savings with all penalty families on structured data; every cumulative "
    "score, the re-evaluated reported anomalies, interval well-formedness and ignore_point_anomalies are compared with an un-pruned "
    "DP that is self-tested against exhaustive enumeration; further facets place MVCAPA cases at the pruning boundary, run 12000 cheap "
    "small-integer series per quick run with a binding max_segment_length, and compare series of up to 66000 samples with the un-pruned "
    "recursion; default_settings on seeded realistic series; dense_wide_mvcapa: 16-64 channels with events below the sparse penalty in every channel. "
    "Bounded exploration (n<=14 tables, n<=100 structured data, long series with bounded "
    "max_segment_length).",
    "Trusted: oracle in oracles/reference.py; built-in penalty functions are inputs here (pinned by C15); optimality asserted only "
    "where the evaluated savings are sub-additive and non-negative.",
    "DESIGN.md section 4, C03")
add("C06",
    "Hypothesis PBT: algebraic identities vs fresh cost instances, twin implementations vs definitional values, inequalities under an error model",
    "Generated data, admissible 3- and 4-point cuts, four costs (incl. a user-defined L1 cost) and generated fixed parameters; "
    "ChangeScore/Saving/LocalAnomalyScore are compared with their defining cost differences, CUSUM^2 and L2Saving with their "
    "cost-based twins and with long-double definitional values, plus non-negativity, C_opt<=C_theta and the split inequality; "
    "converters pass scores through by identity; refilled buffers, int64 counts, fixed-parameter local scores and a huge_series facet "
    "(scorers on 3.4-8 million samples against long-double definitions). Bounded exploration (n<=80; 4 huge cells).",
    "Trusted: cost values (decided by C01); inequalities asserted only where slice variances exceed 1e-8 x scale^2.",
    "DESIGN.md section 4, C06")

add("C04",
    "Hypothesis PBT: generated detectors x hyper-parameters x data against a validity predicate over the sparse output",
    "All seven detectors with hyper-parameters generated over their documented domains (boundary values included), admissible "
    "scorers and structured data (events at first/last admissible positions, spikes, adjacent events, constant data, n at the "
    "minimum); predict's frame is checked against a predicate written from the property text (range index, int64 strictly "
    "increasing changepoints with segment / bandwidth limits, sorted disjoint non-empty left-closed intervals, labels 1..K, "
    "length limits, strict interior for circular binseg, valid distinct icolumns). Input as array or DataFrame (nine index kinds, eight column-label kinds); a second "
    "predict on the same detector (frame shortened in place, shorter object, refilled buffer) is held to the same predicate. Bounded exploration (n<=90, p<=4).",
    "Trusted: the predicate in checks/common.py; the predicate is asserted whatever the sign of the fitted threshold (D30, D35); "
    "the documented not-PD error is accepted for multivariate Gaussian scorers.",
    "DESIGN.md section 4, C04")
add("C13",
    "exhaustive enumeration of the integer box [-2,n+2]^k for 17 scorers + Hypothesis-generated malformed arrays + coverage-guided fuzzing (atheris/libFuzzer) of the cuts argument; validity predicate and definitional values",
    "Every integer tuple of the box (k=2,3,4; n 4..6, thorough up to 8; p 1..2) for 17 scorers is passed to evaluate as int64 and, "
    "where non-negative, also as uint64/uint8/int32: invalid tuples must raise ValueError (not IndexError, not a value), valid "
    "ones must be accepted and equal the definitional value in every dtype; plus generated float/bool/wrong-width/0-row/3-D/"
    "list/row-vector/flat-multiple arguments, mixed batches, descending unsigned rows, rows overflowing narrow signed dtypes "
    "and pandas containers; and a coverage-guided fuzzing campaign (atheris, 120k executions quick / 6.4M thorough) over a "
    "structured decoder of container x dtype x shape x values with the same oracle inside the target. The box facet is exhaustive. Two further "
    "facets use scorers that have just raised the documented error (directly or inside a detector) or whose re-fit raised, and hold them to the same predicate; "
    "big_batches passes ~80000 cuts in ONE call (with and without one invalid row in the tail), long_series_cut_dtypes narrow / unsigned cuts on 10^5..10^6 samples.",
    "Trusted: the validity predicate written from the property and the documented minimum sizes (1, 2, p+1); fixed "
    "well-conditioned data per (n,p).",
    "DESIGN.md section 4, C13")
add("C14",
    "finite configuration grid enumerated on a process pool (exhaustive in the thorough tier, seeded 1/12 sample in the quick tier) against an outcome model with a watchdog",
    "137k-cell grid of boundary/interior hyper-parameter values x scorers x lengths around the documented minimum x p x six "
    "data kinds x NaN for all seven detectors: valid cells must run fit/predict/transform within the watchdog and give "
    "well-formed output (accepted alternatives: documented not-PD error, ValueError when the cost's minimum size exceeds the "
    "requested length); too-short or NaN data and every invalid hyper-parameter class (constructor and set_params routes) "
    "must raise ValueError - NaN as a hyper-parameter value included. Further facets: invalid values next to valid companions, short batches and stuck channels "
    "through every entry point of a fitted detector, NumPy-scalar hyper-parameters, eight forms of a missing value, and finite data held in pandas' "
    "nullable / object dtypes (must run and detect as for float64).",
    "Trusted: outcome model in checks/c14.py; regions the documentation leaves unspecified are not generated and are listed "
    "in the evidence assumptions; watchdog 12 s per cell (typical cell 10 ms).",
    "DESIGN.md section 4, C14")

add("C05",
    "Hypothesis PBT: generated sparse outputs x index types against a positional labelling model and a sparse->dense->sparse round-trip; differential through all detectors",
    "Hand-built valid sparse outputs (changepoints, disjoint intervals incl. adjacent / length-1 / touching 0 and n, column "
    "subsets) and every supported index type are passed through the public static converters: the dense frame must equal the "
    "positional labelling, carry exactly the given index and round-trip to the sparse input; the same through fit/predict/"
    "transform of all seven detectors on DataFrames with generated index and column labels. Indexes may be named (also like the library's own "
    "output columns) and may repeat a time stamp; outputs are compared with a snapshot taken before the call. Bounded exploration (n<=30; p up to 130 for the static subset facet).",
    "Trusted: pandas index construction; the labelling model in oracles/reference.py; affected columns are compared as sets.",
    "DESIGN.md section 4, C05")

add("C07",
    "Hypothesis PBT: brute-force per-interval argmax via an independent scorer + set-valued greedy reference model on the reported table; metamorphic threshold monotonicity",
    "Generated seeded-binseg settings (msl, max_interval_length incl. the boundary 2*msl, growth factor, threshold scales incl. "
    "0 and tuned), built-in scorers on structured data and user-defined integer Table/Function change scores (ties); the "
    "candidate table is checked for existence/bounds/lengths, each row's score and maximiser are recomputed by brute force, the "
    "reported changepoints must be one of the outcomes of the greedy rule under any tie-break, plus support, coverage and the "
    "subset relation under a larger threshold; detectors fitted on other data / with a past, user subclasses and level-dependent user scores, "
    "int16 data, and a long_series facet (3.4-5 million samples, max_interval_length = n). Bounded exploration (n<=60; 5 long cells).",
    "Trusted: change score values (C06); greedy model in oracles/reference.py (DFS capped at 2000 nodes, fallback to the "
    "stated consequences); thresholds >= 0 only.",
    "DESIGN.md section 4, C07")
add("C08",
    "Hypothesis PBT: window-score and peak-of-run reference model (independent scorer + definitional values); time-reversal metamorphic relation with margin rule",
    "Generated moving-window settings (bandwidth from 1, admissible min_detection_interval, threshold scales incl. 0 and tuned), "
    "built-in and integer Table/Function change scores; every score is compared with the change score of X[t-b:t] vs X[t:t+b] "
    "(0 elsewhere) and, for the mean-change scores, with the definitional statistic from the rows; changepoints with the "
    "peak-of-run model (any maximal position accepted); reversed series maps scores and changepoints t -> n-t. Further facets prescribe the score curve "
    "through a user-defined score (runs around min_detection_interval) and run series with n p > 2^16. Bounded (n<=80; bandwidth<=16; 20 long cells).",
    "Trusted: error model of DESIGN.md 3.4 for the reversal tolerance; discrete comparison only under the margin rule.",
    "DESIGN.md section 4, C08")
add("C09",
    "Hypothesis PBT: brute-force inner-interval argmax via an independent scorer + set-valued greedy overlap model on the reported table; metamorphic threshold monotonicity",
    "Generated circular-binseg settings (msl from 1, max_interval_length incl. 2*msl, growth factor, threshold scales incl. 0 and "
    "tuned), local scores from L2 / Gaussian / user L1 costs and integer Table/Function local scores; every table row's score and "
    "inner interval are recomputed over all admissible inner intervals, candidate-free rows must stay at 0, the reported anomalies "
    "must be an outcome of the greedy overlap-removal rule, and a larger threshold returns a subset; series of 150-240 samples with a function "
    "score, > 1000 anomalies (many_anomalies), fine interval grids whose candidate list holds an interval twice (fine_interval_grid), a covariance cost, "
    "level-dependent user scores on a level of 9e9; detectors fitted on other lengths / numbers of columns and with a past. Bounded (n<=30 generic, long cells up to 12000).",
    "Trusted: local anomaly score values (C06); greedy model in oracles/reference.py; thresholds >= 0 only.",
    "DESIGN.md section 4, C09")

add("C15",
    "Hypothesis PBT vs formulas re-implemented from the property text + independent quantile; exhaustive (n,p,k,scale) grid for the MVCAPA families; metamorphic penalty monotonicity for PELT",
    "Fitted penalty_/threshold_/collective_penalty_/point_penalty_ on generated shapes, scales, bandwidths, levels and savings "
    "are compared with scale x formula and with scale x value-at-scale-1; tuned thresholds with an independent linear-"
    "interpolation quantile of the observed training scores and the exceedance bound; the four MVCAPA families are checked on "
    "a 432-cell grid x 4 scales for shape, sign, monotone cumulative penalty, proportionality, the closed forms of dense and "
    "sparse and combined == pointwise minimum (exhaustive); PELT at two penalties never gains changepoints.",
    "Trusted: MovingWindow / CircularBinarySegmentation get_default_threshold as published reference (the property names it); "
    "chi-square based intermediate penalty only through its stated properties.",
    "DESIGN.md section 4, C15")
add("C16",
    "Hypothesis PBT: sorted-saving argmax reference model with the sparse penalty from its closed form + positional labelling of transform",
    "Generated multivariate data (p 2..6) with bumps/spikes on column subsets, all collective penalty families x scales, point "
    "family sparse/dense, three savings, DataFrame input with generated index/columns; for every reported anomaly the savings "
    "of a fresh instance are sorted and k* recomputed; icolumns must be exactly those k* columns in decreasing order (under "
    "the tie margin) and transform must mark exactly them; frames fitted under the same labels in another order, buffers refilled in place, "
    "int64 counts, one callable object for both penalties. Bounded exploration (n<=50).",
    "Trusted: saving values (C06), point penalty family values (C15); ties excluded by a 1e-6 margin, then only the order-"
    "free consequences are asserted.",
    "DESIGN.md section 4, C16")
add("C17",
    "Hypothesis PBT: segment-statistic reference model from a clone's changepoints; user-defined detectors and statistics; all input containers",
    "Wrapped detector in {user-defined detector returning generated changepoints, PELT, MovingWindow, SeededBinarySegmentation}, "
    "statistics incl. user functions, bounds drawn from the data's own statistics (boundary equality occurs), data as 1-D/2-D "
    "array, Series or DataFrame with generated index; the reported anomalies must equal the out-of-range segments of the "
    "clone's segmentation, each on its own; the user's detector must stay unfitted and unaltered; second phases (set_params on the user's "
    "detector + new fit, buffer refilled in place), a label-based user detector, infinite bounds. Bounded (n<=40).",
    "Trusted: the wrapped detector's own predict (clone) as source of the segmentation.",
    "DESIGN.md section 4, C17")
add("C18",
    "Hypothesis PBT: reproducibility, affine relation to the same-seed standard-normal output, validity predicate for outliers, ValueError for inconsistent arguments",
    "Generated n (from 1), p, seeds, changepoint / disjoint-anomaly lists, scalar / shared-vector / per-segment means and "
    "variances, alternating-data arguments, outlier counts and sizes; identical calls must return identical n x p frames with "
    "index 0..n-1, equal to mean + sqrt(var) x Z on each requested segment and Z elsewhere; outliers exactly n_outliers evenly "
    "spaced rows first..last; inconsistent arguments raise ValueError; returned frames are edited in place before the next call. Bounded (n<=60).",
    "Trusted: scipy's random stream for a fixed seed (the relation is checked against the generator's own zero-mean unit-"
    "variance output).",
    "DESIGN.md section 4, C18")

add("C11",
    "Hypothesis PBT: differential testing of generated representations per entry point against the canonical float64 DataFrame run",
    "For every detector a representation (2-D/1-D ndarray, Series, DataFrame x float64/int64 x seven index kinds x column labels) "
    "is drawn independently for fit, update, predict, transform and transform_scores; fitted thresholds/penalties, sparse "
    "detections (incl. labels and icolumns), dense labels and scores must equal those of the canonical run and dense outputs "
    "must carry X's own index; eleven scorer configurations likewise for fit/evaluate. Whole-numbered data also as int32 / int16 and "
    "as counts up to 5e9, bool indicator columns, 1-3 update chunks with their own dtype. Bounded exploration (n<=30, p<=3).",
    "Trusted: pandas index construction; update is compared between containers of the same kind (arrays = default-index "
    "frames, pandas objects with a continuing index).",
    "DESIGN.md section 4, C11")
add("C12",
    "Hypothesis PBT: metamorphic relations (column permutation, per-column shift, positive scale, time reversal) with an error model, objective re-evaluation for the optimisers and a decision-margin rule for discrete outputs",
    "Twelve scorer configurations and six detectors are run on generated float data and on the transformed data: scorer outputs "
    "and score tables must agree within the prefix-sum error model (cuts mirrored for reversal, columns permuted), PELT's / "
    "CAPA's result on the transformed data must attain the original optimum when re-evaluated on the original objective, "
    "threshold detectors' detections must be equal whenever the decision margin is satisfied, MVCAPA's icolumns map through "
    "the permutation; integer-typed originals on a high level, one fitted detector on a column-permuted labelled frame, a wide_data facet "
    "(p up to 160) and a long_series facet (86400-140000 rows, cuts across rows 32768 / 65536 / 131072, shift and reverse). Bounded exploration (n<=40, p<=3; 16 wide cells; 9-18 long cells).",
    "Trusted: error model of DESIGN.md 3.4; near-degenerate slices (variance below 1e-8 x scale^2) are skipped for Gaussian "
    "scorers and counted.",
    "DESIGN.md section 4, C12")

add("C10",
    "Hypothesis rule-based state machine (stateful / model-based PBT) with a differential oracle against history-free execution and invariants on hyper-parameters and caller data",
    "Histories of construct / clone / set_params (incl. nested parameters of a shared cost object) / fit / update / predict / "
    "transform / transform_scores / scorer fit / evaluate over all seven detectors, ten scorer configurations, shared cost "
    "instances and a pool of datasets with different n and p; after every output-producing call the same call on a freshly "
    "constructed object fitted on the model's training data (update => one row per label, latest delivery wins, label order - also for late chunks) must give the same output or "
    "the same exception class; after every step get_params(deep) must equal the specification and the datasets their "
    "pristine copies. The shrunk op list is the replay file. Two facets of "
    "generated targeted histories (scorer state that depends on earlier data; several scorers of one class asked for the same segments; one change "
    "detector object inside two anomalisers; the set_params scan loop) replay "
    "through the same interpreter. Bounded exploration (<= 45 steps, 4 detector slots).",
    "Trusted: sktime clone/set_params/reset semantics (mirrored by the model); shared instances are shared between detectors "
    "only; objects whose re-fit or update failed are retired (their state is not defined by the documentation).",
    "DESIGN.md section 4, C10")

NOT_BUILT_REASON = "check not built yet in this round (designed in DESIGN.md section 4; no claim is made)"


def main():
    props = [json.loads(l)["id"] for l in (ROOT / "properties.jsonl").read_text().splitlines() if l.strip()]
    checks = []
    for pid in props:
        if pid not in CHECKS:
            continue
        technique, text, note, ref = CHECKS[pid]
        checks.append({
            "property_id": pid,
            "quick_cmd": f"./vp_check.py {pid} --tier quick",
            "thorough_cmd": f"./vp_check.py {pid} --tier thorough",
            "evidence_file": f"evidence/{pid}.json",
            "replay_cmd_template": f"./vp_check.py {pid} --replay {{path}}",
            "engine": "hypothesis-pbt",
            "level_claimed": {"category": "exploration", "text": text, "design_ref": ref},
            "level_note": note,
            "technique": technique,
        })
    manifest = {
        "version": 1,
        "setup_cmd": "./setup.sh",
        "hooks": {
            "guard": "SKCHANGE_VERIF",
            "enable": "no hooks are needed: all observations go through the public API (scores, threshold_, penalty_) and caller-supplied counting scorers; the editable install makes /venv import /repo's working tree",
            "baseline_off_cmd": BASELINE_CMD,
            "source_commits": [],
            "add_only": True,
        },
        "engines": [{
            "name": "hypothesis-pbt",
            "path": "vp_check.py",
            "serves_properties": [c["property_id"] for c in checks],
            "kind_free_text": "Hypothesis 6.168 property-based testing (strategies, shrinking, rule-based state machines) plus exhaustive enumeration of finite grids, sharded over a 16-process pool; explicit reference-model / metamorphic / differential oracles",
        }, {
            "name": "atheris-fuzz",
            "path": "fuzz/fuzz_cuts.py",
            "serves_properties": ["C13"],
            "kind_free_text": "atheris 3.1 (libFuzzer) coverage-guided fuzzing of evaluate's cuts argument through a structured decoder, semantic oracle inside the target; run as one facet of the C13 check (installed by setup.sh into .deps from the offline wheelhouse)",
        }],
        "checks": checks,
        "notes": "All checks: ./vp_check.py <ID> --tier quick|thorough; VERIF_SEED selects the Hypothesis seeds; exit 0/1/2 = held / VIOLATION / harness problem. Known findings: KNOWN_FINDINGS.json. Regression replays under replays/regressions are executed first in every run.",
        "not_applicable": [{"property_id": pid, "reason": NOT_BUILT_REASON} for pid in props if pid not in CHECKS],
    }
    out = ROOT / "MANIFEST.json"
    out.write_text(json.dumps(manifest, indent=1) + "\n")
    try:
        import jsonschema
        schema = json.loads(Path("/root/.vp/MANIFEST.schema.json").read_text())
        jsonschema.validate(manifest, schema)
        print("MANIFEST.json valid;", len(checks), "checks")
    except ImportError:
        print("jsonschema not available; not validated")


if __name__ == "__main__":
    sys.exit(main())

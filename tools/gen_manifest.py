#!/venv/bin/python
"""Regenerates MANIFEST.json from the table below and validates it against the schema."""
import json
import sys
from pathlib import Path

ROOT = Path(__file__).resolve().parent.parent
BASELINE_CMD = ("cd /repo && /venv/bin/python -m pytest -ra -q -p no:cacheprovider --timeout=900 "
                "--continue-on-collection-errors")

# id -> (technique, level text, level note, design section)
CHECKS = {}


def add(pid, technique, text, note, ref):
    CHECKS[pid] = (technique, text, note, ref)


add("C02",
    "Hypothesis PBT: generated table/built-in costs vs un-pruned optimal-partitioning reference model",
    "Generated-input search (Hypothesis, sharded over 16 processes): user-defined integer table costs "
    "(pair-interaction, super-additive closure, integer-data L2) and the built-in costs on structured data; "
    "every prefix score, the final score and the returned segmentation are compared with an O(n^2) un-pruned "
    "dynamic programme that is itself self-tested against exhaustive enumeration. Bounded exploration "
    "(n<=16 tables, n<=100 data), not a proof.",
    "Trusted: NumPy/pandas/sktime; oracle in /verif/oracles/reference.py; for built-in costs the cost table "
    "comes from a fresh instance of the same cost class (cost values themselves are decided by C01) and "
    "optimality is asserted only where that table satisfies the split inequality.",
    "DESIGN.md section 4, C02")

NOT_BUILT_REASON = "check not built yet in this round (designed in DESIGN.md section 4; no claim is made)"


def main():
    props = [json.loads(l)["id"] for l in (ROOT / "properties.jsonl").read_text().splitlines() if l.strip()]
    checks = []
    for pid in props:
        if pid not in CHECKS:
            continue
        technique, text, note, ref = CHECKS[pid]
        checks.append({
            "property_id": pid,
            "quick_cmd": f"./vp_check.py {pid} --tier quick",
            "thorough_cmd": f"./vp_check.py {pid} --tier thorough",
            "evidence_file": f"evidence/{pid}.json",
            "replay_cmd_template": f"./vp_check.py {pid} --replay {{path}}",
            "engine": "hypothesis-pbt",
            "level_claimed": {"category": "exploration", "text": text, "design_ref": ref},
            "level_note": note,
            "technique": technique,
        })
    manifest = {
        "version": 1,
        "setup_cmd": "./setup.sh",
        "hooks": {
            "guard": "SKCHANGE_VERIF",
            "enable": "no hooks are needed: all observations go through the public API (scores, threshold_, penalty_) and caller-supplied counting scorers; the editable install makes /venv import /repo's working tree",
            "baseline_off_cmd": BASELINE_CMD,
            "source_commits": [],
            "add_only": True,
        },
        "engines": [{
            "name": "hypothesis-pbt",
            "path": "vp_check.py",
            "serves_properties": [c["property_id"] for c in checks],
            "kind_free_text": "Hypothesis 6.168 property-based testing (strategies, shrinking, rule-based state machines) plus exhaustive enumeration of finite grids, sharded over a 16-process pool; explicit reference-model / metamorphic / differential oracles",
        }],
        "checks": checks,
        "notes": "All checks: ./vp_check.py <ID> --tier quick|thorough; VERIF_SEED selects the Hypothesis seeds; exit 0/1/2 = held / VIOLATION / harness problem. Known findings: KNOWN_FINDINGS.json. Regression replays under replays/regressions are executed first in every run.",
        "not_applicable": [{"property_id": pid, "reason": NOT_BUILT_REASON} for pid in props if pid not in CHECKS],
    }
    out = ROOT / "MANIFEST.json"
    out.write_text(json.dumps(manifest, indent=1) + "\n")
    try:
        import jsonschema
        schema = json.loads(Path("/root/.vp/MANIFEST.schema.json").read_text())
        jsonschema.validate(manifest, schema)
        print("MANIFEST.json valid;", len(checks), "checks")
    except ImportError:
        print("jsonschema not available; not validated")


if __name__ == "__main__":
    sys.exit(main())

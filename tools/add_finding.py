#!/venv/bin/python
"""add_finding.py ID PROPERTY COMMIT REPLAY 'what failed'  -> appends a 'fixed' record."""
import json, sys
from pathlib import Path
ROOT = Path(__file__).resolve().parent.parent
fid, prop, commit, replay, what = sys.argv[1:6]
p = ROOT / "KNOWN_FINDINGS.json"
d = json.loads(p.read_text())
assert (ROOT / replay).exists(), replay
d["findings"] = [f for f in d["findings"] if not (f["id"] == fid and f["property"] == prop)]
d["findings"].append({"id": fid, "property": prop, "status": "fixed", "commit": commit, "what": what,
                      "replay": replay, "line": f"fixed: property={prop} {commit} {what}"})
p.write_text(json.dumps(d, indent=1) + "\n")
print("recorded", fid, prop)

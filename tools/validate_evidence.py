#!/venv/bin/python
import json, sys
from pathlib import Path
import jsonschema
ROOT = Path(__file__).resolve().parent.parent
schema = json.loads(Path("/root/.vp/EVIDENCE.schema.json").read_text())
bad = 0
for f in sorted((ROOT / "evidence").glob("*.json")):
    try:
        d = json.loads(f.read_text())
        jsonschema.validate(d, schema)
        c = d["coverage"]
        print(f"{f.name}: ok tier={d['tier']} eval={c['evaluations']} nontrivial={c['distinct_nontrivial']} viol={d.get('violations')} wall={d['wall_s']}")
    except Exception as e:
        bad += 1
        print(f"{f.name}: INVALID {str(e)[:300]}")
sys.exit(1 if bad else 0)

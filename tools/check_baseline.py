#!/venv/bin/python
"""Runs the repository's own suite (guard off - there are no hooks) and compares with BASELINE.json."""
import json, subprocess, sys, tempfile, xml.etree.ElementTree as ET
b = json.load(open('/root/.vp/BASELINE.json'))
stable = set(b['stable_pass'])
with tempfile.NamedTemporaryFile(suffix='.xml') as f:
    subprocess.run(f"cd /repo && /venv/bin/python -m pytest -ra -q -p no:cacheprovider --timeout=900 "
                   f"--continue-on-collection-errors --junitxml={f.name} > /dev/null 2>&1", shell=True)
    res = {}
    for tc in ET.parse(f.name).iter('testcase'):
        status = 'pass'
        for ch in tc:
            if ch.tag in ('failure', 'error'):
                status = 'fail'
            elif ch.tag == 'skipped':
                status = 'skip'
        res[f"{tc.get('classname')}::{tc.get('name')}"] = status
missing = sorted(s for s in stable if res.get(s) != 'pass')
print(f"{len(stable)} stable tests; {len(missing)} not passing now")
for m in missing[:20]:
    print("  ", m, res.get(m))
sys.exit(1 if missing else 0)

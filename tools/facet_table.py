#!/venv/bin/python
"""Prints the as-built facet table (markdown) from the check modules; pasted into DESIGN.md section 8.4."""
import importlib, os, sys, warnings
warnings.filterwarnings("ignore")
ROOT = os.path.dirname(os.path.dirname(os.path.abspath(__file__)))
sys.path.insert(0, ROOT)
print("| property | facet | kind | cases quick / thorough | generator and non-trivial rule |")
print("|---|---|---|---|---|")
for i in range(1, 19):
    m = importlib.import_module(f"checks.c{i:02d}")
    for f in m.FACETS:
        if f.kind == "enumerate":
            n = "enumeration" + (" (exhaustive)" if f.exhaustive else "")
        elif f.kind == "stateful":
            n = f"{3*f.n_quick} x <={f.steps_quick} steps / {4*f.n_thorough} x <={f.steps_thorough} steps"
        else:
            n = f"{3*f.n_quick} / {4*f.n_thorough}"
        print(f"| C{i:02d} | {f.name} | {f.kind} | {n} | {f.rule} |")

"""Runner for the property checks (see DESIGN.md section 2).

A property module (checks/cNN.py) exposes

    PROPERTY_ID = "C02"
    FACETS = [Facet(...), ...]
    SELF_TESTS = [callable, ...]          # optional oracle self-tests (raise on failure)

Each facet is decided by generated-input search: a Hypothesis strategy (kind "given"),
a Hypothesis rule-based state machine (kind "stateful") or the exhaustive enumeration of
a finite domain (kind "enumerate").  ``check(case)`` builds the real skchange objects,
runs them, runs the oracle and raises ``Violation``; it returns an info dict
``{"nontrivial": bool, "classes": [labels]}`` that feeds the evidence file.

Exit codes: 0 held on everything explored / 1 VIOLATION line(s) printed / 2 harness problem.
"""

from __future__ import annotations

import hashlib
import json
import math
import multiprocessing as mp
import os
import signal
import sys
import time
import traceback
from collections import Counter
from dataclasses import dataclass, field
from pathlib import Path
from typing import Any, Callable, Iterable, Optional

ROOT = Path(__file__).resolve().parent.parent
# Where run-time outputs (evidence, found replays) go. Only the mutant protocol overrides it,
# so that runs against a scratch tree never touch the committed evidence.
OUT = Path(os.environ.get("VERIF_OUT", str(ROOT)))
LEVEL = "exploration"
N_WORKERS = int(os.environ.get("VERIF_WORKERS", "16"))
CASE_TIME_LIMIT_S = float(os.environ.get("VERIF_CASE_LIMIT", "30"))


class Violation(Exception):
    """The property does not hold on this case."""

    def __init__(self, message: str, **details):
        super().__init__(message)
        self.message = message
        self.details = details


class CaseTimeout(BaseException):
    """Raised by the per-case watchdog (BaseException: not swallowed by `except Exception`)."""


class HarnessProblem(Exception):
    """Something is wrong with the machinery itself (never reported as a violation)."""


class sut:
    """Context manager around calls into skchange.

    Any exception that escapes the code under test and is not listed in ``allowed`` is a
    property violation ("no documented outcome"), not a harness error.  Allowed
    exceptions propagate unchanged so that the check can handle them.
    """

    def __init__(self, what: str, allowed: tuple = ()):
        self.what = what
        self.allowed = allowed

    def __enter__(self):
        return self

    def __exit__(self, et, ev, tb):
        if et is None:
            return False
        if issubclass(et, (Violation, CaseTimeout, KeyboardInterrupt, HarnessProblem)):
            return False
        if issubclass(et, Exception):
            # (RecursionError / NotImplementedError are subclasses of RuntimeError: they are never what a check means
            # by "the documented RuntimeError")
            if self.allowed and issubclass(et, self.allowed) and not issubclass(et, (RecursionError, NotImplementedError)):
                return False
            frames = traceback.extract_tb(tb)
            where = ""
            for fr in reversed(frames):
                if "skchange" in fr.filename:
                    where = f"{Path(fr.filename).name}:{fr.lineno}"
                    break
            raise Violation(
                f"{self.what}: unexpected {et.__name__}: {str(ev)[:200]}",
                exception=et.__name__,
                where=where,
            ) from ev
        return False


@dataclass
class Facet:
    name: str
    check: Callable[[Any], Optional[dict]]
    rule: str
    kind: str = "given"  # "given" | "enumerate" | "stateful"
    strategy: Optional[Callable[[str], Any]] = None  # tier -> SearchStrategy
    enumerate: Optional[Callable[[str], Iterable]] = None  # tier -> iterable of cases
    machine: Optional[Callable[[str, "Recorder"], Any]] = None  # tier, rec -> Machine cls
    external: Optional[Callable[[str, int, int, int, int], dict]] = None  # tier, seed, shard, n_shards, n -> shard result
    n_quick: int = 200
    n_thorough: int = 2000
    shards_quick: int = 4
    shards_thorough: int = 16
    steps_quick: int = 20
    steps_thorough: int = 40
    timeout_is_violation: bool = False
    exhaustive: bool = False
    exhaustive_tiers: tuple = ("quick", "thorough")
    time_limit: Optional[float] = None
    max_samples: int = 3


def canonical(case) -> str:
    return json.dumps(case, sort_keys=True, separators=(",", ":"), default=_json_default)


def _json_default(o):
    import numpy as np

    if isinstance(o, np.integer):
        return int(o)
    if isinstance(o, np.floating):
        return float(o)
    if isinstance(o, np.ndarray):
        return o.tolist()
    if isinstance(o, (set, frozenset)):
        return sorted(o)
    if isinstance(o, tuple):
        return list(o)
    return repr(o)


def case_hash(case) -> str:
    return hashlib.sha1(canonical(case).encode()).hexdigest()[:16]


def hash32(*parts) -> int:
    h = hashlib.sha256("|".join(str(p) for p in parts).encode()).digest()
    return int.from_bytes(h[:4], "big")


def truncate_for_sample(obj, max_list=12, depth=0):
    """Keep samples readable: long lists are cut (marked), nesting preserved."""
    if isinstance(obj, dict):
        return {k: truncate_for_sample(v, max_list, depth + 1) for k, v in obj.items()}
    if isinstance(obj, (list, tuple)):
        out = [truncate_for_sample(v, max_list, depth + 1) for v in obj[:max_list]]
        if len(obj) > max_list:
            out.append(f"... ({len(obj) - max_list} more)")
        return out
    return obj


class Recorder:
    """Counts what was actually explored in one shard."""

    def __init__(self, max_samples=3):
        self.evaluations = 0
        self.nontrivial = set()
        self.extra_nontrivial = 0
        self.classes = Counter()
        self.samples = []
        self.max_samples = max_samples
        self.known_hits = Counter()
        self.last_failure = None  # (case, Violation)
        self.failures = {}  # hash -> (case, message, details)
        self.first_failure_time = None

    def record(self, case, info):
        info = info or {}
        # a case may stand for many enumerated sub-cases (exhaustive boxes): it then reports how
        # many it evaluated and how many of them were (distinct by construction and) non-trivial
        self.evaluations += int(info.get("weight", 1))
        self.extra_nontrivial += int(info.get("nontrivial_weight", 0))
        for c in info.get("classes", ()):
            if isinstance(c, (list, tuple)):
                self.classes[c[0]] += int(c[1])
            else:
                self.classes[c] += 1
        if info.get("nontrivial"):
            h = case_hash(case)
            if h not in self.nontrivial:
                self.nontrivial.add(h)
                if len(self.samples) < self.max_samples:
                    self.samples.append(truncate_for_sample(case))


# --------------------------------------------------------------------------------------
# known findings
# --------------------------------------------------------------------------------------


def load_known_findings(prop: str):
    path = ROOT / "KNOWN_FINDINGS.json"
    if not path.exists():
        return []
    data = json.loads(path.read_text())
    return [f for f in data.get("findings", []) if f.get("property") == prop]


def matches_open_finding(open_findings, facet_name, case, violation: Violation):
    for f in open_findings:
        m = f.get("match", {})
        if m.get("facet") not in (None, facet_name):
            continue
        expr = m.get("expr", "False")
        try:
            ok = bool(
                eval(  # noqa: S307 - expression comes from our own committed file
                    expr,
                    {"__builtins__": {"len": len, "min": min, "max": max, "abs": abs,
                                      "any": any, "all": all, "str": str, "int": int,
                                      "float": float, "isinstance": isinstance,
                                      "dict": dict, "list": list, "sum": sum}},
                    {"case": case, "message": violation.message, "details": violation.details},
                )
            )
        except Exception:
            ok = False
        if ok:
            return f
    return None


# --------------------------------------------------------------------------------------
# running one case under the watchdog
# --------------------------------------------------------------------------------------


def _alarm_handler(signum, frame):
    raise CaseTimeout()


def run_case(facet: Facet, case, limit=None):
    """Run facet.check(case) under the watchdog. Returns info or raises Violation."""
    if limit is None:
        limit = facet.time_limit or CASE_TIME_LIMIT_S
    # Two clocks. Where "did not terminate" is itself the violation (C14), the deciding clock counts the *CPU time of this
    # process* (ITIMER_PROF): a machine that is merely busy cannot turn a slow case into an alarm. The wall clock - ten times
    # as generous there - only ever yields "inconclusive" (a harness problem, exit 2), never a violation.
    # Every facet is bounded the same way (limit = CPU seconds, wall clock = 10 x limit as a backstop for a blocked process).
    cpu_clock = True
    old = signal.signal(signal.SIGALRM, _alarm_handler)
    old_prof = signal.signal(signal.SIGPROF, _alarm_handler) if cpu_clock else None
    signal.setitimer(signal.ITIMER_REAL, limit * (10 if cpu_clock else 1))
    if cpu_clock:
        signal.setitimer(signal.ITIMER_PROF, limit)
        cpu0 = time.process_time()
    try:
        return facet.check(case)
    except CaseTimeout:
        if facet.timeout_is_violation and time.process_time() - cpu0 >= 0.9 * limit:
            raise Violation(
                f"did not run to completion within {limit:.0f}s of CPU time (watchdog)", timeout=True
            )
        # A budget hit is inconclusive, never a violation and never a reason to call the check broken: the case is counted
        # (class `watchdog_inconclusive` in the evidence) and the search goes on. (Raising here made Hypothesis re-run the
        # case, which then finished in time on a less busy machine - reported as a flaky harness error.)
        return {"nontrivial": False, "classes": ["watchdog_inconclusive"]}
    finally:
        signal.setitimer(signal.ITIMER_REAL, 0)
        signal.signal(signal.SIGALRM, old)
        if cpu_clock:
            signal.setitimer(signal.ITIMER_PROF, 0)
            signal.signal(signal.SIGPROF, old_prof)


# --------------------------------------------------------------------------------------
# shard execution (in a worker process)
# --------------------------------------------------------------------------------------


def _shard_result(rec: Recorder, t0, violation=None, harness=None):
    return {
        "evaluations": rec.evaluations,
        "nontrivial": list(rec.nontrivial),
        "extra_nontrivial": rec.extra_nontrivial,
        "classes": dict(rec.classes),
        "samples": rec.samples,
        "known_hits": dict(rec.known_hits),
        "violation": violation,
        "harness": harness,
        "wall": time.time() - t0,
    }


class ShardAPI:
    """What a shard offers to the test body: guarded execution and bookkeeping."""

    def __init__(self, facet, rec, open_findings, shrink_cap):
        self.facet = facet
        self.rec = rec
        self.open_findings = open_findings
        self.shrink_cap = shrink_cap

    def note_failure(self, case, v: Violation):
        rec = self.rec
        if rec.first_failure_time is None:
            rec.first_failure_time = time.time()
        h = case_hash(case)
        snapshot = json.loads(canonical(case))
        rec.failures[h] = (snapshot, v.message, _jsonable(v.details))
        rec.last_failure = rec.failures[h]

    def record(self, case, info):
        self.rec.record(case, info)

    def note_harness(self, exc):
        """A non-Violation exception escaped a check: remember the first one, start the shrink clock."""
        rec = self.rec
        if getattr(rec, "harness_trace", None) is None:
            rec.harness_trace = "".join(traceback.format_exception(type(exc), exc, exc.__traceback__))[-3000:]
        if rec.first_failure_time is None:
            rec.first_failure_time = time.time()

    def shrink_expired(self):
        """True once the shrink-time cap is used up (stateful machines then stop executing steps)."""
        t = self.rec.first_failure_time
        return t is not None and time.time() - t > self.shrink_cap

    def guarded(self, case):
        """Run one case; implements the shrink-time cap and known findings."""
        rec, facet = self.rec, self.facet
        if rec.first_failure_time is not None:
            h = case_hash(case)
            if h in rec.failures:
                c, msg, det = rec.failures[h]
                rec.last_failure = rec.failures[h]
                raise Violation(msg, **det)
            if time.time() - rec.first_failure_time > self.shrink_cap:
                return  # stop exploring new shrink candidates
        try:
            info = run_case(facet, case)
        except Violation as v:
            known = matches_open_finding(self.open_findings, facet.name, case, v)
            if known is not None:
                rec.known_hits[known["id"]] += 1
                return
            self.note_failure(case, v)
            raise
        rec.record(case, info)


def run_shard(args):
    """Entry point of a pool task."""
    prop, facet_index, shard, n_shards, n_examples, tier, base_seed = args
    t0 = time.time()
    try:
        module = load_property_module(prop)
        facet: Facet = module.FACETS[facet_index]
        rec = Recorder(max_samples=facet.max_samples)
        open_findings = [f for f in load_known_findings(prop) if f.get("status") == "open"]
        shrink_cap = 25.0 if tier == "quick" else 150.0

        api = ShardAPI(facet, rec, open_findings, shrink_cap)
        guarded = api.guarded

        if facet.kind == "external":
            # e.g. a coverage-guided fuzzing campaign in a subprocess; returns the same bookkeeping as a shard
            res = facet.external(tier, hash32(base_seed, prop, facet.name, shard) % (2 ** 31 - 1) + 1, shard, n_shards, n_examples)
            res.setdefault("extra_nontrivial", 0)
            res.setdefault("known_hits", {})
            res.setdefault("harness", None)
            res["wall"] = time.time() - t0
            return res

        if facet.kind == "enumerate":
            for i, case in enumerate(facet.enumerate(tier)):
                if i % n_shards != shard:
                    continue
                try:
                    guarded(case)
                except Violation:
                    break  # first violation of this shard is enough
            viol = None
            if rec.last_failure is not None:
                c, msg, det = rec.last_failure
                viol = {"case": c, "message": msg, "details": det}
            return _shard_result(rec, t0, violation=viol)

        import hypothesis
        from hypothesis import HealthCheck, Phase, given, settings

        seed_value = hash32(base_seed, prop, facet.name, shard)
        common = dict(
            database=None,
            deadline=None,
            derandomize=False,
            report_multiple_bugs=False,
            suppress_health_check=list(HealthCheck),
            max_examples=n_examples,
            phases=[Phase.generate, Phase.shrink],
            print_blob=False,
        )
        try:
            if facet.kind == "given":
                strategy = facet.strategy(tier)

                @hypothesis.seed(seed_value)
                @settings(**common)
                @given(strategy)
                def test(case):
                    guarded(case)

                test()
            elif facet.kind == "stateful":
                from hypothesis.stateful import run_state_machine_as_test

                steps = facet.steps_quick if tier == "quick" else facet.steps_thorough
                machine_cls = facet.machine(tier, api)
                run_state_machine_as_test(
                    hypothesis.seed(seed_value)(machine_cls),
                    settings=settings(stateful_step_count=steps, **common),
                )
            else:
                raise HarnessProblem(f"unknown facet kind {facet.kind}")
        except Violation:
            c, msg, det = rec.last_failure
            return _shard_result(rec, t0, violation={"case": c, "message": msg, "details": det})
        except HarnessProblem as e:
            return _shard_result(rec, t0, harness=f"{facet.name}: {e}")
        except BaseException as e:  # noqa: BLE001
            if rec.last_failure is not None and "Flaky" in type(e).__name__:
                c, msg, det = rec.last_failure
                return _shard_result(
                    rec, t0, violation={"case": c, "message": msg, "details": det}
                )
            tb = getattr(rec, "harness_trace", None) or traceback.format_exc()
            return _shard_result(rec, t0, harness=f"{facet.name}: {type(e).__name__}: {str(e)[:300]}\n{tb}")
        return _shard_result(rec, t0)
    except BaseException as e:  # noqa: BLE001
        tb = traceback.format_exc()
        return {
            "evaluations": 0, "nontrivial": [], "extra_nontrivial": 0, "classes": {}, "samples": [], "known_hits": {},
            "violation": None, "harness": f"shard crashed: {type(e).__name__}: {e}\n{tb}",
            "wall": time.time() - t0,
        }


def _strict_json(x):
    """Non-finite floats as text, so that the evidence is strict JSON (readable by any parser)."""
    if isinstance(x, float) and not math.isfinite(x):
        return repr(x)
    if isinstance(x, dict):
        return {k: _strict_json(v) for k, v in x.items()}
    if isinstance(x, (list, tuple)):
        return [_strict_json(v) for v in x]
    return x


def _jsonable(x):
    return json.loads(json.dumps(x, default=_json_default))


# --------------------------------------------------------------------------------------
# property modules, replay files
# --------------------------------------------------------------------------------------


def prepare_import_path():
    repo = os.environ.get("VERIF_REPO", "/repo")
    if str(ROOT) not in sys.path:
        sys.path.insert(0, str(ROOT))
    if os.path.realpath(repo) != "/repo" and repo not in sys.path:
        sys.path.insert(0, repo)
    return repo


def assert_tree(repo):
    import skchange

    where = os.path.realpath(skchange.__file__)
    if not where.startswith(os.path.realpath(repo) + os.sep):
        raise HarnessProblem(f"skchange imported from {where}, expected under {repo}")


def load_property_module(prop: str):
    import importlib

    prepare_import_path()
    return importlib.import_module(f"checks.{prop.lower()}")


def write_replay(prop, facet_name, violation, directory="found"):
    d = OUT / "replays" / directory
    d.mkdir(parents=True, exist_ok=True)
    h = case_hash(violation["case"])
    path = d / f"{prop}-{facet_name}-{h}.json"
    payload = {
        "property": prop,
        "facet": facet_name,
        "message": violation["message"],
        "details": violation.get("details", {}),
        "case": violation["case"],
    }
    path.write_text(json.dumps(payload, indent=1, default=_json_default) + "\n")
    return path


def replay_file(prop, path) -> int:
    module = load_property_module(prop)
    payload = json.loads(Path(path).read_text())
    facet = {f.name: f for f in module.FACETS}.get(payload["facet"])
    if facet is None:
        print(f"HARNESS: unknown facet {payload['facet']} in {path}")
        return 2
    try:
        run_case(facet, payload["case"])
    except Violation as v:
        print(f"replay fails: {v.message}")
        if v.details:
            print("details:", json.dumps(_jsonable(v.details))[:2000])
        print(f"VIOLATION property={prop} replay={Path(path).resolve()}")
        return 1
    except HarnessProblem as e:
        print(f"HARNESS: {e}")
        return 2
    print(f"replay passes: property={prop} facet={facet.name} file={path}")
    return 0


# --------------------------------------------------------------------------------------
# main driver
# --------------------------------------------------------------------------------------


def run_property(prop: str, tier: str, seed: int, only_facets=None, scale: float = 1.0) -> int:
    t0 = time.time()
    os.environ.setdefault("PYTHONHASHSEED", "0")
    if tier == "quick":
        # The n_quick numbers of the facets are a 5-10 s budget (used as such by the mutant protocol);
        # the registered quick check runs three times as many generated cases (10-35 s per property).
        scale *= float(os.environ.get("VERIF_QUICK_SCALE", "3"))
    else:
        # thorough tier: four times the per-facet n_thorough numbers (5-10 min per property on 16 cores)
        scale *= float(os.environ.get("VERIF_THOROUGH_SCALE", "4"))
    repo = prepare_import_path()
    try:
        assert_tree(repo)
        module = load_property_module(prop)
    except Exception as e:  # noqa: BLE001
        print(f"HARNESS: cannot load {prop}: {type(e).__name__}: {e}")
        traceback.print_exc()
        return 2

    harness_msgs = []
    for st_fn in getattr(module, "SELF_TESTS", []):
        try:
            st_fn()
        except Exception as e:  # noqa: BLE001
            harness_msgs.append(f"oracle self-test {st_fn.__name__} failed: {e}")
            traceback.print_exc()
    if harness_msgs:
        for m in harness_msgs:
            print("HARNESS:", m)
        return 2

    facets = module.FACETS
    findings = load_known_findings(prop)
    violations = []  # (facet_name, violation dict, replay path)
    known_lines = []

    # 1. regression replays (seconds); every one must pass
    reg_dir = ROOT / "replays" / "regressions"
    regressions = sorted(reg_dir.glob(f"{prop}-*.json"))
    open_replays = {f.get("replay") for f in findings if f.get("status") == "open"}
    n_reg = 0
    facet_by_name = {f.name: f for f in facets}
    for path in regressions:
        payload = json.loads(path.read_text())
        facet = facet_by_name.get(payload["facet"])
        if facet is None:
            print(f"HARNESS: regression {path.name} names unknown facet {payload['facet']}")
            return 2
        rel = str(path.relative_to(ROOT))
        try:
            run_case(facet, payload["case"])
            if rel in open_replays:
                print(f"note: open finding replay {rel} no longer fails (repaired?)")
        except Violation as v:
            if rel in open_replays:
                pass  # still failing as recorded; the KNOWN-FINDING line is printed below
            else:
                violations.append((facet.name, {"case": payload["case"], "message": v.message,
                                                "details": _jsonable(v.details)}, path))
        except HarnessProblem as e:
            print(f"HARNESS: {e}")
            return 2
        n_reg += 1

    # 2. generated search, all facets, sharded over the pool
    tasks = []
    for fi, facet in enumerate(facets):
        if only_facets and facet.name not in only_facets:
            continue
        n_total = facet.n_quick if tier == "quick" else facet.n_thorough
        n_total = max(1, int(n_total * scale))
        n_shards = facet.shards_quick if tier == "quick" else facet.shards_thorough
        if facet.kind not in ("enumerate",):
            n_shards = max(1, min(n_shards, n_total))
        per = max(1, math.ceil(n_total / n_shards))
        for k in range(n_shards):
            tasks.append((prop, fi, k, n_shards, per, tier, seed))

    ctx = mp.get_context("fork")
    results = {}
    with ctx.Pool(min(N_WORKERS, max(1, len(tasks)))) as pool:
        for task, res in zip(tasks, pool.imap(run_shard, tasks, chunksize=1)):
            results.setdefault(task[1], []).append(res)

    per_facet = {}
    total_eval = 0
    all_nontrivial = set()
    total_extra_nontrivial = 0
    samples = []
    rules = []
    exhaustive_flags = []
    known_hits = Counter()
    for fi, facet in enumerate(facets):
        if fi not in results:
            continue
        rs = results[fi]
        ev = sum(r["evaluations"] for r in rs)
        extra_nt = sum(r.get("extra_nontrivial", 0) for r in rs)
        nt = set()
        cl = Counter()
        for r in rs:
            nt.update(r["nontrivial"])
            cl.update(r["classes"])
            known_hits.update(r["known_hits"])
            if r["harness"]:
                harness_msgs.append(r["harness"])
        fs = []
        for r in rs:
            for s in r["samples"]:
                if len(fs) < facet.max_samples:
                    fs.append(s)
        viol = [r["violation"] for r in rs if r["violation"]]
        per_facet[facet.name] = {
            "kind": facet.kind,
            "evaluations": ev,
            "distinct_nontrivial": len(nt) + extra_nt,
            "classes": dict(sorted(cl.items())),
            "shards": len(rs),
            "wall_s_sum": round(sum(r["wall"] for r in rs), 2),
            "violations": len(viol),
            "exhaustive": bool(facet.exhaustive and tier in facet.exhaustive_tiers and not viol),
        }
        total_eval += ev
        all_nontrivial.update(f"{facet.name}:{h}" for h in nt)
        total_extra_nontrivial += extra_nt
        for s in fs:
            samples.append({"facet": facet.name, "case": s})
        rules.append(f"[{facet.name}] {facet.rule}")
        exhaustive_flags.append(bool(facet.exhaustive and tier in facet.exhaustive_tiers))
        if viol:
            # smallest failing case of the facet (by serialised size) becomes the replay
            v = min(viol, key=lambda x: len(canonical(x["case"])))
            path = write_replay(prop, facet.name, v)
            violations.append((facet.name, v, path))

    # 3. known findings: print one line per open finding
    for f in findings:
        if f.get("status") == "open":
            known_lines.append(f"KNOWN-FINDING: property={prop} {f['what']}")

    wall = time.time() - t0
    evidence = {
        "property_id": prop,
        "tier": tier,
        "seed": seed,
        "level": LEVEL,
        "coverage": {
            "evaluations": total_eval + n_reg,
            "distinct_nontrivial": len(all_nontrivial) + total_extra_nontrivial,
            "rule": " || ".join(rules),
            "samples": samples,
            "exhaustive": bool(exhaustive_flags) and all(exhaustive_flags) and not violations,
            "facets": per_facet,
            "regression_replays_executed": n_reg,
            "known_finding_hits": dict(known_hits),
            "technique": getattr(module, "TECHNIQUE", ""),
        },
        "assumptions": getattr(module, "ASSUMPTIONS", []),
        "wall_s": round(wall, 2),
        "violations": len(violations),
    }
    ev_dir = OUT / "evidence"
    ev_dir.mkdir(parents=True, exist_ok=True)
    if not only_facets:
        (ev_dir / f"{prop}.json").write_text(json.dumps(_strict_json(_jsonable(evidence)), indent=1, allow_nan=False) + "\n")

    for name, pf in per_facet.items():
        print(
            f"{prop}/{name}: {pf['evaluations']} cases, {pf['distinct_nontrivial']} distinct non-trivial,"
            f" classes={pf['classes']}"
        )
    for line in known_lines:
        print(line)
    if harness_msgs:
        for m in harness_msgs:
            print("HARNESS:", m)
    for name, v, path in violations:
        print(f"violation in facet {name}: {v['message']}")
        if v.get("details"):
            print("  details:", json.dumps(v["details"], default=_json_default)[:1500])
        print(f"VIOLATION property={prop} replay={Path(path).resolve()}")
    print(f"{prop}: tier={tier} seed={seed} evaluations={total_eval + n_reg} wall={wall:.1f}s")
    if violations:
        return 1
    if harness_msgs:
        return 2
    return 0

#!/bin/sh
# Offline set-up: make sure hypothesis is importable in /venv (the interpreter that has
# the repository installed in editable mode). Nothing is fetched from a network.
set -e
cd "$(dirname "$0")"
if ! /venv/bin/python -c "import hypothesis" 2>/dev/null; then
    PIP_NO_INDEX=1 /venv/bin/pip install --no-index --find-links /opt/veriftools/wheels hypothesis
fi
# atheris (coverage-guided fuzz facet of C13) goes beside the framework, not into /venv
if ! PYTHONPATH="$PWD/.deps" /venv/bin/python -c "import atheris" 2>/dev/null; then
    PIP_NO_INDEX=1 /venv/bin/pip install --no-index --find-links /opt/veriftools/wheels --target "$PWD/.deps" atheris || echo "atheris not installable: the fuzz facet will report itself as unavailable"
fi
/venv/bin/python -c "import hypothesis, numpy, pandas, skchange; print('setup ok: hypothesis', hypothesis.__version__, 'skchange from', skchange.__file__)"
mkdir -p evidence replays/found
